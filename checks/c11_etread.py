"""C11 - Einstein Toolkit output is read back exactly for any file and process
layout.  DESIGN.md section 4, C11; generator: harness/etgen.py (section 3.3).

Sub-checks
----------
join, join_small   join_chunks called directly on {iorigin: (z,y,x) chunk}
                   dictionaries (rectilinear / nested z->y->x splittings, any
                   insertion order); join_small = exactly 2 or 3 chunks (the
                   reader has special branches for them), join = 1 or >= 4.
join_unsupported   general bisection trees (x-first, L-shapes) and a missing
                   chunk: must raise or return correctly placed data.
fixij              fixij(a)[x, y, z] == a[z, y, x].
read, read_small   a generated simulation directory (one of the 4 layouts,
                   1-3 levels, 1-3 overlapping restarts, per-restart
                   decomposition) read with read_data(split_per_it=False) and
                   read_ET_variables; exact equality with the ground truth.
                   read_small = some restart has 2 or 3 components.
ghost0             as read, with a ghost width of 0 on >= 1 axis.
layouts4           the same content written in the four layouts: the same
                   request returns the same arrays / it / t in all of them.
unsupported        directories the reader cannot support (general bisection,
                   missing component, single component with a c= tag or a
                   .file_0 name, level with fewer components than files): must
                   raise or return exactly placed data (observations counted).
"""
from __future__ import annotations

import contextlib
import io
import shutil

import numpy as np
from hypothesis import strategies as st

import aurel.reading as rd
from harness import etgen
from harness.common import PropertyFailure, Sub, scratch_dir
from harness.etcases import (K, build_spec, check_result, cut_axes,
                             expected_keys, layout_kind, nclass, permute,
                             quiet, resolve, resolve_request, sim_case,
                             sizes_for, source_restart, subblock_ok,
                             supported_dec, tree_dec)

PROPERTY = "C11"
RULE = ("Hypothesis draws a simulation description (interior size 3-12 per "
        "axis and level, ghost width 1-4 per axis (0 in sub-check ghost0), "
        "decomposition per restart: rectilinear cuts or nested z->y->x "
        "splitting with 1-27 (thorough 64) components, component numbering "
        "permutation, layout in {one file, file per process} x {variable, "
        "group per file}, 1-3 levels with own sizes and output strides, 1-3 "
        "restarts with overlapping iteration ranges, 1-4 variable groups) "
        "and a request (aurel tensor and component names, unsorted iteration "
        "subset with duplicates and out-of-range entries, level, restart -1 "
        "or fixed); harness/etgen.py writes it in the fixtures' format with "
        "values encoding (variable, iteration, level, restart, x, y, z) "
        "injectively, and the arrays returned by read_data / "
        "read_ET_variables / join_chunks must be np.array_equal to the "
        "ground truth. Sub-check regridded: one-file layouts in which a "
        "level changes its decomposition (1 -> many, many -> 1, any -> any) "
        "from a drawn iteration on, read through get_content + "
        "read_ET_variables. Non-trivial = the level read has >= 2 chunks along "
        ">= 1 axis and a non-cubic interior size.")
# a run that exceeds this ends as "explored less" (never a violation)
BUDGET_S = {"quick": 85, "thorough": 1050}
ASSUMPTIONS = [
    "file format modelled on the repository fixtures (dataset key, (z,y,x) "
    "axis order, cctk_nghostzones / iorigin / time attributes, iorigin in "
    "interior units, ' c=<n>' tag iff the level has > 1 component, component "
    "c in file_<c>, no .file_ suffix for a single process); Carpet features "
    "absent from the fixtures (time levels > 0, several maps, several "
    "components of one level in one process file) are not generated",
    "rectilinear decompositions (property text) and nested z->y->x "
    "splittings (the shape of the repository's 3-, 6- and 7-process "
    "fixtures) are treated as supported: the exact array is required; any "
    "other layout only has to raise or return correctly placed data",
    "finished simulations are read with skip_last=False (the documented way "
    "to include the last restart)",
    "output iterations of a level are the multiples of its stride inside "
    "the restart's range (Carpet 'divisor' criterion), so range membership "
    "in the catalogue equals presence in the files",
    "ghost width 0 (cctk_nghostzones = 0 on an axis) is counted as a valid "
    "input because the property quantifies over all ghost widths and Carpet "
    "accepts driver::ghost_size = 0; aurel's documentation is silent on it",
]


# ---------------------------------------------------------------------------
# helpers


# ---------------------------------------------------------------------------
# strategies: decompositions


# ---------------------------------------------------------------------------
# join_chunks directly


@st.composite
def join_case(draw, classes, unsupported=False, nmax=12):
    if unsupported:
        dec = draw(tree_dec())
        missing = draw(st.one_of(st.none(), K))
    else:
        dec = draw(supported_dec(classes))
        missing = None
    n = draw(sizes_for(dec["need"], nmax))
    return dict(n=n, dec=dec, missing=missing,
                order=draw(st.integers(0, 9999)),
                origin=draw(st.sampled_from([[0, 0, 0], [3, 3, 3],
                                             [0, 5, 2]])))


def _join_inputs(case):
    n = case["n"]
    boxes = resolve(n, case["dec"])
    if case.get("missing") is not None and len(boxes) > 1:
        boxes = list(boxes)
        boxes.pop(case["missing"] % len(boxes))
    boxes = permute(boxes, case["order"])
    Z, Y, X = np.meshgrid(np.arange(n[2]), np.arange(n[1]), np.arange(n[0]),
                          indexing="ij")
    G = (X + 32 * Y + 1024 * Z).astype(np.float64)
    org = case["origin"]
    cut = {}
    for (bx, by, bz) in boxes:
        key = (np.int32(org[0] + bx[0]), np.int32(org[1] + by[0]),
               np.int32(org[2] + bz[0]))
        cut[key] = G[bz[0]:bz[1], by[0]:by[1], bx[0]:bx[1]].copy()
    return n, boxes, G, cut


def test_join(case, note):
    n, boxes, G, cut = _join_inputs(case)
    kind = layout_kind(n, boxes)
    ncl = nclass(len(boxes))
    axes = cut_axes(boxes)
    note.cls(f"kind={kind}", f"chunks={ncl}", f"axes={axes}")
    note.nt(len(boxes) >= 2 and len(set(n)) > 1)
    supported = kind in ("rect", "nested")
    if supported and case["dec"]["kind"] == "tree":
        note.cls("tree-is-supported-layout(skipped)")
        note.nt(False)
        return      # subject of join / join_small
    branch = f"@{len(boxes)}chunks" if len(boxes) in (2, 3) else ""
    try:
        got = rd.join_chunks(cut)
    except Exception as e:  # noqa: BLE001
        if supported:
            note.fail(f"raises{branch}",
                      dict(error=f"{type(e).__name__}: {e}"[:200], kind=kind,
                           nchunks=len(boxes), axes=axes,
                           origins=[[int(v) for v in k] for k in cut]))
        else:
            note.cls("unsupported:raised")
        return
    got = np.asarray(got)
    if supported:
        if got.shape != G.shape or not np.array_equal(got, G):
            what = ("shape" if got.shape != G.shape else "value")
            note.fail(f"{what}{branch}",
                      dict(kind=kind, nchunks=len(boxes), axes=axes,
                           got_shape=list(got.shape), want=list(G.shape),
                           origins=[[int(v) for v in k] for k in cut],
                           shapes=[list(v.shape) for v in cut.values()]))
    else:
        if np.array_equal(got, G):
            note.cls("unsupported:exact")
        elif kind == "missing" and subblock_ok(got, G):
            note.cls("unsupported:partial-but-placed")
        else:
            note.fail(f"silent-misplacement:{kind}",
                      dict(nchunks=len(boxes), got_shape=list(got.shape),
                           want=list(G.shape),
                           origins=[[int(v) for v in k] for k in cut],
                           shapes=[list(v.shape) for v in cut.values()]))


def test_fixij(case, note):
    nz, ny, nx = case["shape"]
    note.nt(len({nz, ny, nx}) == 3)
    a = (np.arange(nz * ny * nx, dtype=np.float64) * case["scale"]
         ).reshape(nz, ny, nx)
    src = a.tolist() if case["aslist"] else a
    got = rd.fixij(src)
    want = np.empty((nx, ny, nz))
    for i in range(nx):
        for j in range(ny):
            want[i, j, :] = a[:, j, i]
    if np.shape(got) != want.shape:
        raise PropertyFailure("fixij:shape", dict(got=list(np.shape(got)),
                                                  want=list(want.shape)))
    if not np.array_equal(got, want):
        raise PropertyFailure("fixij:value", dict(shape=[nz, ny, nx]))


fixij_case = st.fixed_dictionaries(dict(
    shape=st.lists(st.integers(1, 7), min_size=3, max_size=3),
    scale=st.sampled_from([1.0, 0.5, -3.0]), aslist=st.booleans()))


# ---------------------------------------------------------------------------
# simulation directories


def level_classes(spec, r, rl, note):
    rs = spec["restarts"][etgen.restart_index(spec, r)]
    boxes = rs["boxes"][rl]
    n = spec["levels"][rl]["n"]
    note.cls(f"chunks={nclass(len(boxes))}", f"axes={cut_axes(boxes)}",
             f"kind={layout_kind(n, boxes)}",
             "layout=" + ("proc" if rs["per_proc"] else "onefile") + "+"
             + ("grouped" if spec["grouped"] else "ungrouped"))
    if any(g["rl"] == rl for g in rs.get("regrid", [])):
        note.cls("level-regridded-during-restart")
    return len(boxes) >= 2 and len(set(n)) > 1


def branch_suffix(spec, restarts_used, rl):
    """'@2chunks' / '@3chunks' when a restart that was read has exactly 2 or
    3 components on this level (the reader's special branches)."""
    cnt = sorted({len(spec["restarts"][etgen.restart_index(spec, r)]
                      ["boxes"][rl]) for r in restarts_used})
    small = [c for c in cnt if c in (2, 3)]
    return f"@{small[0]}chunks" if small else ""


def run_read(case, note, spec=None, tagprefix=""):
    """Write the directory, run the request (read_data) and a direct
    read_ET_variables on one restart; report through note.fail."""
    spec = spec or build_spec(case)
    kw, expected_its = resolve_request(case, spec)
    rl = kw["rl"]
    used = sorted({source_restart(spec, i, rl, kw["restart"])
                   for i in expected_its})
    nt = False
    for r in used:
        nt = level_classes(spec, r, rl, note) or nt
    note.nt(nt)
    note.cls(f"levels={len(spec['levels'])}",
             f"restarts={len(spec['restarts'])}",
             "req=" + ("all" if not kw["vars"] else "named"),
             "restart=" + ("auto" if kw["restart"] < 0 else "fixed"))
    if any(len([rs for rs in spec["restarts"] if i in rs["its"][rl]]) > 1
           for i in expected_its):
        note.cls("overlap-read")
    if any(v in etgen.AUREL_TENSORS for v in kw["vars"]):
        note.cls("tensor-name")
    d = scratch_dir()
    try:
        root = etgen.write_sim(d, spec)
        param = etgen.param_for(root, spec["sim"])
        sfx = branch_suffix(spec, used, rl)

        main_failed = []

        def fail(disc, obs):
            main_failed.append(disc)
            obs = dict(obs)
            obs["chunks"] = {str(r): len(spec["restarts"][
                etgen.restart_index(spec, r)]["boxes"][rl]) for r in used}
            note.fail(tagprefix + disc + sfx, obs)
        # every fourth request is read with the API's default verbosity or
        # more (output swallowed)
        vb = (sum(case["req"]["itsel"]) + len(case["req"]["varsel"])) % 8
        vkw = dict(verbose=vb in (5, 6, 7))
        if vb in (6, 7):
            vkw.update(veryverbose=True, veryextraverbose=vb == 7)
        if vkw["verbose"]:
            note.cls("verbose-read")
        try:
            out = quiet(rd.read_data, param, split_per_it=False,
                        skip_last=False,
                        it=list(kw["it"]), vars=list(kw["vars"]), rl=rl,
                        restart=kw["restart"], **vkw)
        except Exception as e:  # noqa: BLE001
            fail("raises", dict(error=f"{type(e).__name__}: {e}"[:300],
                                request=kw))
            out = None
        if out is not None:
            check_result(out, spec, kw, expected_its, "", fail)

        # read_ET_variables directly on one restart (also the non-latest one
        # of an overlapping iteration)
        r = kw["restart"] if kw["restart"] >= 0 else spec["restarts"][0]["r"]
        its_r = etgen.its_of(spec, r, rl)
        vars_r = kw["vars"] or [etgen.aurel_name(v)
                                for v in etgen.variables(spec)][:3]
        sfx2 = branch_suffix(spec, [r], rl)
        note.nt(level_classes(spec, r, rl, note) or nt)

        def fail2(disc, obs):
            # the same root cause is not reported twice on one case
            if not main_failed:
                note.fail(tagprefix + "ETvars:" + disc + sfx2, dict(obs))
        try:
            vf = quiet(rd.get_content, param, restart=r, verbose=False)
            # iterations handed over in a non-ascending order (as a set
            # iteration order gives them): the function documents
            # it = sorted(set(it))
            its_arg = list(its_r[1::2]) + list(its_r[0::2])[::-1]
            out2 = quiet(rd.read_ET_variables, param, list(vars_r), vf,
                         it=its_arg, rl=rl, restart=r)
        except Exception as e:  # noqa: BLE001
            fail2("raises", dict(error=f"{type(e).__name__}: {e}"[:300],
                                 restart=r, its=its_r))
            out2 = None
        if out2 is not None:
            check_result(out2, spec, dict(it=its_r, vars=vars_r, rl=rl,
                                          restart=r), list(its_r), "", fail2)
    finally:
        shutil.rmtree(d, ignore_errors=True)


def test_read(case, note):
    run_read(case, note)


def test_regridded(case, note):
    """One-file layouts in which a level changes its components during a
    restart (Carpet regridding). read_ET_variables / read_ET_group_or_var
    count the components per iteration, so every iteration of the restart
    must come back exactly, whatever the order of the two decompositions.
    (The iteration catalogue behind read_data assumes fixed components per
    level, so this goes through read_ET_variables directly.)"""
    spec = build_spec(case, per_proc=False)
    cands = [(rs, g) for rs in spec["restarts"]
             for g in rs.get("regrid", [])]
    note.cls("grouped" if spec["grouped"] else "ungrouped")
    if not cands:
        note.cls("no-restart-long-enough-to-regrid")
        return
    d = scratch_dir()
    try:
        root = etgen.write_sim(d, spec)
        param = etgen.param_for(root, spec["sim"])
        for rs, g in cands:
            r, rl = rs["r"], g["rl"]
            n0, n1 = len(rs["boxes"][rl]), len(g["boxes"])
            note.cls("components:" + ("more" if n1 > n0 else "fewer"
                                      if n1 < n0 else "same-count"),
                     f"chunks={nclass(n0)}->{nclass(n1)}")
            note.nt(n0 != n1 and len(set(spec["levels"][rl]["n"])) > 1)
            its_r = etgen.its_of(spec, r, rl)
            sel = case["req"]["itsel"]
            its = sorted({its_r[k % len(its_r)] for k in sel}
                         | {g["from_it"], its_r[0]})
            if case["req"]["varsel"] and case["req"]["varsel"][0] % 2:
                its = list(its_r)
            vars_r = [etgen.aurel_name(v)
                      for v in etgen.variables(spec)][:3]

            def fail(disc, obs, n0=n0, n1=n1, its=its):
                note.fail("regrid:" + disc, dict(
                    obs, components_before=n0, components_after=n1,
                    from_it=g["from_it"], its=its))
            try:
                vf = quiet(rd.get_content, param, restart=r, verbose=False)
                out = quiet(rd.read_ET_variables, param, list(vars_r), vf,
                            it=list(its), rl=rl, restart=r)
            except Exception as e:  # noqa: BLE001
                fail("raises", dict(error=f"{type(e).__name__}: {e}"[:300],
                                    restart=r))
                continue
            check_result(out, spec, dict(it=its, vars=vars_r, rl=rl,
                                         restart=r), list(its), "", fail)
    finally:
        shutil.rmtree(d, ignore_errors=True)


def test_late_level(case, note):
    """The finest level appears only part-way through a restart (a level
    added by regridding): the restart's iteration range is that of all its
    levels, so coarse-level iterations from before the fine level existed
    still come from that (latest) restart."""
    spec = build_spec(case)
    nlev = len(spec["levels"])
    if nlev < 2:
        note.cls("single-level")
        return
    sel = case["req"]["itsel"]
    changed = False
    for k, rs in enumerate(spec["restarts"]):
        fine = rs["its"][nlev - 1]
        if len(fine) > 1 and (k > 0 or len(spec["restarts"]) == 1
                              or sel[0] % 2):
            drop = 1 + sel[k % len(sel)] % (len(fine) - 1)
            rs["its"][nlev - 1] = fine[drop:]
            changed = True
    if not changed:
        note.cls("restarts-too-short")
        return
    note.cls("fine-level-appears-mid-restart")
    rq = dict(case["req"], rl=case["req"]["rl"] % (nlev - 1))
    run_read(dict(case, req=rq), note, spec=spec, tagprefix="late-level:")


def test_ghost0(case, note):
    note.cls("ghost0-axes=" + "".join("xyz"[a] for a in range(3)
                                      if case["ghost"][a] == 0))
    run_read(case, note, tagprefix="ghost0:")


LAYOUTS = [(False, False), (False, True), (True, False), (True, True)]


def lname(pp, gr):
    return ("proc" if pp else "onefile") + "+" + \
        ("grouped" if gr else "ungrouped")


def test_layouts4(case, note):
    results = {}
    spec0 = build_spec(case, per_proc=False, grouped=False)
    kw, expected_its = resolve_request(case, spec0)
    rl = kw["rl"]
    used = sorted({source_restart(spec0, i, rl, kw["restart"])
                   for i in expected_its})
    nt = False
    for r in used:
        rs = spec0["restarts"][etgen.restart_index(spec0, r)]
        note.cls(f"chunks={nclass(len(rs['boxes'][rl]))}",
                 f"axes={cut_axes(rs['boxes'][rl])}")
        nt = (len(rs["boxes"][rl]) >= 2
              and len(set(spec0["levels"][rl]["n"])) > 1) or nt
    note.nt(nt)
    for pp, gr in LAYOUTS:
        spec = build_spec(case, per_proc=pp, grouped=gr)
        nm = lname(pp, gr)
        d = scratch_dir()
        try:
            root = etgen.write_sim(d, spec)
            param = etgen.param_for(root, spec["sim"])
            try:
                out = quiet(rd.read_data, param, split_per_it=False,
                            skip_last=False, verbose=False,
                            it=list(kw["it"]), vars=list(kw["vars"]), rl=rl,
                            restart=kw["restart"])
            except Exception as e:  # noqa: BLE001
                note.fail(f"{nm}:raises",
                          dict(error=f"{type(e).__name__}: {e}"[:300]))
                continue
            check_result(out, spec, kw, expected_its, nm + ":",
                         lambda dsc, o: note.fail(dsc, o))
            results[nm] = out
        finally:
            shutil.rmtree(d, ignore_errors=True)
    # differential: requested keys, it and t identical in every layout
    names = list(results)
    keys = [k for k, _ in expected_keys(spec0, kw["vars"])]
    for a in names[1:]:
        A, B = results[names[0]], results[a]
        if [int(i) for i in A["it"]] != [int(i) for i in B["it"]] or \
                [float(v) for v in A["t"]] != [float(v) for v in B["t"]]:
            note.fail("differential:it-t", dict(layouts=[names[0], a]))
        for k in keys:
            if (k in A) != (k in B):
                note.fail("differential:keys", dict(key=k,
                                                    layouts=[names[0], a]))
            elif k in A and not all(
                    np.shape(x) == np.shape(y) and np.array_equal(x, y)
                    for x, y in zip(A[k], B[k])):
                note.fail("differential:value", dict(key=k,
                                                     layouts=[names[0], a]))


def test_unsupported(case, note):
    spec = build_spec(case)
    kw, expected_its = resolve_request(case, spec)
    rl = kw["rl"]
    modes = sorted({r["mode"] for r in case["restarts"]})
    d = scratch_dir()
    try:
        root = etgen.write_sim(d, spec)
        param = etgen.param_for(root, spec["sim"])
        for rs, rc in zip(spec["restarts"], case["restarts"]):
            r = rs["r"]
            boxes = rs["boxes"][rl]
            n = spec["levels"][rl]["n"]
            kind = layout_kind(n, boxes)
            mode = rc["mode"]
            note.cls(f"mode={mode}", f"kind={kind}",
                     f"chunks={nclass(len(boxes))}")
            if mode in ("tree", "missing") and kind in ("rect", "nested"):
                note.cls("obs:tree-is-supported-layout(skipped)")
                continue    # subject of read / read_small
            its_r = etgen.its_of(spec, r, rl)[:2]
            vars_r = kw["vars"] or [etgen.aurel_name(v) for v in
                                    etgen.variables(spec)][:2]
            try:
                out = quiet(rd.read_data, param, split_per_it=False,
                            skip_last=False, verbose=False, it=list(its_r),
                            vars=list(vars_r), rl=rl, restart=r)
            except Exception as e:  # noqa: BLE001
                note.cls(f"obs:{mode}:raises:{type(e).__name__}")
                continue
            # returned something: it must be exact (or, with a missing
            # component, a correctly placed block)
            bad = []
            check_result(out, spec, dict(it=its_r, vars=vars_r, rl=rl,
                                         restart=r), list(its_r), "",
                         lambda dsc, o: bad.append((dsc, o)),
                         strict_keys=False)
            if not bad:
                note.cls(f"obs:{mode}:exact")
                note.nt(kind not in ("rect", "nested") or mode != "ok")
                continue
            placed = False
            if kind == "missing":
                placed = True
                for akey, et in expected_keys(spec, vars_r):
                    for i, it in enumerate(its_r):
                        full = etgen.truth(spec, et, it, rl, r)
                        if akey not in out or not subblock_ok(out[akey][i],
                                                              full):
                            placed = False
            if placed:
                note.cls(f"obs:{mode}:partial-but-placed")
            else:
                note.fail(f"silent-misplacement:{mode}",
                          dict(kind=kind, first=bad[0][0], detail=bad[0][1],
                               boxes=boxes, n=n))
    finally:
        shutil.rmtree(d, ignore_errors=True)
    note.nt(True if modes else False)


# ---------------------------------------------------------------------------
# fixed fully generic cases


def _rs(dec, **kw):
    base = dict(dec=dec, perm=7, len=2, overlap=2, mode="ok", missing=0,
                per_proc=True)
    base.update(kw)
    return base


GENERIC_READ = [
    # 12 chunks (3 x 2 x 2), permuted numbering, file per process + grouped,
    # 2 levels with subcycling, 3 overlapping restarts (one nested 7-chunk,
    # one single component), tensor + component names, unsorted request
    dict(sim="BHB_lowres", n=[[7, 5, 6], [9, 8, 6]], ghost=[3, 2, 1],
         groups=["admbase-shift", "hydrobase-vel", "admbase-lapse",
                 "mythorn-mypair"],
         restarts=[
             _rs(dict(kind="rect", k=[[1, 3], [2], [0]], need=[3, 2, 2])),
             _rs(dict(kind="nested", z=[2], y=[[1], [3]],
                      x=[[[0], [5]], [[2], [1, 4]]], need=[3, 2, 2]),
                 perm=3, per_proc=False, len=3, overlap=1),
             _rs(dict(kind="rect", k=[[], [], []], need=[1, 1, 1]), perm=0,
                 len=1, overlap=2)],
         stride=2, subcycle=True, first=1, origin1=[3, 3, 3], grouped=True,
         req=dict(varsel=[0, 5, 8, 9], rl=1, restart=-1,
                  itsel=[9, 2, 5, 2, 11, 0], extra=[1000])),
    # one file + ungrouped, rl=0, fixed restart, all variables
    dict(sim="etsim", n=[[5, 8, 6]], ghost=[1, 3, 2],
         groups=["admbase-metric", "hydrobase-rho"],
         restarts=[
             _rs(dict(kind="rect", k=[[2], [0, 4], [3]], need=[2, 3, 2]),
                 per_proc=False, perm=11),
             _rs(dict(kind="rect", k=[[0], [1], [2], ], need=[2, 2, 2]),
                 per_proc=True, perm=5, overlap=3)],
         stride=3, subcycle=False, first=0, origin1=[0, 0, 0], grouped=False,
         req=dict(varsel=[], rl=0, restart=0, itsel=[2, 0, 1], extra=[])),
]

GENERIC_SMALL = [
    dict(sim="etsim", n=[[6, 5, 4]], ghost=[2, 2, 2],
         groups=["admbase-lapse"],
         restarts=[_rs(dict(kind="rect", k=[[k] if a == ax else []
                                            for a in range(3)],
                            need=[1, 1, 1]), perm=pm, per_proc=pp, len=0)],
         stride=1, subcycle=False, first=0, origin1=[0, 0, 0], grouped=False,
         req=dict(varsel=[0], rl=0, restart=-1, itsel=[0], extra=[]))
    for ax, k, pm, pp in [(0, 2, 0, False), (0, 1, 0, True), (1, 1, 0, False),
                          (1, 2, 0, False), (2, 1, 0, False), (2, 0, 2, True)]
] + [
    dict(sim="etsim", n=[[6, 6, 6]], ghost=[1, 1, 1],
         groups=["admbase-lapse"],
         restarts=[_rs(dict(kind="rect", k=[[1, 3] if a == ax else []
                                            for a in range(3)],
                            need=[1, 1, 1]), perm=0, per_proc=False, len=0)],
         stride=1, subcycle=False, first=0, origin1=[0, 0, 0], grouped=False,
         req=dict(varsel=[0], rl=0, restart=-1, itsel=[0], extra=[]))
    for ax in range(3)
] + [
    dict(sim="etsim", n=[[6, 6, 4]], ghost=[1, 1, 1],
         groups=["admbase-lapse"],
         restarts=[_rs(dict(kind="nested", z=[1], y=ys, x=[[[]], [[]]],
                            need=[1, 2, 2]), perm=0, per_proc=False, len=0)],
         stride=1, subcycle=False, first=0, origin1=[0, 0, 0], grouped=False,
         req=dict(varsel=[0], rl=0, restart=-1, itsel=[0], extra=[]))
    for ys in ([[2], []], [[], [2]])
]

GENERIC_GHOST0 = [
    dict(sim="etsim", n=[[5, 4, 3]], ghost=[0, 0, 0],
         groups=["admbase-lapse"],
         restarts=[_rs(dict(kind="rect", k=[[], [], []], need=[1, 1, 1]),
                       perm=0, per_proc=False, len=0)],
         stride=1, subcycle=False, first=0, origin1=[0, 0, 0], grouped=False,
         req=dict(varsel=[0], rl=0, restart=-1, itsel=[0], extra=[])),
    dict(sim="etsim", n=[[6, 5, 4]], ghost=[2, 0, 1],
         groups=["admbase-shift"],
         restarts=[_rs(dict(kind="rect", k=[[1], [2], [0]], need=[2, 2, 2]),
                       perm=3, per_proc=True, len=1)],
         stride=2, subcycle=False, first=0, origin1=[0, 0, 0], grouped=True,
         req=dict(varsel=[0], rl=0, restart=-1, itsel=[1, 0],
                  extra=[])),
]

# three slabs along z with the middle one missing (a hole)
GENERIC_UNSUPPORTED = [
    dict(sim="etsim", n=[[4, 3, 5]], ghost=[1, 2, 1],
         groups=["admbase-lapse"],
         restarts=[dict(dec=dict(kind="tree",
                                 t=[2, 0, None, [2, 1, None, None]],
                                 need=[2, 2, 2]),
                        perm=0, len=1, overlap=0, mode="missing", missing=1,
                        per_proc=pp)],
         stride=1, subcycle=False, first=0, origin1=[0, 0, 0], grouped=False,
         req=dict(varsel=[0], rl=0, restart=-1, itsel=[0], extra=[]))
    for pp in (False, True)
]
GENERIC_JOIN_UNSUPPORTED = [
    dict(n=[4, 3, 5], dec=dict(kind="tree",
                               t=[2, 0, None, [2, 1, None, None]]),
         missing=1, order=0, origin=[0, 0, 0]),
    dict(n=[6, 6, 6], dec=dict(kind="tree",
                               t=[0, 2, [2, 1, None, None],
                                  [2, 3, None, None]]),
         missing=None, order=3, origin=[3, 3, 3]),
]

GENERIC_JOIN = [
    dict(n=[7, 5, 6], dec=dict(kind="rect", k=[[1, 3], [2], [0]]),
         missing=None, order=13, origin=[3, 3, 3]),
    dict(n=[8, 8, 8], dec=dict(kind="nested", z=[3], y=[[2], [4]],
                               x=[[[3], [1]], [[4], [0, 5]]]),
         missing=None, order=5, origin=[0, 0, 0]),
    dict(n=[4, 5, 3], dec=dict(kind="rect", k=[[], [], []]), missing=None,
         order=0, origin=[0, 0, 0]),
]
GENERIC_JOIN_SMALL = [
    dict(n=[6, 5, 4], dec=dict(kind="rect", k=[[k] if a == ax else []
                                               for a in range(3)]),
         missing=None, order=o, origin=[0, 0, 0])
    for ax, k, o in [(0, 2, 0), (0, 0, 0), (1, 1, 0), (2, 1, 0), (2, 1, 2)]
] + [
    dict(n=[6, 6, 6], dec=dict(kind="rect", k=[[1, 3] if a == ax else []
                                               for a in range(3)]),
         missing=None, order=0, origin=[0, 0, 0]) for ax in range(3)
] + [
    dict(n=[6, 6, 4], dec=dict(kind="nested", z=[1], y=ys, x=[[[]], [[]]]),
         missing=None, order=0, origin=[0, 0, 0])
    for ys in ([[2], []], [[], [2]])
]


def selftest():
    # encoding is injective and decodes back
    spec = etgen.simple_spec(n=(4, 3, 5), ghost=(1, 2, 0), nlevels=2,
                             restarts=[[0, 3], [3, 5]])
    seen = set()
    for var in ("alp", "betax"):
        for it in (0, 3):
            for rl in (0, 1):
                for r in (0, 1):
                    G = etgen.stored_field(spec, var, it, rl, r)
                    vals = set(G.ravel().tolist())
                    assert len(vals) == G.size and not (vals & seen)
                    seen |= vals
                    dd = etgen.decode(G[1, 2, 3])
                    assert (dd["X"], dd["Y"], dd["Z"], dd["it"], dd["var"],
                            dd["rl"], dd["restart"]) == (3, 2, 1, it, var,
                                                         rl, r)
                    T = etgen.truth(spec, var, it, rl, r)
                    n = spec["levels"][rl]["n"]
                    assert T.shape == tuple(n)
                    assert T[1, 2, 3] == G[3 + 0, 2 + 2, 1 + 1]
    # decompositions tile the grid; classification helpers
    n = [7, 6, 5]
    b1 = resolve(n, dict(kind="rect", k=[[1, 3], [2], [0]]))
    assert len(b1) == 12 and etgen.is_partition(n, b1)
    assert layout_kind(n, b1) == "rect"
    b2 = resolve(n, GENERIC_JOIN[1]["dec"])
    assert len(b2) == 9 and layout_kind(n, b2) == "nested"
    b3 = resolve(n, dict(kind="tree", t=[0, 3, [2, 1, None, None],
                                         [2, 2, None, None]]))
    assert len(b3) == 4 and layout_kind(n, b3) == "general"
    assert layout_kind(n, b1[:-1]) == "missing"
    assert layout_kind(n, permute(b2, 5)) == "nested"
    # independent assembler agrees with the global array
    c = GENERIC_JOIN[1]
    nn, boxes, G, cut = _join_inputs(c)
    A = np.full(G.shape, -1.0)
    for (bx, by, bz) in boxes:
        A[bz[0]:bz[1], by[0]:by[1], bx[0]:bx[1]] = cut[
            (bx[0], by[0], bz[0])]
    assert np.array_equal(A, G)
    assert subblock_ok(G[1:3, 2:4, 0:5], G) and not subblock_ok(
        G[1:3, 2:4, 0:5][::-1], G)
    # request bookkeeping
    assert etgen.expand_request(["betaup3", "alpha", "velx"]) == [
        ("betax", "betax"), ("betay", "betay"), ("betaz", "betaz"),
        ("alpha", "alp"), ("velx", "vel[0]")]


def subchecks(tier):
    q = tier == "quick"
    big = ["1", "4-8", "9-27"] + ([] if q else [">27"])
    nmax = 12
    return [
        Sub("join", join_case(big, nmax=nmax if q else 16), test_join,
            600 if q else 12000, generic=GENERIC_JOIN, shards=4 if q else 8),
        Sub("join_small", join_case(["2", "3"]), test_join,
            300 if q else 4000, generic=GENERIC_JOIN_SMALL, shards=1,
            max_rounds=8),
        Sub("join_unsupported", join_case(None, unsupported=True), test_join,
            400 if q else 8000, generic=GENERIC_JOIN_UNSUPPORTED, shards=2),
        Sub("fixij", fixij_case, test_fixij, 100 if q else 1000),
        Sub("read", sim_case(big), test_read, 200 if q else 8000,
            generic=GENERIC_READ, shards=8 if q else 16, shrink_quick=True),
        # shards=1 in quick: the fixed cases then exclude every known
        # discriminator before the random search starts
        Sub("read_small", sim_case(["2", "3"], nlev_max=2), test_read,
            40 if q else 1200, generic=GENERIC_SMALL, shards=1 if q else 16,
            max_rounds=8, shrink_quick=False),
        Sub("ghost0", sim_case(["1", "4-8"], ghost_lo=0, nlev_max=2),
            test_ghost0, 32 if q else 400, generic=GENERIC_GHOST0,
            shards=2 if q else 8, shrink_quick=False),
        Sub("layouts4", sim_case(["4-8", "9-27"], nlev_max=2,
                                 fixed_layout=False), test_layouts4,
            32 if q else 1600, shards=8 if q else 16),
        Sub("regridded", sim_case(["1", "2", "3", "4-8"], nlev_max=2,
                                  regrid=True), test_regridded,
            64 if q else 2000, shards=4 if q else 16),
        Sub("late_level", sim_case(["1", "4-8"], nlev_max=3, nmax=8,
                                   nlev_choices=[2, 2, 3]),
            test_late_level, 64 if q else 2000, shards=4 if q else 16),
        Sub("unsupported", sim_case(["1"], unsupported=True, nlev_max=2),
            test_unsupported, 64 if q else 1200, generic=GENERIC_UNSUPPORTED,
            shards=8 if q else 16),
    ]
