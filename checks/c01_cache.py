"""C01 - the lazy cache is transparent: a value never depends on request
history or cache settings.  DESIGN.md section 4, C01."""
from harness import cachemachine as CM
from harness import selftest as _st
from harness.common import Sub

PROPERTY = "C01"
RULE = ("Hypothesis rule-based state machine over one AurelCore instance: the "
        "initial state draws an exact input spacetime (W, F, KS, PP, FLRW), "
        "input form (components / tensors, default components omitted), "
        "grid, fd_order, boundary, Lambda, vacuum, tetrad and cache settings "
        "(clear_cache_every_nbr_calc 1..30, memory_threshold from 0.5x one "
        "scalar field up to 4 GB); rules request any of the 161 description "
        "keys (branch-guard keys and their dependants weighted up), call the "
        "tensor-calculus helpers on generated smooth fields, re-access an "
        "earlier request, make a bracket request for a method that takes "
        "arguments, or (rarely) call freeze_data() again. After every step the returned value is compared "
        "leaf-wise with what a fresh never-evicting instance returns for "
        "that single request: |a-b| <= 1e-10*scale + 10*E_k (E_k = "
        "difference between FD orders p and p+2 of the fresh value), else "
        "the history is replayed at order p+2 and forgiven only if the "
        "discrepancy drops 4-fold. Non-trivial history = an eviction was "
        "observed or a branch-guard key was cached before a dependant.")
ASSUMPTIONS = [
    "k*h <= 0.2 so that discretisation-level branch differences are >= 2 "
    "decades below O(scale) stale/aliased/wrong-branch values",
    "an exception raised identically by the history and by a fresh instance "
    "is not a history dependence",
]


def selftest():
    _st.run()


def factory(stats, excluded, last, ctl):
    return CM.make_machine("values", {}, stats, excluded, last, ctl)


def factory_aggr(stats, excluded, last, ctl):
    return CM.make_machine("values", dict(aggressive=True), stats, excluded,
                           last, ctl)


def test(case, note):
    CM.replay("values", case, note)


FILL = ["gammadet", "Ktrace", "betamag", "A2", "psi_bssnok", "Aup3", "Kup3",
        "phi_bssnok", "gammaup3", "betadown3"]


def G(k):
    return dict(op="get", key=k)


def designed_histories():
    """Fixed histories aimed at every branch guard named in the property:
    guard-producing request, k filler computations, then the dependants, for
    several clean-up periods (so evictions fall between them in all
    alignments). Run first in every tier (DESIGN 2.8)."""
    from harness import cases
    W = cases.generic_W(4)
    base = dict(spec=W["spec"], t=0.3, N=[6, 7, 6],
                h=[x / 4 for x in W["h"]], x0=[-0.25, -0.3125, -0.28125],
                order=4, boundary="no boundary", Lambda=0.2, vacuum=False,
                matter="Tdown4", form="components", omit=[],
                tetrad="quasi-Kinnersley", mem_gb=4, lmax=2,
                extra_inputs=[], freeze="freeze_data", readonly=False)
    base["N"] = [9, 10, 9]
    pp = cases.generic_PP(2)
    cfg_pp = dict(base, spec=pp["spec"], Lambda=0.0, matter="none",
                  omit=["betax", "betaz", "dtbetax", "dtbetaz"])
    out = []
    chains = {
        "weyl": ["st_Riemann_down4", "st_Weyl_down4", "st_Riemann_down4",
                 "Kretschmann", "Weyl_Psi", "st_Weyl_down4",
                 "eweyl_u_down4"],
        "momentum": ["Momentumx", "FILL", "Momentumy", "Momentumz_norm",
                     "Momentumdown3", "Momentumup3", "Momentumx"],
        "metric": ["gdet", "gdown4", "gdet", "gtt", "gtx", "FILL",
                   "gammadown3", "gxx", "gyz", "Kdown3", "kxy", "betaup3",
                   "betax", "dtbetaup3", "dtbetay", "gdet", "gtt"],
        "ricci": ["st_Ricci_down3", "st_Ricci_down4", "st_Ricci_down3",
                  "FILL", "s_Ricci_down3", "s_Riemann_down3",
                  "s_Ricci_down3", "s_RicciS", "st_RicciS"],
        "matter": ["rho0", "rho", "eps", "rho0", "FILL", "Ttrace", "Tdown4",
                   "Ttrace", "rho_n", "enthalpy"],
    }
    for name, chain in chains.items():
        for ce in (1, 2, 3, 5):
            for nfill in (0, 1, 2, 4):
                ops = []
                for k in chain:
                    if k == "FILL":
                        ops += [G(f) for f in FILL[:nfill]]
                    else:
                        ops.append(G(k))
                for form in ("components", "tensors"):
                    if form == "tensors" and (ce, nfill) not in ((1, 1),
                                                                 (3, 2)):
                        continue
                    out.append(dict(cfg=dict(base, clear_every=ce,
                                             form=form), ops=ops))
    # Lambda != 0 with matter given as fluid variables: T_mu_nu is computed
    # (and cached) on the way, so the Ricci tensor has two routes
    fl = cases.generic_FL(2, periodic=False)
    cfg_fl = dict(base, spec=fl["spec"], Lambda=0.25, matter="fluid",
                  N=[9, 9, 10], order=2, t=0.4)
    for ce in (30, 2):
        for first in ("Ttrace", "press_n", "Tdown4", "rho_n"):
            out.append(dict(cfg=dict(cfg_fl, clear_every=ce),
                            ops=[G(first), G("st_Ricci_down4"),
                                 G("st_RicciS"), G("Einsteindown4"),
                                 G("st_Ricci_down3"), G("Kretschmann")]))
    # matter given as fluid variables: T_mu_nu is a computed (evictable)
    # entry; the Riemann tensor stays cached while T is evicted, then the Weyl
    # tensor is requested
    for ce in (1, 2, 3, 5):
        for mid in ([], ["gammadet"], ["gammadet", "st_Riemann_uddd4"]):
            out.append(dict(cfg=dict(cfg_fl, clear_every=ce),
                            ops=[G("st_Riemann_down4"), G("Kretschmann")]
                            + [G(k) for k in mid]
                            + [G("st_Weyl_down4"), G("Weyl_Psi"),
                               G("eweyl_u_down4")]))
    tr = dict(base, extra_inputs=["tracer"])
    for ce in (1, 2, 3):
        out.append(dict(cfg=dict(tr, clear_every=ce,
                                 freeze=["freeze_data", "load_data",
                                         "hand_then_load_data"][ce - 1]),
                        ops=[G("tracer"), G("alpha")]
                        + [G(f) for f in FILL] + [G("tracer"), G("gtt"),
                                                  G("Ktrace"), G("tracer")]))
    # momentum-constraint components supplied as inputs (simulation
    # output): the vector forms are assembled from them
    mo = dict(base, extra_inputs=["momentum"])
    for ce in (30, 2):
        out.append(dict(cfg=dict(mo, clear_every=ce),
                        ops=[G("Momentumup3"), G("Momentumdown3"),
                             G("Momentumx"), G("Momentumdownx"),
                             G("Momentumx_norm"), G("Momentum_Escale")]
                        + [G(f) for f in FILL[:4]]
                        + [G("Momentumdown3"), G("Momentumup3"),
                           G("Momentumz_norm")]))
    # a supplied 4-metric: the guards "gdown4 in data" are then always true,
    # whatever was requested before
    g4 = dict(base, extra_inputs=["gdown4x"])
    for ce in (30, 2):
        for first in ("gdet", "gup4", "gtt", "gdown4"):
            out.append(dict(cfg=dict(g4, clear_every=ce),
                            ops=[G(first), G("gdet"), G("gup4"), G("gtt"),
                                 G("gtx"), G("gxx")]
                            + [G(f) for f in FILL[:3]]
                            + [G("gdet"), G("gtt"), G("gup4")]))
    # the matter-flux reconstruction after the momentum constraint
    # components were requested one by one
    for ce in (30, 3):
        out.append(dict(cfg=dict(base, clear_every=ce),
                        ops=[G("Momentumx"), G("Momentumy"), G("Momentumz"),
                             G("fluxup3_n_fromMom"), G("rho_n_fromHam"),
                             G("Momentumup3"), G("fluxup3_n_fromMom")]))
        out.append(dict(cfg=dict(base, clear_every=ce),
                        ops=[G("Hamiltonian"), G("rho_n_fromHam"),
                             G("fluxup3_n_fromMom"), G("Momentumz")]))
    sts = dict(op="helper", helper="s_to_st", ix="dd",
               field=dict(shape=[3, 3], const=None, modes=[dict(
                   A=[[0.5, 0.2, -0.3], [0.2, 0.4, 0.1], [-0.3, 0.1, 0.6]],
                   k=[0.3, 1.0, -0.7, 0.5], phi=0.3)]))
    for ce in (30,):
        out.append(dict(cfg=dict(cfg_pp, clear_every=ce),
                        ops=[G("betaup3"), sts, G("st_Weyl_down4"),
                             G("eweyl_u_down4")]))
        out.append(dict(cfg=dict(cfg_pp, clear_every=ce),
                        ops=[G("gdown4"), G("st_Riemann_down4"),
                             G("Kretschmann")]))
    for ce in (1, 4):
        out.append(dict(cfg=dict(cfg_pp, clear_every=ce),
                        ops=[G("st_Weyl_down4"), G("gdown4"), sts,
                             G("betaup3"), G("st_Weyl_down4"), sts,
                             G("Weyl_Psi")]))
        out.append(dict(cfg=dict(cfg_pp, clear_every=ce),
                        ops=[G("gdown4"), G("st_Riemann_down4"), sts,
                             G("Kretschmann")]))
    return out


def operand_histories():
    """For every catalogue key K: request K's direct operands, then K, then
    the operands again (cache hits). Any computation that writes into an
    operand it took from the cache shows as a wrong re-accessed value (C01)
    or a changed digest (C02). No eviction (period 1000). Also run on data
    with a NaN point (excised cell)."""
    base = designed_histories()[0]["cfg"]
    deps = CM.dependencies()
    out = []
    for i, k in enumerate(CM.ALL_KEYS):
        d = [x for x in sorted(deps.get(k, ())) if x != k]
        if not d:
            continue
        ops = [G(x) for x in d] + [G(k)] + [G(x) for x in d]
        cfg = dict(base, clear_every=1000,
                   form="tensors" if i % 2 else "components",
                   tetrad="fluid" if i % 3 == 0 else "quasi-Kinnersley")
        if i % 4 == 0 or k in ("Psi4_lm", "Weyl_Psi", "Weyl_invariants"):
            cfg["nan_at"] = [["kxx" if cfg["form"] == "components"
                              else "Kdown3", [4, 5, 4]]]
        out.append(dict(cfg=cfg, ops=ops))
        if k in ("Weyl_Psi", "Psi4_lm", "Weyl_invariants"):
            # the tetrad-dependent keys: both tetrad choices, finite data
            for tet in ("fluid", "quasi-Kinnersley"):
                c2 = dict(cfg, tetrad=tet, extra_inputs=["vel"])
                c2.pop("nan_at", None)
                out.append(dict(cfg=c2, ops=ops))
    return out


def subchecks(tier):
    q = tier == "quick"
    return [
        Sub("history", None, test, 96 if q else 1500, kind="machine",
            machine=factory, steps=30, shards=8 if q else 16, max_rounds=3, shrink_quick=False,
            generic=designed_histories() + operand_histories()),
        Sub("history_aggressive", None, test, 96 if q else 1500,
            kind="machine", machine=factory_aggr, steps=40,
            shards=8 if q else 16, max_rounds=3, shrink_quick=False),
    ]
