"""C02 - requests never modify user inputs or values already handed out.
DESIGN.md section 4, C02."""
from checks import c13_saveread as c13
from checks import c14_overtime as c14
from checks.c01_cache import designed_histories, operand_histories
from harness import cachemachine as CM
from harness import selftest as _st
from harness.common import Sub

PROPERTY = "C02"
RULE = ("(a) the C01 request-history state machine, with a blake2b digest of "
        "the bytes of EVERY array object supplied as input or handed out by "
        "any request/helper so far (each leaf of lists/dicts/tuples and the "
        "base arrays of views), re-verified after every step, also for arrays "
        "since evicted from the cache; inputs are made read-only in half of "
        "the histories (a write then raises inside aurel); the array "
        "attributes of the grid object are digested too, the centre of the "
        "extraction spheres, the constructor flags (vacuum / Lambda "
        "independent of the data), an extra inconsistent 4-metric and "
        "directly supplied Weyl scalars with exact zeros are drawn. Non-trivial "
        "history = at least one array handed out earlier was an operand of "
        "a later computation. (b) the C14 over_time generator and (c) the "
        "C13 save/read history generator, asserting only that the caller's "
        "per-step arrays and vars/estimates/it/param/data argument objects "
        "are unchanged (contents and lengths) after every call.")
ASSUMPTIONS = [
    "digest = blake2b of the array bytes; object identity kept by strong "
    "references held by the harness",
    "operand-of-a-later-request is classified with a dependency table probed "
    "once on default data (classification only, not part of the oracle)",
]


def selftest():
    _st.run()


def factory(stats, excluded, last, ctl):
    return CM.make_machine("digests", dict(loose_flags=True), stats, excluded,
                           last, ctl)


def factory_aggr(stats, excluded, last, ctl):
    return CM.make_machine("digests", dict(aggressive=True, loose_flags=True),
                           stats, excluded, last, ctl)


def test(case, note):
    CM.replay("digests", case, note)


class Only:
    """Forward only argument-mutation failures of another property's test."""

    def __init__(self, note, prefixes):
        self._n, self._p = note, prefixes
        self.excluded = note.excluded

    def fail(self, d, o=None):
        if any(d.startswith(p) or p in d for p in self._p):
            self._n.fail(d, o)

    def nt(self, flag=True):
        self._n.nt(flag)

    def cls(self, *a):
        self._n.cls(*a)

    def __getattr__(self, k):
        return getattr(self._n, k)


def test_over_time_args(case, note):
    c14.test_case(case, Only(note, ["args-mutated"]))


def test_saveread_args(case, note):
    c13.test_history(case, Only(note, ["mutates-"]))


def subchecks(tier):
    q = tier == "quick"
    dh = [dict(h, cfg=dict(h["cfg"], readonly=(i % 2 == 0)))
          for i, h in enumerate(designed_histories()
                                + operand_histories())]
    # the same guard chains under every combination of the constructor flags
    # (vacuum=True with and without Lambda: branch shortcuts)
    seen = set()
    for h in list(dh):
        key = tuple(o.get("key") or o.get("helper") for o in h["ops"])
        if key in seen or h["cfg"].get("clear_every") not in (30, 3):
            continue
        seen.add(key)
        for lam in (0.0, 0.25):
            dh.append(dict(h, cfg=dict(h["cfg"], vacuum=True, Lambda=lam,
                                       matter="none", readonly=False)))
    # the Weyl scalars supplied directly, with exact zeros in Psi4 / Psi1
    wp = dict(dh[0]["cfg"], extra_inputs=["weylpsi"], readonly=False)
    for ce in (30, 2):
        dh.append(dict(cfg=dict(wp, clear_every=ce), ops=[
            dict(op="get", key=k) for k in
            ("Weyl_invariants", "Weyl_Psi", "Psi4_lm", "Weyl_invariants",
             "gammadet", "Ktrace", "Weyl_Psi")]))
    # a non-default centre of the extraction spheres / horizon finder: the
    # shifted coordinates must be new arrays, not the grid object's own
    base0 = dh[0]["cfg"]
    for ce in (30, 2):
        for ctr in ([0.125, -0.25, 0.0625], [-0.0625, 0.0, 0.1875]):
            dh.append(dict(cfg=dict(base0, center=ctr, clear_every=ce,
                                    readonly=False), ops=[
                dict(op="get", key=k) for k in
                ("null_ray_exp_out", "null_ray_exp_in", "gammadet",
                 "Ktrace", "null_ray_exp_out", "Psi4_lm",
                 "null_ray_exp_in")]))
    return [
        Sub("history", None, test, 128 if q else 2500, kind="machine",
            machine=factory, steps=30, shards=8 if q else 16, max_rounds=3, shrink_quick=False,
            generic=dh),
        Sub("history_aggressive", None, test, 96 if q else 2500,
            kind="machine", machine=factory_aggr, steps=40,
            shards=8 if q else 16, max_rounds=3, shrink_quick=False),
        Sub("over_time_args", c14.case_strategy(False), test_over_time_args,
            120 if q else 3000, generic=c14.generic_cases(),
            shards=8 if q else 16, max_rounds=3, shrink_quick=False),
        Sub("saveread_args", c13.history("args_paths", 8),
            test_saveread_args, 160 if q else 5000,
            generic=c13.GENERIC["args_paths"], shards=4 if q else 8,
            max_rounds=3),
    ]
