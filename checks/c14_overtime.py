"""C14 - over_time equals independent per-step computation, correctly ordered.
DESIGN.md section 4, C14.

Two sub-checks share one generator / one test function:

* ``table`` (strict): variables from a pool whose values do not depend on the
  cache state of the AurelCore instance (no ``'x' in self.data`` guard between
  pool members), so that bit-for-bit equality with a *fresh AurelCore per
  variable per step* is the oracle, and split == one-call bit-for-bit.
* ``wide``: variables from the whole catalogue (every array-valued key).
  Here two requested variables may legitimately take different code branches
  depending on what is already cached (that is property C01's subject), so
  equality with the fresh-per-variable oracle and split == one-call are
  compared with a round-off allowance; equality with a replica that shares
  one fresh AurelCore per step (same order of requests) stays bit-for-bit.
"""
import contextlib
import hashlib
import io
import math
import warnings

import numpy as np
from hypothesis import strategies as st

import aurel
from aurel import core as _core
from harness import aurelside as A
from harness import ref4d, spacetimes
from harness.common import HarnessError, Sub

PROPERTY = "C14"
RULE = ("Hypothesis draws an exact spacetime (families W, FL, F), 1-5 "
        "distinct times in shuffled order on a tiny dyadic grid (N 6-8 per "
        "axis, fd_order 2/4, any boundary mode), the input form (component "
        "keys / tensor keys, matter as Tdown4 / fluid rho,press / none, an "
        "optional user scalar column, list or stacked-array columns), 1-2 "
        "co-monotonic temporal keys out of it/iteration/t/time, a list of "
        "vars (built-in names, custom functions from a fixed table incl. "
        "kwargs-driven, tensor- and 0-d-valued ones, grouped in dicts; "
        "already-present and invalid names), a list of estimates (27 built-in "
        "names, custom, invalid), AurelCore kwargs (Lambda, vacuum, "
        "clear_cache_every_nbr_calc, memory_threshold_inGB below the size "
        "of one step's inputs) and a split of the vars over 1-3 "
        "successive over_time calls (earlier vars optionally repeated, "
        "estimates omitted/empty/prefix/all in earlier calls, all in the "
        "last). Oracles: fresh AurelCore per step and variable; own numpy "
        "estimators; rows sorted by the temporal key with all columns "
        "permuted together; inputs preserved bit-for-bit; split == one call; "
        "arguments unchanged. Non-trivial = >= 2 steps in unsorted input "
        "order and >= 1 computed variable.")
ASSUMPTIONS = [
    "temporal values are distinct; when two temporal keys are present they "
    "are co-monotonic (the docstring only requires 'it')",
    "strict pool: no two pool members are linked by a cache-state guard "
    "('gdown4'/'s_Riemann_down3'/'st_Ricci_down4'/'st_Riemann_down4'/"
    "'Momentumx' in self.data; 'Tdown4' not in self.data, which links Ttrace "
    "to everything that lazily computes Tdown4), hence bit-for-bit equality "
    "is expected",
    "wide pool: Tdown4 is always an input (so that 'Tdown4 in self.data' "
    "guards are decided by the inputs); values may differ between cache "
    "states by round-off (C01): allowance atol = 1e-8 * max(1, max|want|) on "
    "O(1) smooth data; st_Weyl_down4 and what is built on it (two "
    "discretisations chosen by 'st_Riemann_down4' in self.data) are compared "
    "with the same-order replica only and skipped in split == one-call",
    "built-in estimators are what their names / est_functions say: numpy "
    "max, min, mean, sum, population std/var, 25/50/75th percentile with "
    "linear interpolation, the same of |a|, and the 8 corner values "
    "(x0/x1 = first/last index); own expressions, tolerance 1e-12 * scale",
    "custom functions come from a fixed table in this module (a case stores "
    "their names only)",
    "the caller's data *dict* may gain keys (the docstring says so); only "
    "arrays, vars, estimates and kwargs are required to stay unchanged",
]

S = spacetimes.strategies()
dy = A.dyadic_strategies()
TEMPORAL = ['it', 'iteration', 't', 'time']

# --------------------------------------------------------------------------
# fixed tables of custom functions (a case refers to them by name)


def _c_lin(rel):
    return 2 * rel['Ktrace'] + rel['alpha']


def _c_trace(rel):
    return rel['gxx'] + rel['gyy'] + rel['gzz']


def _c_scaled(rel):
    return rel.scale * (rel['gxx'] + rel['kyy'])


def _c_pow(rel):
    return rel['alpha'] ** rel.power


def _c_coef(rel):
    return (rel.coefficients[0] * rel['gxx'] + rel.coefficients[1]
            * rel['gyy'] + rel.coefficients[2] * rel['gzz'])


def _c_vec(rel):
    return 1.5 * rel['betadown3']


def _c_peak(rel):
    return np.max(np.abs(rel['Ktrace'] + rel['alpha']))


def _c_chain(rel):
    return rel['gammadet'] * rel['s_RicciS']


def _c_lam(rel):
    return rel['alpha'] * rel.Lambda + rel['Ktrace']


def _c_ref(rel):
    return rel['alpha']          # hands back the input array itself


CUSTOM_VARS = {
    "c_lin": (_c_lin, ()), "c_trace": (_c_trace, ()),
    "c_scaled": (_c_scaled, ("scale",)), "c_pow": (_c_pow, ("power",)),
    "c_coef": (_c_coef, ("coefficients",)), "c_vec": (_c_vec, ()),
    "c_peak": (_c_peak, ()), "c_chain": (_c_chain, ()),
    "c_lam": (_c_lam, ()), "c_ref": (_c_ref, ()),
}

# the grid of the case being evaluated (set by build_table): user estimation
# functions commonly weight by the grid's own coordinate arrays
_GRID = {}

CUSTOM_ESTS = {
    "center": lambda a: a[a.shape[0] // 2, a.shape[1] // 2, a.shape[2] // 2],
    # user functions registered under the name of a predefined estimate
    # (the user's function is the one that must be applied)
    "sum": lambda a: np.sum(a[1:-1, 1:-1, 1:-1]),
    "var": lambda a: np.var(a[::2]),
    "zmoment": lambda a: np.mean(a * _GRID["fd"].z),
    "xymoment": lambda a: np.sum(a * _GRID["fd"].x * _GRID["fd"].y),
    "corner": lambda a: a[0, 0, 0],
    "rms": lambda a: np.sqrt(np.mean(a * a)),
    "ptp": lambda a: np.max(a) - np.min(a),
}

BUILTIN_ESTS = list(aurel.time.est_functions.keys())

# strict pool: cheap; no cache-state guard links two members (see module doc)
STRICT_POOL = [
    'gammadet', 'Ktrace', 'betamag', 'A2', 's_RicciS', 'Hamiltonian',
    'psi_bssnok', 'phi_bssnok', 'dttau', 'rho_n', 'press_n',
    'Hamiltonian_Escale', 'A2_bssnok', 'gxy', 'kzz', 'betay',
    'gammaup3', 'betadown3', 'Kup3', 'Adown3', 's_Gamma_udd3',
    's_Ricci_down3', 'nup4', 'gammadown3', 'Kdown3', 'betaup3', 'alpha',
]
INVALID_VAR = 'not_a_variable'
INVALID_EST = 'not_an_estimate'

# wide pool: every catalogue key whose value is one array per step
WIDE_EXCLUDE = {'Psi4_lm', 'Weyl_invariants'}      # dicts (and slow)
WIDE_POOL = [k for k in _core.descriptions.keys() if k not in WIDE_EXCLUDE]
# st_Weyl_down4 is built from a cached st_Riemann_down4 if there is one and
# from the 3+1 electric/magnetic parts otherwise (core.py:1412): two different
# discretisations that agree to truncation error only (C01/C10's business).
# These keys are therefore compared with the same-order replica only.
WEYL_DOWNSTREAM = {'st_Weyl_down4', 'Weyl_Psi', 'eweyl_u_down4',
                   'bweyl_u_down4'}


# --------------------------------------------------------------------------
# own estimators


def _pct(a, q):
    s = np.sort(np.asarray(a, float).ravel())
    n = s.size
    pos = q / 100.0 * (n - 1)
    lo = int(math.floor(pos))
    hi = min(lo + 1, n - 1)
    return float(s[lo] + (s[hi] - s[lo]) * (pos - lo))


def _mean(a):
    return math.fsum(a.ravel().tolist()) / a.size


def _var(a):
    m = _mean(a)
    return math.fsum(((a.ravel() - m) ** 2).tolist()) / a.size


def own_estimate(name, a):
    """(value, tolerance) of the built-in estimator `name` on 3D array a."""
    a = np.asarray(a, float)
    eps12 = 1e-12
    if name.startswith('x') and len(name) == 6:
        i, j, k = (0 if name[1] == '0' else a.shape[0] - 1,
                   0 if name[3] == '0' else a.shape[1] - 1,
                   0 if name[5] == '0' else a.shape[2] - 1)
        return float(a[i, j, k]), 0.0
    if name.endswith('abs'):
        name = name[:-3]
        a = np.where(a < 0, -a, a)
    amax = float(np.sort(np.abs(a).ravel())[-1])
    if name == 'max':
        return float(np.sort(a.ravel())[-1]), 0.0
    if name == 'min':
        return float(np.sort(a.ravel())[0]), 0.0
    if name == 'mean':
        return _mean(a), eps12 * amax
    if name == 'sum':
        return math.fsum(a.ravel().tolist()), eps12 * amax * a.size
    if name == 'var':
        return _var(a), eps12 * amax * amax
    if name == 'std':
        # d sqrt(v) = dv / (2 sqrt v): absolute tolerance on the std itself
        return math.sqrt(_var(a)), 1e-10 * amax
    q = {'quartile1': 25, 'median': 50, 'quartile3': 75}[name]
    return _pct(a, q), eps12 * amax


def selftest():
    a = (np.arange(24.0).reshape(2, 3, 4) - 10.5)
    a[1, 2, 3] = -20.0
    want = dict(max=12.5 - 1.0, min=-20.0, maxabs=20.0, minabs=0.5,
                x0y0z0=-10.5, x1y1z1=-20.0, x0y0z1=-7.5, x1y0z0=1.5,
                x0y1z0=-2.5)
    for k, v in want.items():
        g, _ = own_estimate(k, a)
        if g != v:
            raise HarnessError(f"own estimator {k}: {g} != {v}")
    s = np.sort(a.ravel())
    chk = dict(mean=s.sum() / 24, sum=s.sum(), median=(s[11] + s[12]) / 2,
               quartile1=s[5] + 0.75 * (s[6] - s[5]),
               quartile3=s[17] + 0.25 * (s[18] - s[17]),
               var=((s - s.sum() / 24) ** 2).sum() / 24,
               meanabs=np.abs(s).sum() / 24)
    chk['std'] = math.sqrt(chk['var'])
    for k, v in chk.items():
        g, _ = own_estimate(k, a)
        if abs(g - v) > 1e-12 * 20:
            raise HarnessError(f"own estimator {k}: {g} != {v}")
    for k in BUILTIN_ESTS:
        own_estimate(k, a)        # every built-in name is covered
    # classification helper
    w = np.arange(12.0).reshape(3, 4)
    if _classify(w[[1, 0, 2]], w, True) != "sort:columns-not-permuted":
        raise HarnessError("classify: permutation")
    if _classify(w[[0, 0, 0]], w, True) != "leak-between-steps":
        raise HarnessError("classify: leak")
    if _classify(w + 1, w, True) is not None:
        raise HarnessError("classify: value")


# --------------------------------------------------------------------------
# building the table (pure function of the case)


def temporal_value(key, t, stride):
    if key in ('it', 'iteration'):
        return int(round((t + 1.0) * 64)) * int(stride)
    return float(t)


def build_table(case):
    """-> fd, rows (list of per-step input dicts, input order), colkeys
    (ordered column names incl. temporal), temporal keys"""
    metric = spacetimes.build(case["spec"])
    fd = A.make_fd(case["N"], case["x0"], case["h"], case["order"],
                   case["boundary"])
    _GRID["fd"] = fd
    rows = []
    for t in case["times"]:
        ex = ref4d.exact(metric, float(t), fd.x, fd.y, fd.z,
                         Lambda=float(case["kw"].get("Lambda", 0.0)))
        matter = case["matter"]
        d = A.inputs_from_exact(
            ex, case["form"], "Tdown4" if matter == "Tdown4" else "none",
            omit=tuple(case.get("omit", ())))
        if matter == "fluid":
            d['rho'] = ex["Tdown"][0, 0] / ex["alpha"] ** 2
            d['press'] = ex["Tdown"][1, 1] / ex["gamma"][0, 0]
        if case.get("extra"):
            d['userfield'] = (np.cos(3.0 * t + fd.x) * np.sin(fd.y - 2.0 * t)
                              + 0.25 * fd.z * t)
        for k in d:
            d[k] = np.ascontiguousarray(d[k], dtype=float)
        rows.append(d)
    phys = list(rows[0].keys())
    tk = list(case["tkeys"])
    cols = tk + phys if case.get("tpos", "first") == "first" else phys + tk
    for r, t in zip(rows, case["times"]):
        for k in tk:
            r[k] = temporal_value(k, t, case.get("stride", 1))
    return fd, rows, cols, tk


def make_table(rows, cols, container):
    table = {}
    for k in cols:
        col = [np.array(r[k], copy=True) if isinstance(r[k], np.ndarray)
               else r[k] for r in rows]
        table[k] = np.array(col) if container == "array" else col
    return table


def py_vars(entries):
    out = []
    for e in entries:
        if isinstance(e, str):
            out.append(e)
        else:
            out.append({n: CUSTOM_VARS[n][0] for n in e})
    return out


def py_ests(entries):
    out = []
    for e in entries:
        if isinstance(e, str):
            out.append(e)
        else:
            out.append({n: CUSTOM_ESTS[n] for n in e})
    return out


def _dig(a):
    a = np.ascontiguousarray(a)
    return hashlib.blake2b(a.tobytes(), digest_size=8).hexdigest() \
        + str(a.shape) + str(a.dtype)


def snapshot(table, vars_, ests, kw):
    cols = {}
    for k, col in table.items():
        if isinstance(col, np.ndarray):
            cols[k] = ("array", _dig(col))
        else:
            cols[k] = ("list", [(id(x), _dig(x)) for x in col])
    sv = None if vars_ is None else \
        [v if isinstance(v, str) else [(n, id(f)) for n, f in v.items()]
         for v in vars_]
    se = None if ests is None else \
        [v if isinstance(v, str) else [(n, id(f)) for n, f in v.items()]
         for v in ests]
    return dict(cols=cols, vars=sv, ests=se, kw=repr(sorted(kw.items())))


def diff_snapshot(before, after, note, tag):
    for k, v in before["cols"].items():
        if after["cols"].get(k) != v:
            note.fail("args-mutated:data-array", dict(call=tag, column=k))
            break
    if before["vars"] != after["vars"]:
        note.fail("args-mutated:vars", dict(call=tag))
    if before["ests"] != after["ests"]:
        note.fail("args-mutated:estimates", dict(call=tag))
    if before["kw"] != after["kw"]:
        note.fail("args-mutated:kwargs", dict(call=tag))


# verbosity of the over_time calls of the case being evaluated (0, 1, 2)
VERBOSE = [0]


def call_over_time(table, fd, vars_, ests, kw, note, tag):
    """Run the real over_time quietly; returns the table or None (failure
    recorded).  vars_/ests None => argument omitted."""
    kwargs = dict(kw)
    if vars_ is not None:
        kwargs["vars"] = vars_
    if ests is not None:
        kwargs["estimates"] = ests
    before = snapshot(table, vars_, ests, kw)
    buf = io.StringIO()
    try:
        with contextlib.redirect_stdout(buf), contextlib.redirect_stderr(buf):
            # verbose=True is the default of the API; output is swallowed
            out = aurel.over_time(table, fd, verbose=bool(VERBOSE[0]),
                                  veryverbose=VERBOSE[0] > 1, **kwargs)
    except RecursionError as e:
        note.fail("raises:RecursionError",
                  dict(call=tag, error=str(e)[:200], vars=_names(vars_)))
        return None
    except Exception as e:  # noqa: BLE001
        import traceback
        tb = [f for f in traceback.extract_tb(e.__traceback__)
              if '/aurel/' in f.filename]
        where = [f"{f.filename.split('/')[-1]}:{f.lineno}" for f in tb][-2:]
        fn = tb[-1].name if tb else "?"
        if isinstance(e, ValueError) and "inhomogeneous" in str(e) \
                and "dtconserved" in _names(vars_):
            # recorded finding: the one catalogue key whose value is a ragged
            # tuple (dtD, dtE, dtSdown3) cannot be stored by over_time
            note.fail("raises:dtconserved-ragged-tuple",
                      dict(call=tag, error=str(e)[:200], where=where,
                           vars=_names(vars_)))
            return None
        note.fail(f"raises:{type(e).__name__}@{fn}",
                  dict(call=tag, error=str(e)[:200], where=where,
                       vars=_names(vars_)))
        return None
    diff_snapshot(before, snapshot(table, vars_, ests, kw), note, tag)
    return out


def _names(vars_):
    out = []
    for v in vars_ or []:
        out += [v] if isinstance(v, str) else list(v.keys())
    return out


# --------------------------------------------------------------------------
# comparison helpers


def _same(a, b, strict, scale=None):
    try:
        a = np.asarray(a)
        b = np.asarray(b)
    except ValueError:      # ragged value
        return False
    if a.shape != b.shape:
        return False
    if a.dtype == object or b.dtype == object:
        return False
    if np.array_equal(a, b, equal_nan=True):
        return True
    if strict:
        return False
    with np.errstate(all='ignore'):
        sc = float(np.nanmax(np.abs(b))) if b.size else 0.0
        if scale is not None:
            sc = max(sc, scale)
        if not np.isfinite(sc):
            return False
        d = np.abs(a - b)
        d = np.where(np.isnan(a) & np.isnan(b), 0.0, d)
        return bool(np.all(d <= 1e-8 * max(1.0, sc)))


def _classify(got, want, strict):
    """got/want: arrays with leading row axis, known to differ.  Returns a
    row-level discriminator or None when the values are simply different."""
    n = len(want)
    if len(got) != n:
        return None
    chosen = []
    for r in range(n):
        if _same(got[r], want[r], strict):
            chosen.append(r)
            continue
        m = [q for q in range(n) if q != r and _same(got[r], want[q], strict)]
        if not m:
            return None
        chosen.append(m[0])
    if sorted(chosen) == list(range(n)):
        return "sort:columns-not-permuted"
    return "leak-between-steps"


def _maxdiff(a, b):
    a = np.asarray(a)
    b = np.asarray(b)
    if a.shape != b.shape or a.dtype == object or b.dtype == object:
        return None
    with np.errstate(all='ignore'):
        return float(np.nanmax(np.abs(a - b))) if a.size else 0.0


# --------------------------------------------------------------------------
# the oracle


def _copyval(out):
    """independent copy of a value as one array; None for ragged values
    (e.g. dtconserved: a list of arrays of different rank)"""
    try:
        a = np.array(out, copy=True)
    except ValueError:
        return None
    return None if a.dtype == object else a


CACHE_KW = ("clear_cache_every_nbr_calc", "memory_threshold_inGB")


def _nocache(kw):
    """the reference instances use the default cache settings (cache
    settings never change a value)"""
    return {k: v for k, v in kw.items() if k not in CACHE_KW}


def fresh_value(fd, row, name, kw):
    """value of one variable from a fresh AurelCore on this step's inputs"""
    rel = aurel.AurelCore(fd, verbose=False, **_nocache(kw))
    for k, v in row.items():
        rel.data[k] = np.array(v, copy=True) if isinstance(v, np.ndarray) \
            else v
    rel.freeze_data()
    if name in CUSTOM_VARS:
        out = CUSTOM_VARS[name][0](rel)
    else:
        out = rel[name]
    return _copyval(out)


def replica_values(fd, row, entries, kw):
    """all requested variables from ONE fresh AurelCore on this step's
    inputs, requested in over_time's order (custom first), each value copied
    as soon as it is obtained. It shares over_time's cache settings: in the
    wide pool a value may legitimately depend (at truncation level) on which
    branch the cache state selects, so the replica must evict as the step's
    own instance does."""
    rel = aurel.AurelCore(fd, verbose=False, **kw)
    for k, v in row.items():
        rel.data[k] = np.array(v, copy=True) if isinstance(v, np.ndarray) \
            else v
    rel.freeze_data()
    out = {}
    for e in entries:
        if not isinstance(e, str):
            for n in e:
                rel.data[n] = CUSTOM_VARS[n][0](rel)
                rel.var_importance[n] = 0
    for e in entries:
        for n in ([e] if isinstance(e, str) else e):
            out[n] = _copyval(rel[n])
    return out


def expected_table(case, fd, rows, cols, tk, note):
    """One-call semantics computed by the harness."""
    strict = case.get("mode", "strict") == "strict"
    kw = case["kw"]
    n = len(rows)
    tvals = [[r[k] for r in rows] for k in tk]
    perm = sorted(range(n), key=lambda i: tvals[0][i])
    for tv in tvals:
        if sorted(range(n), key=lambda i: tv[i]) != perm or \
                len(set(tv)) != n:
            raise HarnessError("temporal keys not distinct / co-monotonic")
    valid = set(_core.descriptions.keys())
    names = []
    for e in case["vars"]:
        for nm in ([e] if isinstance(e, str) else e):
            if nm in cols:
                continue                       # already present: untouched
            if isinstance(e, str) and nm not in valid:
                continue                       # invalid: skipped
            names.append(nm)
    exp = {}
    for k in cols:
        exp[k] = [rows[i][k] for i in perm]
    ragged = []
    with np.errstate(all='ignore'), warnings.catch_warnings():
        warnings.simplefilter("ignore")
        for nm in list(names):
            vals = [fresh_value(fd, {k: rows[i][k] for k in cols}, nm, kw)
                    for i in perm]
            if any(v is None for v in vals):
                ragged.append(nm)
                names.remove(nm)
            else:
                exp[nm] = vals
    rep = None
    if not strict:
        ents = []
        for e in case["vars"]:
            if isinstance(e, str):
                if e in names:
                    ents.append(e)
            else:
                g = [x for x in e if x in names]
                if g:
                    ents.append(g)
        with np.errstate(all='ignore'), warnings.catch_warnings():
            warnings.simplefilter("ignore")
            reps = [replica_values(fd, {k: rows[i][k] for k in cols}, ents,
                                   kw) for i in perm]
        rep = {nm: [r[nm] for r in reps] for nm in names}
    scal = [k for k in list(cols) + names if np.ndim(exp[k][0]) == 3]
    ests = []
    for e in case["ests"]:
        for nm in ([e] if isinstance(e, str) else e):
            if isinstance(e, str) and nm not in BUILTIN_ESTS:
                continue
            ests.append((nm, isinstance(e, str)))
    return dict(perm=perm, exp=exp, names=names, scal=scal, ests=ests,
                rep=rep, ragged=ragged)


def check_result(res, E, case, cols, note, tag):
    strict = case.get("mode", "strict") == "strict"
    exp, names, scal, ests = E["exp"], E["names"], E["scal"], E["ests"]
    n = len(E["perm"])
    want_keys = set(cols) | set(names) | {f"{s}_{e}" for s in scal
                                          for e, _ in ests}
    got_keys = set(res.keys()) - set(E["ragged"])
    if got_keys - want_keys:
        note.fail("keys:unexpected",
                  dict(call=tag, keys=sorted(got_keys - want_keys)[:6]))
    miss = want_keys - got_keys
    if miss:
        kinds = sorted({"input" if k in cols else "var" if k in names
                        else "estimate" for k in miss})
        for kd in kinds:
            note.fail(f"keys:missing-{kd}",
                      dict(call=tag, keys=sorted(miss)[:6]))

    def column(k):
        try:
            a = np.asarray(res[k])
        except Exception:  # noqa: BLE001
            return None
        return a if len(a) == n else None

    # inputs: preserved bit-for-bit, permuted with the temporal key
    for k in cols:
        if k not in res:
            continue
        got = column(k)
        want = np.array(exp[k])
        if got is None:
            note.fail("input:shape", dict(call=tag, column=k))
            continue
        if not _same(got, want, True):
            d = _classify(got, want, True) or (
                "sort:temporal-key" if k in TEMPORAL else "input:changed")
            note.fail(d, dict(call=tag, column=k, got=_brief(got),
                              want=_brief(want)))
    # computed variables
    for nm in names:
        if nm not in res:
            continue
        got = column(nm)
        want = np.array(exp[nm])
        kind = f"custom:{nm}" if nm in CUSTOM_VARS else nm
        if got is None or got.shape != want.shape:
            note.fail(f"shape:{kind}", dict(
                call=tag, got=None if got is None else list(got.shape),
                want=list(want.shape)))
            continue
        if strict:
            if not _same(got, want, True):
                d = _classify(got, want, True) or f"value:{kind}"
                note.fail(d, dict(call=tag, var=nm,
                                  maxdiff=_maxdiff(got, want),
                                  oracle="fresh-per-variable"))
        elif nm in WEYL_DOWNSTREAM and tag != "one-call":
            note.cls("weyl-downstream-in-split(shape only)")
        else:
            wrep = np.array(E["rep"][nm])
            if tag != "one-call":
                pass        # the replica shares the one-call request order
            elif not _same(got, wrep, True):
                if _same(got, wrep, False):
                    note.cls("roundoff-vs-replica")
                else:
                    d = _classify(got, wrep, False) or f"value:{kind}"
                    note.fail(d, dict(call=tag, var=nm,
                                      maxdiff=_maxdiff(got, wrep),
                                      oracle="replica"))
            if nm in WEYL_DOWNSTREAM:
                pass
            elif not _same(got, want, False):
                d = _classify(got, want, False) or f"value:{kind}"
                note.fail(d, dict(call=tag, var=nm,
                                  maxdiff=_maxdiff(got, want),
                                  oracle="fresh-per-variable"))
            elif not _same(got, want, True):
                note.cls("roundoff-vs-fresh")
    # estimates
    for s in scal:
        if s not in res:
            continue
        base = column(s)
        if base is None or base.ndim != 4:
            continue
        for e, builtin in ests:
            key = f"{s}_{e}"
            if key not in res:
                continue
            got = column(key)
            if got is None or got.shape != (n,):
                note.fail(f"estimate-shape:{e}", dict(
                    call=tag, key=key,
                    got=None if got is None else list(got.shape)))
                continue
            bad = []
            wants = []
            for r in range(n):
                # the estimator applied to the corresponding stored 3D array
                if builtin:
                    w, tol = own_estimate(e, base[r])
                    # (+1e-300: subnormal values carry fewer digits)
                    ok = abs(float(got[r]) - w) <= tol + 1e-300
                else:
                    w = CUSTOM_ESTS[e](base[r])
                    ok = bool(np.array_equal(got[r], w, equal_nan=True))
                wants.append(float(w))
                if not ok:
                    bad.append(r)
            if bad:
                d = None
                wv = np.array(wants, float)
                sep = min([abs(a - b) for i, a in enumerate(wv)
                           for b in wv[i + 1:]] or [0.0])
                if n > 1 and sep > 1e-6 * max(1.0, float(np.max(np.abs(wv)))):
                    d = _classify(np.asarray(got, float).reshape(n, 1),
                                  wv.reshape(n, 1), False)
                note.fail(d or (f"estimate:{e}" if builtin
                                else f"estimate:custom:{e}"),
                          dict(call=tag, key=key, rows=bad,
                               got=[float(x) for x in got], want=wants))


def _brief(a):
    a = np.asarray(a)
    if a.ndim == 1 and a.size <= 6:
        return a.tolist()
    return dict(shape=list(a.shape))


def compare_tables(one, fin, case, note, ragged=()):
    strict = case.get("mode", "strict") == "strict"
    ko, kf = set(one.keys()) - set(ragged), set(fin.keys()) - set(ragged)
    if ko != kf:
        note.fail("split:keys", dict(only_one_call=sorted(ko - kf)[:6],
                                     only_split=sorted(kf - ko)[:6]))
    bad = []
    for k in sorted(ko & kf):
        if not strict and k in WEYL_DOWNSTREAM:
            continue
        if not _same(fin[k], one[k], strict):
            bad.append(k)
    if bad:
        # estimate columns of a differing variable are the same root cause
        prim = [k for k in bad
                if not any(k != b and k.startswith(b + "_") for b in bad)]
        k = prim[0]
        d = _classify(np.asarray(fin[k]), np.asarray(one[k]), strict) \
            if np.asarray(fin[k]).shape == np.asarray(one[k]).shape else None
        note.fail("split:differs" if d is None else "split:" + d,
                  dict(keys=bad[:8], first=k,
                       maxdiff=_maxdiff(fin[k], one[k])))


# --------------------------------------------------------------------------
# the test


def call_args(case, k):
    """python vars / estimates for call k of the split"""
    calls = case["calls"]
    pos = 0
    for c in calls[:k]:
        pos += c["n"]
    c = calls[k]
    last = k == len(calls) - 1
    n = c["n"] if not last else len(case["vars"]) - pos
    ents = list(case["vars"][pos:pos + n])
    if c.get("repeat"):
        ents = list(case["vars"][:pos]) + ents
    if not ents and c.get("vars_kw") == "omit":
        vars_ = None
    else:
        vars_ = py_vars(ents)
    em = "all" if last else c.get("est", "omit")
    if em == "omit":
        ests = None
    elif em == "empty":
        ests = []
    elif em == "all":
        ests = py_ests(case["ests"])
    else:
        ests = py_ests(case["ests"][:int(em)])
    return vars_, ests


def test_case(case, note):
    VERBOSE[0] = int(case.get("verbose", 0))
    if VERBOSE[0]:
        note.cls("verbose=%d" % VERBOSE[0])
    fd, rows, cols, tk = build_table(case)
    n = len(rows)
    kw = dict(case["kw"])
    tv = [r[tk[0]] for r in rows]
    unsorted_ = any(tv[i] > tv[i + 1] for i in range(n - 1))
    E = expected_table(case, fd, rows, cols, tk, note)
    names = E["names"]
    note.nt(n >= 2 and unsorted_ and len(names) >= 1)
    flat = [(nm, isinstance(e, str)) for e in case["vars"]
            for nm in ([e] if isinstance(e, str) else e)]
    nb = sum(1 for nm, b in flat if b)
    nc = sum(1 for nm, b in flat if not b)
    eb = sum(1 for e in case["ests"] if isinstance(e, str))
    ec = sum(1 for e in case["ests"] if not isinstance(e, str))
    note.cls(case["spec"]["family"], case["form"], case["container"],
             f"steps={n}", "unsorted" if unsorted_ else "sorted",
             "tkeys=" + "+".join(tk), f"calls={len(case['calls'])}",
             "vars=" + ("none" if not flat else "builtin" if not nc else
                        "custom" if not nb else "mixed"),
             "ests=" + ("none" if not case["ests"] else "builtin" if not ec
                        else "custom" if not eb else "mixed"),
             f"matter={case['matter']}", f"p={case['order']}",
             case["boundary"], f"mode={case.get('mode', 'strict')}")
    if any(nm in cols for nm, _ in flat):
        note.cls("var-already-input")
    if any(b and nm not in _core.descriptions for nm, b in flat):
        note.cls("invalid-var-name")
    if any(isinstance(e, str) and e not in BUILTIN_ESTS
           for e in case["ests"]):
        note.cls("invalid-est-name")
    if any(isinstance(e, list) and len(e) > 1 for e in case["vars"]):
        note.cls("custom-dict-of-2")
    for k in ("Lambda", "vacuum", "clear_cache_every_nbr_calc",
              "memory_threshold_inGB"):
        if kw.get(k):
            note.cls("kw:" + k)
    if any(c.get("repeat") for c in case["calls"][1:]):
        note.cls("repeat-earlier-vars")
    for c in case["calls"][:-1]:
        note.cls("early-est=" + ("prefix" if isinstance(c.get("est"), int)
                                 else str(c.get("est", "omit"))))

    # ---- one call
    t_one = make_table(rows, cols, case["container"])
    one = call_over_time(t_one, fd, py_vars(case["vars"]),
                         py_ests(case["ests"]), kw, note, "one-call")
    if one is not None:
        if one is t_one:
            if names or (E["ests"] and E["scal"]):
                note.fail("returns-input-unchanged", dict(call="one-call"))
        else:
            check_result(one, E, case, cols, note, "one-call")

    # ---- split into successive calls
    if len(case["calls"]) > 1:
        cur = make_table(rows, cols, case["container"])
        first = cur
        for k in range(len(case["calls"])):
            vars_, ests = call_args(case, k)
            cur = call_over_time(cur, fd, vars_, ests, kw, note,
                                 f"split#{k + 1}")
            if cur is None:
                break
        if cur is not None and cur is not first:
            check_result(cur, E, case, cols, note, "split")
            if one is not None and one is not t_one:
                compare_tables(one, cur, case, note, E["ragged"])
        elif cur is first and (names or (E["ests"] and E["scal"])):
            note.fail("returns-input-unchanged", dict(call="split"))


# --------------------------------------------------------------------------
# strategies


def _group(draw, names, table):
    """turn a list of names into entries: built-ins stay strings, runs of
    custom names are grouped into dict entries of 1-2 names"""
    out = []
    i = 0
    while i < len(names):
        nm = names[i]
        if nm in table and nm in BUILTIN_ESTS and table is CUSTOM_ESTS \
                and draw(st.booleans()):
            out.append(nm)          # the predefined estimate of that name
            i += 1
            continue
        if nm in table:
            if i + 1 < len(names) and names[i + 1] in table and \
                    draw(st.booleans()):
                out.append([nm, names[i + 1]])
                i += 2
                continue
            out.append([nm])
        else:
            out.append(nm)
        i += 1
    return out


@st.composite
def case_strategy(draw, wide=False):
    fam = draw(st.sampled_from(["W", "W", "W", "FL", "F"]
                               if not wide else ["W", "W", "F"]))
    order = draw(st.sampled_from([2, 4]))
    boundary = draw(st.sampled_from(["no boundary", "no boundary",
                                     "periodic", "symmetric"]))
    N = [draw(st.integers(6, 8 if not wide else 7)) for _ in range(3)]
    h = [draw(dy(0.125, 0.375)) for _ in range(3)]
    x0 = [draw(dy(-1.0, 0.0, 64)) for _ in range(3)]
    if fam == "W":
        spec = draw(S["wavy"](kmax=1.2, nmodes=(1, 2)))
        matter = draw(st.sampled_from(["Tdown4", "Tdown4", "none"]
                                      if not wide else ["Tdown4"]))
    elif fam == "FL":
        spec = draw(S["fl"]())
        matter = draw(st.sampled_from(["fluid", "fluid", "Tdown4"]))
    else:
        spec = draw(S["flat"](kmax=1.2))
        matter = draw(st.sampled_from(["none", "none", "Tdown4"]
                                      if not wide else ["Tdown4"]))
    nsteps = draw(st.sampled_from([1, 2, 3, 3, 4, 5]))
    ts = sorted(draw(st.lists(st.integers(-64, 64), min_size=nsteps,
                              max_size=nsteps, unique=True)))
    perm = draw(st.permutations(list(range(nsteps))))
    times = [ts[i] / 64.0 for i in perm]
    tkeys = draw(st.sampled_from(
        [["it"], ["iteration"], ["t"], ["time"], ["it", "t"],
         ["iteration", "time"], ["time", "it"], ["t", "iteration"],
         ["it"], ["t"]]))
    form = draw(st.sampled_from(["components", "tensors"]))
    omit = []
    if draw(st.booleans()):
        omit = ['dtalpha'] + (['dtbetax', 'dtbetay', 'dtbetaz']
                              if form == "components" else ['dtbetaup3'])
    kw = {}
    if draw(st.booleans()):
        kw["Lambda"] = draw(S["f"](-0.5, 0.5))
    if matter == "none" and draw(st.booleans()):
        kw["vacuum"] = True
    if draw(st.integers(0, 3)) == 0:
        kw["clear_cache_every_nbr_calc"] = draw(st.sampled_from([2, 3, 7]))
    if draw(st.integers(0, 4)) == 0:
        # memory limit below the size of the step's inputs: the memory stage
        # of the clean-up runs after every calculation
        kw["memory_threshold_inGB"] = draw(st.sampled_from([1e-7, 2e-5]))

    if wide:
        pool = WIDE_POOL
        names = draw(st.lists(st.sampled_from(pool), min_size=1, max_size=5,
                              unique=True))
        vars_ = list(names)
        ests = draw(st.lists(st.sampled_from(
            ["max", "min", "mean", "x1y0z1", "center"]), max_size=2,
            unique=True))
        ests = [e if e in BUILTIN_ESTS else [e] for e in ests]
    else:
        pool = (STRICT_POOL * 2 + list(CUSTOM_VARS) * 3 + [INVALID_VAR])
        names = draw(st.lists(st.sampled_from(pool), max_size=6,
                              unique=True))
        vars_ = _group(draw, names, CUSTOM_VARS)
        epool = BUILTIN_ESTS + list(CUSTOM_ESTS) * 3 + [INVALID_EST]
        enames = draw(st.lists(st.sampled_from(epool), max_size=4,
                               unique=True))
        ests = _group(draw, enames, CUSTOM_ESTS)
        if not vars_ and not [e for e in ests if e != INVALID_EST]:
            vars_ = ["gammadet"]
        flatn = [n for e in vars_ for n in ([e] if isinstance(e, str) else e)]
        need = {a for n in flatn if n in CUSTOM_VARS
                for a in CUSTOM_VARS[n][1]}
        if "scale" in need or draw(st.integers(0, 5)) == 0:
            kw["scale"] = draw(S["f"](-3, 3))
        if "power" in need:
            kw["power"] = draw(st.integers(2, 4))
        if "coefficients" in need:
            kw["coefficients"] = [draw(st.integers(-3, 3)) for _ in range(3)]
        if "c_lam" in flatn:
            kw.setdefault("Lambda", 0.0)

    ncalls = draw(st.sampled_from([1, 2, 2, 3, 3]))
    calls = []
    left = len(vars_)
    for k in range(ncalls):
        last = k == ncalls - 1
        nk = left if last else draw(st.integers(0, left))
        left -= nk
        c = dict(n=nk, repeat=draw(st.booleans()) if k else False,
                 vars_kw=draw(st.sampled_from(["list", "omit"])))
        if not last:
            em = draw(st.sampled_from(["omit", "empty", "prefix", "all"]))
            if em == "prefix":
                em = draw(st.integers(1, len(ests))) if ests else "empty"
            c["est"] = em
        calls.append(c)
    return dict(
        mode="wide" if wide else "strict", spec=spec, N=N, h=h, x0=x0,
        order=order, boundary=boundary, form=form, matter=matter, omit=omit,
        extra=draw(st.booleans()), times=times, tkeys=tkeys,
        stride=draw(st.sampled_from([1, 2, 8, 512])),
        tpos=draw(st.sampled_from(["first", "last"])),
        container=draw(st.sampled_from(["list", "list", "array"])),
        vars=vars_, ests=ests, kw=kw, calls=calls,
        verbose=draw(st.sampled_from([0, 0, 0, 0, 1, 2])))


_WSPEC = dict(family="W", params=dict(modes=[
    dict(A=[[0.030, 0.020, -0.015, 0.018], [0.020, 0.025, 0.012, -0.016],
            [-0.015, 0.012, -0.028, 0.014], [0.018, -0.016, 0.014, 0.022]],
         k=[0.7, 0.9, -0.6, 0.8], phi=0.4),
    dict(A=[[-0.020, 0.012, 0.010, -0.011], [0.012, 0.015, 0.020, 0.009],
            [0.010, 0.020, 0.018, -0.010], [-0.011, 0.009, -0.010, 0.03]],
         k=[-0.5, 0.3, 1.0, -0.7], phi=2.0)]))
_FLSPEC = dict(family="FL", params=dict(N=[0.25, 1.1, 0.6],
                                        a=[1.1, 0.2, 0.05, 1.3]))
_FSPEC = dict(family="F", params=dict(modes=[
    dict(c=[0.03, -0.025, 0.02, 0.035], k=[0.8, -0.6, 0.9, 0.5], phi=1.0)]))


def generic_cases():
    """Fixed fully generic cases (DESIGN 2.8): >= 3 steps in unsorted order,
    mixed vars and estimates, kwargs, 3 successive calls."""
    base = dict(mode="strict", N=[7, 6, 8], h=[0.1875, 0.25, 0.125],
                x0=[-0.5, -0.75, -0.25], extra=True, stride=8,
                tpos="first", omit=[])
    g1 = dict(base, spec=_WSPEC, order=4, boundary="no boundary",
              form="components", matter="Tdown4", container="list",
              times=[0.5, -0.25, 0.875, 0.125], tkeys=["it", "t"],
              vars=["gammadet", ["c_lin", "c_scaled"], "Ktrace", "s_RicciS",
                    ["c_vec"], "Hamiltonian", "betadown3", ["c_peak"],
                    "gxx"],
              ests=["max", ["center"], "median", "stdabs", "x0y1z1"],
              kw=dict(Lambda=0.3, scale=2.5, clear_cache_every_nbr_calc=3),
              calls=[dict(n=3, repeat=False, est=2, vars_kw="list"),
                     dict(n=3, repeat=True, est="omit", vars_kw="list"),
                     dict(n=0, repeat=True, vars_kw="list")])
    g2 = dict(base, spec=_WSPEC, order=2, boundary="periodic",
              form="tensors", matter="Tdown4", container="array",
              times=[-0.5, 0.75, 0.0], tkeys=["time"], tpos="last",
              vars=["A2", "betamag", ["c_pow"], ["c_coef", "c_chain"],
                    INVALID_VAR, "gammaup3", "kzz", ["c_ref"]],
              ests=[["rms", "ptp"], "min", "quartile1", INVALID_EST, "var"],
              kw=dict(Lambda=-0.2, power=3, coefficients=[2, -3, 1]),
              calls=[dict(n=0, repeat=False, est="all", vars_kw="omit"),
                     dict(n=4, repeat=False, est="empty", vars_kw="list"),
                     dict(n=0, repeat=False, vars_kw="list")])
    g3 = dict(base, spec=_FLSPEC, order=4, boundary="symmetric",
              form="components", matter="fluid", container="list",
              times=[0.75, 0.5, -0.5, 0.0, -0.75], tkeys=["iteration"],
              omit=["dtalpha", "dtbetax", "dtbetay", "dtbetaz"],
              vars=["rho_n", "press_n", ["c_lam"], "psi_bssnok", "Kdown3",
                    "Hamiltonian_Escale"],
              ests=["mean", "sumabs", ["corner"], "x1y0z0"],
              kw=dict(Lambda=0.1),
              calls=[dict(n=2, repeat=False, est="all", vars_kw="list"),
                     dict(n=4, repeat=True, vars_kw="list")])
    g4 = dict(base, spec=_FSPEC, order=2, boundary="no boundary",
              form="tensors", matter="none", container="list",
              times=[0.25, -0.125], tkeys=["t", "iteration"],
              vars=["Hamiltonian", "s_Ricci_down3", ["c_trace"], "dttau",
                    "A2_bssnok"],
              ests=["maxabs", "quartile3abs", "medianabs"],
              kw=dict(vacuum=True),
              calls=[dict(n=5, repeat=False, est="empty", vars_kw="list"),
                     dict(n=0, repeat=False, vars_kw="omit")])
    # a custom estimate applied in the first call, new scalars added without
    # estimates, then an estimates-only call (no vars at all / vars omitted):
    # the custom estimate is present for some scalars and missing for others
    g5 = dict(g1, vars=["gammadet", ["c_lin"], "Ktrace", "s_RicciS", "A2",
                        "betamag"],
              ests=[["center"], "max", ["rms"], "median"],
              calls=[dict(n=3, repeat=False, est=2, vars_kw="list"),
                     dict(n=3, repeat=False, est="omit", vars_kw="list"),
                     dict(n=0, repeat=False, vars_kw="list")])
    g6 = dict(g5, container="array", tkeys=["t"],
              calls=[dict(n=2, repeat=False, est=1, vars_kw="list"),
                     dict(n=4, repeat=False, est="empty", vars_kw="list"),
                     dict(n=0, repeat=False, vars_kw="omit")])
    # user estimators registered under predefined names
    g7 = dict(g5, ests=[["sum"], "max", ["var", "center"], "mean"],
              calls=[dict(n=3, repeat=False, est="all", vars_kw="list"),
                     dict(n=3, repeat=False, vars_kw="list")])
    return [g1, g2, g3, g4, g5, g6, g7]


def generic_wide():
    base = dict(mode="wide", N=[6, 7, 6], h=[0.1875, 0.25, 0.125],
                x0=[-0.5, -0.75, -0.25], extra=False, stride=2,
                tpos="first", omit=[], spec=_WSPEC, order=4,
                boundary="no boundary", matter="Tdown4", container="list",
                times=[0.5, -0.25, 0.125], tkeys=["it"], form="components")
    w1 = dict(base, vars=["st_Riemann_down4", "Kretschmann", "st_Weyl_down4",
                          "eweyl_n_down3"],
              ests=["max"], kw=dict(Lambda=0.2),
              calls=[dict(n=2, repeat=False, est="omit", vars_kw="list"),
                     dict(n=2, repeat=True, vars_kw="list")])
    w2 = dict(base, form="tensors",
              vars=["Momentumx", "Hamiltonian_norm", "Momentumy",
                    "Momentumdown3", "Momentumz_norm"],
              ests=["min", ["center"]], kw=dict(),
              calls=[dict(n=2, repeat=False, est="all", vars_kw="list"),
                     dict(n=3, repeat=False, vars_kw="list")])
    w3 = dict(base, vars=["gdown4", "gdet", "gtt", "st_Ricci_down4",
                          "st_Ricci_down3", "s_Riemann_down3",
                          "s_Ricci_down3", "Weyl_Psi", "theta", "shear2"],
              ests=["mean"], kw=dict(Lambda=-0.1),
              calls=[dict(n=4, repeat=False, est="omit", vars_kw="list"),
                     dict(n=3, repeat=False, est="all", vars_kw="list"),
                     dict(n=3, repeat=True, vars_kw="list")])
    w4 = dict(base, vars=["conserved_D", "dtconserved", "rho_n"],
              ests=[], kw=dict(),
              calls=[dict(n=3, repeat=False, vars_kw="list")])
    return [w1, w2, w3, w4]


# --------------------------------------------------------------------------
# sub-check "override": custom variables that redefine catalogue names on
# which requested built-ins depend, in any list order and any split; and
# columns whose per-step values mix Python ints and floats


def _o_rho0(rel):
    return 1.0 + 0.1 * rel['alpha']


def _o_press(rel):
    return 0.2 * rel['gammadet']


def _o_eps(rel):
    return 0.05 * rel['alpha'] ** 2


OVERRIDES = {"rho0": _o_rho0, "press": _o_press, "eps": _o_eps}
DEPENDANTS = ["enthalpy", "rho", "conserved_D", "conserved_E"]


def _est_count(a):
    # an integer-valued estimate: Python int at some steps, float at others
    v = float(np.max(a))
    return int(round(v)) if abs(v - round(v)) < 0.25 else v


@st.composite
def override_case(draw):
    base = draw(case_strategy(False))
    over = draw(st.lists(st.sampled_from(sorted(OVERRIDES)), min_size=1,
                         max_size=3, unique=True))
    deps = draw(st.lists(st.sampled_from(DEPENDANTS), min_size=1, max_size=3,
                         unique=True))
    items = [("c", o) for o in over] + [("b", d) for d in deps]
    perm = draw(st.permutations(list(range(len(items)))))
    return dict(base=base, items=[list(items[i]) for i in perm],
                cut=draw(st.integers(0, len(items))),
                mixed_t=draw(st.booleans()))


def test_override(case, note):
    base = dict(case["base"], matter="Tdown4" if case["base"]["matter"]
                == "fluid" else case["base"]["matter"])
    fd, rows, cols, tk = build_table(base)
    if case["mixed_t"] and any(k in ("t", "time") for k in tk):
        # integer-valued times given as Python ints among floats
        for r in rows:
            for k in tk:
                if k in ("t", "time"):
                    v = round(float(r[k]) * 2) / 2 + 1.0
                    r[k] = int(v) if float(v).is_integer() else v
        tv = [r[[k for k in tk if k in ("t", "time")][0]] for r in rows]
        if len(set(tv)) != len(tv):
            return
        for k in tk:
            if k in ("it", "iteration"):
                for r in rows:
                    r[k] = int(round(r[[q for q in tk
                                        if q in ("t", "time")][0]] * 64))
        note.cls("mixed-int-float-times")
    kw = dict(base["kw"])
    items = [tuple(i) for i in case["items"]]

    def vars_of(sub):
        out = []
        for kind, nm in sub:
            out.append({nm: OVERRIDES[nm]} if kind == "c" else nm)
        return out
    ests = [{"count": _est_count}, "max"]
    note.nt(len(rows) >= 2)
    note.cls("override", f"cut={case['cut']}/{len(items)}")
    t1 = make_table(rows, cols, "list")
    one = call_over_time(t1, fd, vars_of(items), ests, kw, note, "one-call")
    # reference semantics: customs first, then built-ins, one fresh core per
    # step (what "a fresh calculation on that step's inputs" means when the
    # request redefines an input of another requested variable)
    order = sorted(range(len(rows)), key=lambda i: rows[i][tk[0]])
    want = {nm: [] for _, nm in items}
    for i in order:
        rel = aurel.AurelCore(fd, verbose=False, **kw)
        for k in cols:
            if k not in tk:
                rel.data[k] = np.array(rows[i][k], copy=True)
        rel.freeze_data()
        for kind, nm in items:
            if kind == "c":
                rel.data[nm] = OVERRIDES[nm](rel)
                rel.var_importance[nm] = 0      # as a user-defined input
        for kind, nm in items:
            want[nm].append(np.array(rel[nm], copy=True))
    if one is not None:
        for kind, nm in items:
            if nm not in one:
                note.fail("override:missing-column", dict(name=nm))
                continue
            for j in range(len(rows)):
                if not np.array_equal(np.asarray(one[nm][j]), want[nm][j]):
                    note.fail("override:dependant-ignores-custom"
                              if kind == "b" else "override:custom-value",
                              dict(name=nm, step=j, order=[n for _, n in
                                                           items]))
                    break
        # input columns preserved, including mixed int/float temporal values
        for k in tk:
            got = [float(v) for v in np.asarray(one[k]).tolist()]
            exp = sorted(float(r[k]) for r in rows)
            if got != exp:
                note.fail("override:temporal-column-changed",
                          dict(key=k, got=got, want=exp))
        for nm in [n for _, n in items] + [c for c in cols if c not in tk]:
            if nm in one and np.ndim(np.asarray(one[nm][0])) == 3:
                key = nm + "_count"
                if key not in one:
                    note.fail("override:estimate-missing", dict(key=key))
                    continue
                got = [float(v) for v in np.asarray(one[key]).tolist()]
                exp = [float(_est_count(np.asarray(one[nm][j])))
                       for j in range(len(rows))]
                if got != exp:
                    note.fail("estimate:custom-mixed-int-float",
                              dict(key=key, got=got[:4], want=exp[:4]))
    # a split gives the same final table. Only splits in which every
    # redefinition precedes the built-ins that depend on it are compared: a
    # built-in computed in an earlier call cannot know a later redefinition
    cust = [i for i in items if i[0] == "c"]
    blt = [i for i in items if i[0] == "b"]
    cut = min(case["cut"], len(blt))
    t2 = make_table(rows, cols, "list")
    first = call_over_time(t2, fd, vars_of(cust + blt[:cut]), [], kw, note,
                           "split-1")
    if first is not None and one is not None:
        fin = call_over_time(first, fd, vars_of(blt[cut:]), ests, kw, note,
                             "split-2")
        if fin is not None:
            for kind, nm in items:
                if nm in fin and nm in one and not all(
                        np.array_equal(np.asarray(a), np.asarray(b))
                        for a, b in zip(fin[nm], one[nm])):
                    note.fail("override:split-differs",
                              dict(name=nm, cut=cut,
                                   order=[n for _, n in items]))


def subchecks(tier):
    q = tier == "quick"
    return [
        Sub("table", case_strategy(False), test_case, 400 if q else 5000,
            generic=generic_cases(), shards=8 if q else 16, max_rounds=3),
        Sub("override", override_case(), test_override, 60 if q else 1500,
            shards=8 if q else 16, max_rounds=3, shrink_quick=False),
        Sub("wide", case_strategy(True), test_case, 40 if q else 1200,
            generic=generic_wide(), shards=8 if q else 16, max_rounds=3,
            shrink_quick=False),
    ]
