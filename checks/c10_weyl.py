"""C10 - Weyl tensor, electric/magnetic parts, scalars and invariants.
DESIGN.md section 4, C10."""
import numpy as np
from hypothesis import strategies as st

from harness import aurelside as A
from harness import cases, ref4d, spacetimes
from harness import selftest as _st
from harness.common import Sub

PROPERTY = "C10"
RULE = ("Hypothesis draws exact non-vacuum (W) and vacuum (KS, PP, F) "
        "spacetimes with any lapse/shift, grid, order, boundary, vacuum flag "
        "consistent with the data, tetrad choice and (for the invariance "
        "sub-check) two different fluid velocity fields, Einstein's constant "
        "(8 pi, 1, 2.5), KS also with the box inside the horizon; aurel at "
        "two resolutions (a convergence failure is re-examined on the next "
        "finer pair and reported only if it persists). Oracles: exact Weyl / E / B from the 4D reference in "
        "both cache states, algebraic symmetries, tetrad orthonormality, "
        "16 Re(I) = Kretschmann and the Petrov-type relations on vacuum "
        "data, invariance of I and J between orthonormal tetrads. "
        "Non-trivial = Ricci != 0 (W) or Weyl != 0 (KS, PP), >= 1 non-zero "
        "shift component.")
ASSUMPTIONS = [
    "convergent regime; no-boundary errors measured after trimming "
    "3*mask_len coarse points per side",
    "magnetic part uses aurel's own contraction convention "
    "B_ae = 1/2 u^b u^f C_abcd eps^{cd}_{ef}, eps_0123 = +sqrt(-g)",
    "quasi-Kinnersley frame: only its spatial triad is asserted orthonormal "
    "(w.r.t. gamma, away from the polar axis); invariance of I, J involving "
    "it only on data with alpha = 1, beta = 0",
    "scalars: only convention-independent combinations are asserted "
    "(I, J, type relations, 16 Re I = Kretschmann in vacuum)",
]


def selftest():
    _st.run()


KW = dict(clear_cache_every_nbr_calc=10**6)


@st.composite
def weyl_case(draw):
    c = draw(cases.spacetime_case(
        kinds=("Wp", "Wp", "Wp", "Wn", "KS", "PP", "F", "Wt0", "KSin"),
        orders_p=(2, 4, 4, 6), orders_n=(2, 4), np_range=(10, 12)))
    fam = c["spec"]["family"]
    c["form"] = draw(st.sampled_from(["components", "tensors"]))
    c["Lambda"] = 0.0
    if fam in spacetimes.VACUUM:
        m = draw(st.sampled_from(["vacuum", "none", "Tdown4"]))
        c["vacuum"] = m == "vacuum"
        c["matter"] = "none" if m == "vacuum" else m
    else:
        c["vacuum"] = False
        c["matter"] = "Tdown4"
        if draw(st.booleans()):
            c["Lambda"] = draw(cases.f(-0.3, 0.3))
    c["kw"] = dict(KW)
    return c


def _sym_defects(C, gup):
    return dict(
        antisym12=C + np.einsum('abcd...->bacd...', C),
        antisym34=C + np.einsum('abcd...->abdc...', C),
        pairsym=C - np.einsum('abcd...->cdab...', C),
        bianchi=(C + np.einsum('abcd...->acdb...', C)
                 + np.einsum('abcd...->adbc...', C)),
        tracefree=np.einsum('ac...,abcd...->bd...', gup, C))


def _eb_from(C, u, g, gup, gdet):
    E = np.einsum('b...,d...,abcd...->ac...', u, u, C)
    eps = ref4d.levi_civita_symbol(4).reshape((4,) * 4 + (1,) * (g.ndim - 2)) \
        * np.sqrt(-gdet)
    eps_uudd = np.einsum('ac...,bd...,abef...->cdef...', gup, gup, eps)
    B = 0.5 * np.einsum('b...,f...,abcd...,cdef...->ae...', u, u, C,
                        eps_uudd)
    return E, B


class Conv:
    def __init__(self, note, p, h2, tr1, tr2):
        self.note, self.p, self.h2 = note, p, h2
        self.tr1, self.tr2 = tr1, tr2
        self.mg = []

    def __call__(self, key, a1, a2, r1, r2, scale, nd=2, rel=0.0):
        scale = max(scale, 1e-2)
        floor = 1e-9 * scale * max(1.0, (0.1 / self.h2) ** nd)
        if rel:
            # differences of two converging numerical values (invariance
            # checks): their errors partly cancel, so the observed order of
            # the difference is erratic once it is tiny relative to the
            # quantity itself; agreement to `rel` of its magnitude passes
            floor = max(floor, rel * float(np.max(np.abs(r2))))
        e1, e2 = A.err(a1, r1, self.tr1), A.err(a2, r2, self.tr2)
        ok, q = A.order_ok(e1, e2, self.p, floor)
        if np.isfinite(q):
            self.mg.append(q - (self.p - max(1.5, 0.3 * self.p)))
        if not ok:
            self.note.fail(key, dict(e1=e1, e2=e2, q=q, scale=scale,
                                     floor=floor))

    def done(self):
        if self.mg:
            mm = min(self.mg)
            self.note.cls("qmargin<0.3" if mm < 0.3 else
                          "qmargin<0.75" if mm < 0.75 else "qmargin>=0.75")


def _classes(note, case, ex):
    fl = cases.nontrivial_flags(ex)
    fam = case["spec"]["family"]
    ric = float(np.max(np.abs(ex["Ric"])))
    wey = float(np.max(np.abs(ex["Weyl"])))
    note.nt((ric > 1e-6 or wey > 1e-6) and fl["nshift"] >= 1)
    note.cls(fam, case["boundary"], f"p={case['order']}",
             f"mask={case.get('mask')}", f"nshift={fl['nshift']}",
             f"vac={case['vacuum']}", f"matter={case['matter']}",
             "Ricci!=0" if ric > 1e-6 else "Ricci=0",
             *A.extra_classes(case, ex))


def test_weyl(case, note):
    su = A.Setup(case)
    p = su.order
    res = []
    for lvl in (0, 1):
        out = {}
        # state A: Riemann cached first -> Riemann-based branch
        relA, ex, fd, trim = su.build(lvl)
        Rbefore = relA["st_Riemann_down4"]
        Rcopy = Rbefore.copy()
        out["weyl:riemann-branch"] = relA["st_Weyl_down4"]
        out["riemann-after"] = relA["st_Riemann_down4"]
        out["riemann-before-copy"] = Rcopy
        out["riemann-before-obj"] = Rbefore
        # state B: fresh -> E/B branch
        relB, _, _, _ = su.build(lvl)
        out["weyl:eb-branch"] = relB["st_Weyl_down4"]
        for k in ("eweyl_n_down3", "bweyl_n_down3", "eweyl_u_down4",
                  "bweyl_u_down4", "uup4", "gdown4", "gup4", "gdet"):
            out[k] = relB[k]
        res.append((out, ex, fd, trim))
    (o1, ex1, fd1, tr1), (o2, ex2, fd2, tr2) = res
    _classes(note, case, ex1)
    h2 = min(fd2.dx, fd2.dy, fd2.dz)
    S2 = A.natural_scale(ex2)
    cv = Conv(note, p, h2, tr1, tr2)
    # in-place damage (also C02): the cached Riemann must be untouched
    for o in (o1, o2):
        if not np.array_equal(o["riemann-before-copy"], o["riemann-after"]) \
                or not np.array_equal(o["riemann-before-copy"],
                                      o["riemann-before-obj"]):
            note.fail("riemann-modified-by-weyl", dict(
                maxchange=float(np.max(np.abs(o["riemann-before-copy"]
                                              - o["riemann-after"])))))
    for br in ("weyl:riemann-branch", "weyl:eb-branch"):
        cv(br, o1[br], o2[br], ex1["Weyl"], ex2["Weyl"], S2)
        d1 = _sym_defects(o1[br], ex1["gup"])
        d2 = _sym_defects(o2[br], ex2["gup"])
        for nm in d1:
            cv(f"{br}:{nm}", d1[nm], d2[nm], 0 * d1[nm], 0 * d2[nm], S2)
    cv("weyl:branches-agree", o1["weyl:riemann-branch"],
       o2["weyl:riemann-branch"], o1["weyl:eb-branch"], o2["weyl:eb-branch"],
       S2)
    s3 = (slice(1, 4), slice(1, 4))
    cv("eweyl_n_down3", o1["eweyl_n_down3"], o2["eweyl_n_down3"],
       ex1["E_n"][s3], ex2["E_n"][s3], S2)
    cv("bweyl_n_down3", o1["bweyl_n_down3"], o2["bweyl_n_down3"],
       ex1["B_n"][s3], ex2["B_n"][s3], S2)
    for k in ("eweyl_n_down3", "bweyl_n_down3"):
        a1, a2 = o1[k], o2[k]
        cv(f"{k}:symmetric", a1, a2, np.einsum('ab...->ba...', a1),
           np.einsum('ab...->ba...', a2), S2)
        t1 = np.einsum('ab...,ab...->...', ex1["gammaup"], a1)
        t2 = np.einsum('ab...,ab...->...', ex2["gammaup"], a2)
        cv(f"{k}:tracefree", t1, t2, 0 * t1, 0 * t2, S2)
    # E^u, B^u are the contractions of the returned Weyl with the returned u
    for (o, ex) in ((o1, ex1), (o2, ex2)):
        E, B = _eb_from(o["weyl:eb-branch"], o["uup4"], o["gdown4"],
                        o["gup4"], o["gdet"])
        sc = max(float(np.max(np.abs(o["weyl:eb-branch"]))), 1e-3)
        for k, ref in (("eweyl_u_down4", E), ("bweyl_u_down4", B)):
            e = A.err(o[k], ref)
            if not e <= 1e-10 * sc:
                note.fail(f"{k}:not-weyl-contraction", dict(err=e, scale=sc))
    # with the default fluid u = n they converge to the exact E, B
    cv("eweyl_u_down4:u=n", o1["eweyl_u_down4"], o2["eweyl_u_down4"],
       ex1["E_n"], ex2["E_n"], S2)
    cv("bweyl_u_down4:u=n", o1["bweyl_u_down4"], o2["bweyl_u_down4"],
       ex1["B_n"], ex2["B_n"], S2)
    cv.done()


# ----------------------------------------------------------------- tetrads
@st.composite
def tetrad_case(draw):
    c = draw(cases.spacetime_case(
        kinds=("Wp", "Wp", "Wn", "KS", "PP", "KSin"), orders_p=(2, 4),
        orders_n=(2, 4), np_range=(8, 10)))
    c["form"] = draw(st.sampled_from(["components", "tensors"]))
    c["matter"] = "none"
    c["Lambda"] = 0.0
    c["vacuum"] = False
    c["tetrad"] = draw(st.sampled_from(["quasi-Kinnersley", "fluid"]))
    s = draw(cases.f(0.0, 0.8))
    c["vel"] = dict(s=s, dir=[draw(cases.f(-1, 1)) for _ in range(3)])
    return c


def fluid_extra(vel):
    def extra(fd, ex):
        d = np.array(vel["dir"], float)
        if np.linalg.norm(d) < 1e-3:
            d = np.array([1.0, 0.0, 0.0])
        nrm = np.sqrt(np.einsum('i,j,ij...->...', d, d, ex["gamma"]))
        v = vel["s"] * d.reshape(3, 1, 1, 1) / nrm
        W = np.ones_like(nrm) / np.sqrt(1 - vel["s"] ** 2)
        return dict(velx=v[0], vely=v[1], velz=v[2], w_lorentz=W)
    return extra


def test_tetrad(case, note):
    su = A.Setup(dict(case, kw=dict(KW, tetrad=case["tetrad"])))
    rel, ex, fd, trim = su.build(
        0, extra=fluid_extra(case["vel"]) if case["tetrad"] == "fluid"
        else None)
    _classes(note, case, ex)
    note.cls(case["tetrad"])
    e = rel.tetrad_base()
    if len(e) != 4 or any(np.shape(x) != (4,) + fd.x.shape for x in e):
        note.fail("tetrad:shape", {})
        return
    E = np.array(e)
    g = ex["g"]
    if case["tetrad"] == "quasi-Kinnersley":
        # spatial triad orthonormal for gamma away from the polar axis
        tri = E[1:, 1:]
        if float(np.max(np.abs(E[1:, 0]))) > 0:
            note.fail("tetrad:qk:triad-has-time-component", {})
        gram = np.einsum('ai...,bj...,ij...->ab...', tri, tri, ex["gamma"])
        dx = max(fd.dx, fd.dy)
        mask = (fd.x ** 2 + fd.y ** 2) >= (2 * dx) ** 2
        dev = np.abs(gram - np.eye(3).reshape(3, 3, 1, 1, 1))[:, :, mask]
        if dev.size and float(np.max(dev)) > 1e-9:
            note.fail("tetrad:qk:triad-not-orthonormal",
                      dict(maxdev=float(np.max(dev))))
    else:
        gram = np.einsum('am...,bn...,mn...->ab...', E, E, g)
        eta = np.diag([-1.0, 1, 1, 1]).reshape(4, 4, 1, 1, 1)
        dev = float(np.max(np.abs(gram - eta)))
        if dev > 1e-9:
            note.fail("tetrad:fluid:not-orthonormal", dict(maxdev=dev))
        if not np.allclose(E[0], rel["uup4"], rtol=0, atol=1e-13):
            note.fail("tetrad:fluid:e0-not-u", {})


# ----------------------------------------------------------------- scalars
@st.composite
def scalar_case(draw):
    kind = draw(st.sampled_from(["KS", "PP", "Wflatgauge", "Wp", "F"]))
    if kind == "Wflatgauge":
        c = draw(cases.spacetime_case(kinds=("Wp",), orders_p=(2, 4),
                                      np_range=(10, 12), masks=False))
        # alpha = 1, beta = 0: regenerate the W spec with that mask
        c["spec"] = draw(spacetimes.strategies()["wavy"](
            periodic_L=c["L"], mask=dict(lapse=False, shift=False),
            kmax=1.0))
        c["mask"] = "wave-zone"
    else:
        c = draw(cases.spacetime_case(kinds=(kind,), orders_p=(2, 4),
                                      orders_n=(2, 4), np_range=(10, 12),
                                      masks=False))
    fam = c["spec"]["family"]
    c["sk"] = kind
    c["form"] = draw(st.sampled_from(["components", "tensors"]))
    c["Lambda"] = 0.0
    c["vacuum"] = False
    c["matter"] = "Tdown4"       # so that only uup4 depends on the fluid
    c["vel1"] = dict(s=draw(cases.f(0.0, 0.6)),
                     dir=[draw(cases.f(-1, 1)) for _ in range(3)])
    c["vel2"] = dict(s=draw(cases.f(0.1, 0.7)),
                     dir=[draw(cases.f(-1, 1)) for _ in range(3)])
    c["rot"] = [draw(cases.f(-1.5, 1.5)) for _ in range(3)]
    return c


def _rotated_tetrad(e, rot):
    w = np.array(rot, float)
    ang = np.linalg.norm(w)
    R = np.eye(3)
    if ang > 0:
        n = w / ang
        Kx = np.array([[0, -n[2], n[1]], [n[2], 0, -n[0]], [-n[1], n[0], 0]])
        R = np.eye(3) + np.sin(ang) * Kx + (1 - np.cos(ang)) * Kx @ Kx
    E = np.array(e[1:])
    Er = np.einsum('ab,b...->a...', R, E)
    return e[0], Er[0], Er[1], Er[2]


def test_scalars(case, note):
    p = case["order"]
    fam = case["spec"]["family"]
    res = []
    for lvl in (0, 1):
        out = {}
        su = A.Setup(dict(case, kw=dict(KW, tetrad="fluid")))
        for nm in ("vel1", "vel2"):
            rel, ex, fd, trim = su.build(lvl, extra=fluid_extra(case[nm]))
            inv = rel["Weyl_invariants"]
            out[nm] = (inv["I"], inv["J"])
            # the five returned quantities are the standard polynomials of
            # the returned Weyl scalars (Stephani et al., sect. 9.3)
            P0, P1, P2, P3, P4 = rel["Weyl_Psi"]
            I_ = P0 * P4 - 4 * P1 * P3 + 3 * P2 * P2
            L_ = P2 * P4 - P3 ** 2
            poly = dict(
                I=I_, L=L_,
                J=(P4 * (P2 * P0 - P1 * P1) - P3 * (P3 * P0 - P1 * P2)
                   + P2 * (P3 * P1 - P2 * P2)),
                K=P1 * P4 ** 2 - 3 * P4 * P3 * P2 + 2 * P3 ** 3,
                N=12 * L_ ** 2 - P4 ** 2 * I_)
            pm = max(float(np.max(np.abs(x))) for x in (P0, P1, P2, P3, P4))
            deg = dict(I=2, J=3, L=2, K=3, N=4)
            for kk, want in poly.items():
                if kk not in inv:
                    note.fail(f"Weyl_invariants:missing:{kk}", {})
                elif not np.all(np.abs(inv[kk] - want)
                                <= 1e-11 * max(pm, 1e-3) ** deg[kk]):
                    note.fail(f"Weyl_invariants:{kk}:not-the-polynomial", dict(
                        err=float(np.max(np.abs(inv[kk] - want))), scale=pm))
            # E^u, B^u for a fluid moving relative to the slicing are the
            # contractions of the returned Weyl tensor with the returned u
            Cw = rel["st_Weyl_down4"]
            Eu, Bu = _eb_from(Cw, rel["uup4"], rel["gdown4"], rel["gup4"],
                              rel["gdet"])
            scw = max(float(np.max(np.abs(Cw))), 1e-3)
            for kk, ref in (("eweyl_u_down4", Eu), ("bweyl_u_down4", Bu)):
                ee = A.err(rel[kk], ref)
                if not ee <= 1e-10 * scw:
                    note.fail(f"{kk}:tilted:not-weyl-contraction",
                              dict(err=ee, scale=scw))
            if nm == "vel1":
                # harness-rotated copy of the returned tetrad
                base = rel.tetrad_base()
                rel2, _, _, _ = su.build(lvl, extra=fluid_extra(case[nm]))
                rot = _rotated_tetrad(base, case["rot"])
                rel2.tetrad_base = lambda rot=rot: rot
                inv2 = rel2["Weyl_invariants"]
                out["rot"] = (inv2["I"], inv2["J"])
                out["Kr"] = None
        if case["sk"] == "Wflatgauge":
            suq = A.Setup(dict(case, kw=dict(KW, tetrad="quasi-Kinnersley")))
            relq, _, _, _ = suq.build(lvl)
            invq = relq["Weyl_invariants"]
            out["qk"] = (invq["I"], invq["J"])
            sue = A.Setup(dict(case, kw=dict(KW, tetrad="fluid")))
            rele, _, _, _ = sue.build(lvl)
            inve = rele["Weyl_invariants"]
            out["eul"] = (inve["I"], inve["J"])
        res.append((out, ex, fd, trim))
    (o1, ex1, fd1, tr1), (o2, ex2, fd2, tr2) = res
    _classes(note, case, ex1)
    note.cls(f"sk={case['sk']}")
    h2 = min(fd2.dx, fd2.dy, fd2.dz)
    S2 = A.natural_scale(ex2)
    cv = Conv(note, p, h2, tr1, tr2)

    def cvc(key, a1, a2, r1, r2, scale, rel=0.0):
        mag = float(np.max(np.abs(r2))) if rel else 0.0
        for part, fn in (("re", np.real), ("im", np.imag)):
            sc = Conv.__call__
            cv_floor_rel = rel * mag / max(float(np.max(np.abs(fn(r2)))),
                                           1e-300) if rel else 0.0
            cv(key + ":" + part, fn(a1), fn(a2), fn(r1), fn(r2), scale,
               rel=min(cv_floor_rel, 1e6) if rel else 0.0)
    # mask the polar axis for nothing here: fluid-adapted tetrad is regular
    for a, b, nm in (("vel1", "vel2", "invariance:two-velocities"),
                     ("vel1", "rot", "invariance:rotated-tetrad")):
        cvc(nm + ":I", o1[a][0], o2[a][0], o1[b][0], o2[b][0], S2 ** 2,
            rel=1e-3)
        cvc(nm + ":J", o1[a][1], o2[a][1], o1[b][1], o2[b][1], S2 ** 3,
            rel=1e-3)
    if case["sk"] == "Wflatgauge":
        dx1 = max(fd1.dx, fd1.dy)

        def axis_mask(fd, v):
            m = (fd.x ** 2 + fd.y ** 2) >= (2 * dx1) ** 2
            return np.where(m, v, 0.0)
        cvc("invariance:qk-vs-eulerian:I", axis_mask(fd1, o1["qk"][0]),
            axis_mask(fd2, o2["qk"][0]), axis_mask(fd1, o1["eul"][0]),
            axis_mask(fd2, o2["eul"][0]), S2 ** 2, rel=1e-3)
        cvc("invariance:qk-vs-eulerian:J", axis_mask(fd1, o1["qk"][1]),
            axis_mask(fd2, o2["qk"][1]), axis_mask(fd1, o1["eul"][1]),
            axis_mask(fd2, o2["eul"][1]), S2 ** 3, rel=1e-3)
    if fam in spacetimes.VACUUM:
        cv("16ReI=Kretschmann", 16 * np.real(o1["vel1"][0]),
           16 * np.real(o2["vel1"][0]), ex1["Kr"], ex2["Kr"], S2 ** 2)
        I1, J1 = o1["vel1"]
        I2, J2 = o2["vel1"]
        t1, t2 = I1 ** 3 - 27 * J1 ** 2, I2 ** 3 - 27 * J2 ** 2
        cvc("type-D/N:I^3=27J^2", t1, t2, 0 * t1, 0 * t2, S2 ** 6)
        if fam in ("PP", "F"):
            cvc("type-N/O:I=0", I1, I2, 0 * I1, 0 * I2, S2 ** 2)
            cvc("type-N/O:J=0", J1, J2, 0 * J1, 0 * J2, S2 ** 3)
    cv.done()


def generic_weyl():
    out = []
    for o, Lam, form in ((4, 0.2, "components"), (2, 0.0, "tensors")):
        out.append(dict(cases.generic_W(o), Lambda=Lam, form=form,
                        matter="Tdown4", vacuum=False, kw=KW))
    out.append(dict(cases.generic_KS(4), Lambda=0.0, form="components",
                    matter="none", vacuum=True, kw=KW))
    out.append(dict(cases.generic_PP(2), Lambda=0.0, form="tensors",
                    matter="none", vacuum=False, kw=KW))
    # Einstein's constant set to 1 (documented attribute), matter scaled
    out.append(dict(cases.generic_W(4), Lambda=0.15, form="components",
                    matter="Tdown4", vacuum=False, kw=KW, kappa=1.0))
    out.append(dict(cases.generic_KSin(4), Lambda=0.0, form="components",
                    matter="none", vacuum=False, kw=KW))
    return out


def generic_scalars():
    v1 = dict(s=0.3, dir=[0.5, -0.7, 0.4])
    v2 = dict(s=0.55, dir=[-0.2, 0.6, 0.9])
    base = dict(Lambda=0.0, vacuum=False, matter="Tdown4", vel1=v1, vel2=v2,
                rot=[0.7, -0.4, 1.1])
    return [dict(cases.generic_W(4), form="components", sk="Wp", **base),
            dict(cases.generic_KS(4), form="tensors", sk="KS", **base),
            dict(cases.generic_PP(2), form="components", sk="PP", **base)]


def generic_tetrads():
    v = dict(s=0.5, dir=[0.5, -0.7, 0.4])
    out = []
    for tet in ("quasi-Kinnersley", "fluid"):
        out.append(dict(cases.generic_W(4), form="components", matter="none",
                        Lambda=0.0, vacuum=False, tetrad=tet, vel=v))
        out.append(dict(cases.generic_KS(2), form="tensors", matter="none",
                        Lambda=0.0, vacuum=False, tetrad=tet, vel=v))
    return out


def subchecks(tier):
    q = tier == "quick"
    return [
        Sub("weyl", weyl_case(), A.asymptotic(test_weyl), 16 if q else 1000,
            generic=generic_weyl(), shards=8 if q else 16, max_rounds=2,
            shrink_quick=False, pregenerate=True),
        Sub("tetrad", tetrad_case(), test_tetrad, 48 if q else 3000,
            generic=generic_tetrads(), shards=4 if q else 8, max_rounds=2),
        Sub("scalars", scalar_case(), A.asymptotic(test_scalars), 12 if q else 600,
            generic=generic_scalars(), shards=8 if q else 16, max_rounds=2,
            shrink_quick=False, pregenerate=True),
    ]
