"""C08 - pointwise tensor algebra identities hold to round-off for every
input.  DESIGN.md section 4, C08 (comparison rule: 3.4 "round-off rule")."""
import itertools
import warnings

import numpy as np
from hypothesis import strategies as st

import aurel  # noqa: F401
from aurel import maths
from harness import pointwise as P
from harness.aurelside import make_rel
from harness.common import Sub
from harness.pointwise import (I_like, Ref, decide, det_field, inv_field, mm,
                               offdiag_cond, sym_scales)

PROPERTY = "C08"
RULE = (
    "Hypothesis draws a small parameter record (grid 1x2x3 .. 7x3x2 with "
    "distinct extents, RNG seed, spatial-variation amplitude, Cholesky "
    "factor with off-diagonal strength 0..3, per-axis metric scales "
    "1e-3..1e3, lapse 1e-2..1e2, shift amplitudes up to 2*alpha (super-"
    "luminal included, zero components included), symmetric K, input form "
    "tensors/components with defaults omitted); arrays are a pure function "
    "of it (gamma = S L L^T S is SPD by construction). maths4 draws random "
    "symmetric 4x4 fields (indefinite, not only Lorentzian) with row scales "
    "1e-3..1e3; riemann draws block inputs with exactly the block "
    "symmetries; safe_division draws every scalar/array/broadcast/dtype "
    "combination with zeros planted in the divisor. Non-trivial (metric "
    "sub-checks): max off-diagonal of the unit-diagonal metric > 0.1 at "
    "every grid point and cond_2(gamma) > 10; maths4: same on the "
    "equilibrated matrix; riemann: all three blocks non-zero; "
    "safe_division: the divisor contains a zero. riemann_weyl_homogeneous: "
    "constant fields (every finite difference vanishes), any vacuum/Lambda/T "
    "combination: symmetries of the assembled Riemann and of both Weyl "
    "branches to round-off. kinematic_parts: modulated fields with a fluid "
    "moving through the slicing: theta_ab = sigma_ab + theta h_ab/3, sigma "
    "trace-free w.r.t. h^ab and symmetric, omega antisymmetric, and the "
    "metric read again after everything built from it.")
ASSUMPTIONS = [
    "round-off rule |a-b| <= c*eps*kappa*scale with c = 256, evaluated at "
    "every grid point in the diagonally equilibrated frame (spatial index i "
    "rescaled by sqrt(gamma_ii), time index by alpha; for arbitrary "
    "symmetric matrices by sqrt(max_j|A_ij|)): every formula under test is a "
    "homogeneous rational function, so its rounding error is covariant "
    "under this rescaling",
    "kappa = max(cond_2, M^n/|det|) of the equilibrated matrix (numpy.linalg,"
    " from the data); the second term bounds sum|terms|/|det| of a cofactor "
    "closed form; points with kappa > 1e10 are not decided (counted in class "
    "'undecided-points')",
    "scale = product of the max-magnitudes of the factors entering the "
    "formula in the equilibrated frame (standard forward error bound)",
    "numpy.linalg.inv/det on the equilibrated matrix is the reference for "
    "inverse3/4 and determinant3/4",
    "A2 = (1/2) A_ij A^ij (docstring of magnitude3, use in Hamiltonian) and "
    "A2_bssnok = Atilde_ij Atilde^ij (use in dtKtrace): the descriptions "
    "only say 'magnitude'; each is compared with the direct contraction with "
    "the factor its own definition uses",
    "s_to_st is only claimed for symmetric spatial tensors (its docstring: "
    "E, B, K)",
    "safe_division: magnitudes kept in 1e-3..1e3 (times a common factor "
    "10**tiny_exp down to 1e-250 for float64 operands) so that a/b itself cannot "
    "overflow; int32 inputs are documented to go through float32, hence "
    "rtol 1e-6 for 32-bit inputs and 4 ulp for 64-bit inputs",
]

fl = P.qfloat
C = 256.0


# ---------------------------------------------------------------------------
# helpers


def classes_for(note, od, c2, kap):
    note.cls("cond2=1e%d" % int(min(15, np.floor(np.log10(
        max(1.0, float(np.max(c2))))))))
    if np.all(od > 0.1):
        note.cls("offdiag>0.1")
    if np.any(~np.isfinite(kap)):
        note.cls("undecided-points")


# ---------------------------------------------------------------------------
# maths3 / maths4


def check_matrix(note, name, n, A, aslist):
    """inverse/determinant/format/getcomponents of aurel.maths on the
    symmetric matrix field A (n,n,grid)."""
    inverse = maths.inverse3 if n == 3 else maths.inverse4
    determinant = maths.determinant3 if n == 3 else maths.determinant4
    fmt = maths.format_rank2_3 if n == 3 else maths.format_rank2_4
    getc = maths.getcomponents3 if n == 3 else maths.getcomponents4
    pairs = P.SYM3 if n == 3 else P.SYM4
    shape = A.shape[2:]

    # round trip components <-> array (exact)
    comps = getc(A)
    if not (isinstance(comps, list) and len(comps) == len(pairs)):
        note.fail(f"getcomponents{n}:layout", dict(type=str(type(comps))))
        return
    for (i, j), cmpn in zip(pairs, comps):
        if not np.array_equal(cmpn, A[i, j]):
            note.fail(f"getcomponents{n}:order", dict(pair=[i, j]))
    back = fmt(comps)
    if back.shape != A.shape or not np.array_equal(back, A):
        note.fail(f"format_rank2_{n}:roundtrip",
                  dict(shape=list(np.shape(back))))
    if not np.array_equal(fmt(A), A):
        note.fail(f"format_rank2_{n}:array-input", {})
    if getc(comps) is not comps and not all(
            np.array_equal(a, b) for a, b in zip(getc(comps), comps)):
        note.fail(f"getcomponents{n}:list-input", {})

    arg = [c.copy() for c in comps] if aslist else A.copy()
    d = sym_scales(A)
    Ah = P.eq(A, 'dd', d)
    kap = decide(P.kappa(Ah))
    od, c2 = offdiag_cond(Ah, A)
    cm = P.Cmp(note, kap, c=C)
    vol = np.prod(d, axis=0) ** 2
    M = np.maximum(1.0, P.amax(Ah, 2))

    with np.errstate(all='ignore'):
        det = determinant(arg)
        inv = inverse(arg)
    if np.shape(det) != shape:
        note.fail(f"determinant{n}:shape", dict(got=list(np.shape(det))))
        return od, c2, kap
    if np.shape(inv) != A.shape:
        note.fail(f"inverse{n}:shape", dict(got=list(np.shape(inv))))
        return od, c2, kap
    # determinant: absolute error <= eps * sum|terms| <= eps * n! * M^n
    cm.close(f"determinant{n}:value", det / vol, det_field(Ah), M ** n,
             kap=1.0)
    # inverse against numpy.linalg on the equilibrated matrix
    inv_ref = inv_field(Ah, kap)
    Gi = np.maximum(1.0, P.amax(inv_ref, 2))
    inv_h = P.eq(inv, 'uu', d)
    ok = cm.close(f"inverse{n}:value", inv_h, inv_ref, Gi)
    if ok:
        cm.close(f"inverse{n}:identity", mm(inv_h, Ah), I_like(n, shape),
                 Gi * M)
    if not np.array_equal(inv, np.swapaxes(inv, 0, 1)):
        note.fail(f"inverse{n}:symmetry", {})
    # where the determinant is exactly zero the documented result is 0
    z = (det == 0)
    if np.any(z):
        note.cls("singular-points")
        if np.any(inv[:, :, z] != 0) or not np.all(np.isfinite(inv)):
            note.fail(f"inverse{n}:singular-not-zero", {})
    note.worst = getattr(note, "worst", {})
    note.worst.update(cm.worst)
    return od, c2, kap


@st.composite
def maths3_case(draw):
    c = draw(P.geometry_strategy())
    c["aslist"] = draw(st.booleans())
    return c


def test_maths3(case, note):
    f = P.fields(case)
    od, c2, kap = check_matrix(note, "gamma", 3, f["gamma"], case["aslist"])
    note.nt(bool(np.all(od > 0.1) and np.min(c2) > 10))
    classes_for(note, od, c2, kap)
    note.cls("list-input" if case["aslist"] else "array-input")
    # an indefinite symmetric matrix as well (K), possibly singular/zero
    check_matrix(note, "K", 3, f["K"], case["aslist"])


@st.composite
def maths4_case(draw):
    c = {}
    c["shape"] = draw(st.sampled_from([[4, 5, 6], [3, 4, 5], [2, 3, 4],
                                       [1, 2, 3], [5, 3, 4]]))
    c["seed"] = draw(st.integers(0, 2**31 - 1))
    c["var"] = draw(st.sampled_from([0.0, 0.3, 1.0]))
    c["coef"] = [draw(fl(-1.0, 1.0)) for _ in range(10)]
    c["logs"] = [draw(fl(-3.0, 3.0)) for _ in range(4)]
    c["kind"] = draw(st.sampled_from(["random", "random", "spd", "lorentz",
                                      "zero-diagonal"]))
    c["aslist"] = draw(st.booleans())
    return c


def maths4_field(case):
    shape = tuple(case["shape"])
    rng = np.random.default_rng(int(case["seed"]))
    var = case["var"]
    A = np.zeros((4, 4) + shape)
    for n, (i, j) in enumerate(P.SYM4):
        A[i, j] = case["coef"][n] + 0.5 * var * rng.uniform(-1, 1, shape)
        A[j, i] = A[i, j]
    kind = case["kind"]
    if kind == "spd":
        A = mm(A, A) + 0.05 * I_like(4, shape)
        A = 0.5 * (A + np.swapaxes(A, 0, 1))
    elif kind == "lorentz":
        S = mm(A, A) + 0.05 * I_like(4, shape)
        S = 0.5 * (S + np.swapaxes(S, 0, 1))
        v = np.zeros((4,) + shape)
        v[0] = 1.0 + np.sqrt(S[0, 0])
        A = S - 2.0 * np.einsum('a...,b...->ab...', v, v)
    elif kind == "zero-diagonal":
        for i in range(4):
            A[i, i] = 0.0
    t = np.array([10.0 ** (0.5 * case["logs"][i]) *
                  (1 + 0.3 * var * rng.uniform(-1, 1, shape))
                  for i in range(4)])
    return t[:, None] * t[None, :] * A


def test_maths4(case, note):
    A = maths4_field(case)
    od, c2, kap = check_matrix(note, "A", 4, A, case["aslist"])
    note.nt(bool(np.all(od > 0.1) and np.min(c2) > 10))
    classes_for(note, od, c2, kap)
    note.cls("kind=" + case["kind"],
             "list-input" if case["aslist"] else "array-input")
    with np.errstate(all='ignore'):
        sig = np.linalg.eigvalsh(P.grid_to_last(A, 2))
    nneg = int(np.sum(sig[(0,) * (sig.ndim - 1)] < 0))
    note.cls(f"negative-eigenvalues={nneg}")


# ---------------------------------------------------------------------------
# AurelCore algebraic keys


@st.composite
def core_case(draw):
    c = draw(P.geometry_strategy())
    c["form"] = draw(st.sampled_from(["tensors", "components",
                                      "components"]))
    c["omit"] = draw(st.booleans())
    c["g4first"] = draw(st.booleans())
    return c


def generic_core(**kw):
    out = []
    for g in (P.GENERIC_GEO, P.GENERIC_GEO2):
        for form, g4 in (("tensors", False), ("components", True)):
            c = dict(g)
            c.update(form=form, omit=False, g4first=g4)
            c.update(kw)
            out.append(c)
    return out


def setup_core(case, note):
    f = P.fields(case)
    ref = Ref(f)
    data = P.geo_inputs(f, case["form"], case["omit"])
    rel = make_rel(f["fd"], data, clear_cache_every_nbr_calc=10**9)
    note.nt(bool(np.all(ref.od > 0.1) and np.min(ref.c2) > 10))
    classes_for(note, ref.od, ref.c2, ref.kap)
    note.cls("form=" + case["form"])
    nb = int(sum(1 for b in case["bamp"] if b != 0.0))
    note.cls(f"shift-components={nb}")
    if case["kamp"] != 0:
        note.cls("K!=0")
    if np.any(ref.g4[0, 0] > 0):
        note.cls("superluminal-shift")
    if len(set(case["shape"])) == 3:
        note.cls("noncubic")
    omitted = sorted(set(P.geo_inputs(f, case["form"], False))
                     - set(data))
    if omitted:
        note.cls("defaults-omitted")
    cm = P.Cmp(note, ref.kap, c=C)
    return f, ref, rel, cm, omitted


def get(rel, note, key):
    """rel[key] with exceptions turned into a violation (the keys under test
    are documented to be computable from these inputs)."""
    try:
        with np.errstate(all='ignore'):
            return rel[key]
    except Exception as e:  # noqa: BLE001
        note.fail(f"{key}:raises", dict(error=f"{type(e).__name__}: {e}"))
        return None


def test_metric(case, note):
    f, r, rel, cm, _ = setup_core(case, note)
    shape = r.shape
    d, d4, e4, al = r.d, r.d4, r.e4, r.al
    one = np.ones(shape)
    note.cls("g4first" if case["g4first"] else "g3first")

    # --- named components <-> tensors, on a separate instance (exact: the
    # one is assembled from / sliced out of the other, whichever was given).
    # The time derivative of the shift is supplied here in the same form.
    data_c = P.geo_inputs(f, case["form"], False)
    dtb = np.array([0.3 * f["betaup"][i] + 0.01 * (i + 1)
                    for i in range(3)])
    if case["form"] == "tensors":
        data_c["dtbetaup3"] = dtb.copy()
    else:
        for i, a in enumerate("xyz"):
            data_c["dtbeta" + a] = dtb[i].copy()
    relc = make_rel(f["fd"], data_c, clear_cache_every_nbr_calc=10**9)
    sfx = ["xx", "xy", "xz", "yy", "yz", "zz"]
    for tens, ref, names, idx in (
            ("gammadown3", f["gamma"], ["g" + q for q in sfx], P.SYM3),
            ("Kdown3", f["K"], ["k" + q for q in sfx], P.SYM3),
            ("betaup3", f["betaup"], ["betax", "betay", "betaz"],
             [(0,), (1,), (2,)]),
            ("dtbetaup3", dtb, ["dtbetax", "dtbetay", "dtbetaz"],
             [(0,), (1,), (2,)])):
        tv = get(relc, note, tens)
        if tv is not None and not np.array_equal(tv, ref):
            note.fail(f"{tens}:not-the-supplied-{case['form']}", {})
        for nm, ix in zip(names, idx):
            cv = get(relc, note, nm)
            if cv is not None and not np.array_equal(cv, ref[ix]):
                note.fail(f"{nm}:not-component-of-{tens}",
                          dict(form=case["form"]))

    # --- gdet (both branches), g_tt / g_ti keys (both branches) ----------
    def check_gdet(v, disc):
        # frame S: |entries| <= 1, so sum|terms| <= 24
        cm.close(disc, v / r.vol4, -(al**2) * r.detgam / r.vol4, one,
                 kap=1.0)
        cm.close(disc.replace("gdet:", "gdet-numpy:"), v / r.vol4,
                 det_field(r.g4s), one, kap=1.0)

    def check_gt(rel_, tag):
        for k, (a, b_) in dict(gtt=(0, 0), gtx=(0, 1), gty=(0, 2),
                               gtz=(0, 3)).items():
            v = get(rel_, note, k)
            if v is not None:
                cm.close(f"{k}:{tag}", v / (d4[a] * d4[b_]), r.g4h[a, b_],
                         (1 + r.b**2) if a == b_ else r.b, kap=1.0)
        # proper-time rate of observers at fixed coordinates:
        # (d tau / dt)^2 = |g_tt|
        dtt = get(rel_, note, "dttau")
        if dtt is not None:
            cm.close(f"dttau:{tag}", dtt**2 / (d4[0] * d4[0]),
                     np.abs(r.g4h[0, 0]), 1 + r.b**2, kap=1.0)

    if case["g4first"]:
        g4 = get(rel, note, "gdown4")
        gdet = get(rel, note, "gdet")
        if gdet is not None:
            check_gdet(gdet, "gdet:det4-branch")
        check_gt(rel, "from-gdown4")
    else:
        check_gt(rel, "from-3+1")
        gdet = get(rel, note, "gdet")
        if gdet is not None:
            check_gdet(gdet, "gdet:3+1-branch")
        # second instance: the other branch, same inputs
        rel2 = make_rel(f["fd"], P.geo_inputs(f, case["form"], case["omit"]),
                        clear_cache_every_nbr_calc=10**9)
        get(rel2, note, "gdown4")
        gdet2 = get(rel2, note, "gdet")
        if gdet2 is not None:
            check_gdet(gdet2, "gdet:det4-branch")
        g4 = get(rel, note, "gdown4")

    # --- spatial metric ------------------------------------------------
    gd3 = get(rel, note, "gammadown3")
    if gd3 is not None and not np.array_equal(gd3, r.gam):
        note.fail("gammadown3:echo", {})
    gu3 = get(rel, note, "gammaup3")
    if gu3 is not None:
        gu3h = P.eq(gu3, 'uu', d)
        if cm.close("gammaup3:value", gu3h, r.Ghi, r.Gi, kap=r.kap3):
            cm.close("gammaup3:identity", mm(gu3h, r.Gh), I_like(3, shape),
                     r.Gi, kap=r.kap3)
    gdt = get(rel, note, "gammadet")
    if gdt is not None:
        cm.close("gammadet:value", gdt / r.vol, r.detGh, one, kap=1.0)
    # --- shift -----------------------------------------------------------
    bu3 = get(rel, note, "betaup3")
    if bu3 is not None and not np.array_equal(bu3, r.bu):
        note.fail("betaup3:echo", {})
    bd3 = get(rel, note, "betadown3")
    if bd3 is not None:
        cm.close("betadown3:value", P.eq(bd3, 'd', d) / al,
                 P.eq(r.bd, 'd', d) / al, r.b, kap=1.0)
    bm = get(rel, note, "betamag")
    if bm is not None:
        cm.close("betamag:value", bm / al**2, r.bmag / al**2, r.b**2,
                 kap=1.0)
    # --- 4-metric: assembly (frame A) -----------------------------------
    if g4 is not None:
        g4h = P.eq(g4, 'dd', d4)
        cm.close("g_tt:value", g4h[0, 0], r.g4h[0, 0], 1 + r.b**2, kap=1.0)
        cm.close("g_ti:value", g4h[0, 1:], r.g4h[0, 1:], r.b, kap=1.0)
        cm.close("g_it:value", g4h[1:, 0], r.g4h[1:, 0], r.b, kap=1.0)
        if not np.array_equal(g4[1:, 1:], r.gam):
            note.fail("g_ij:value", {})
    # --- inverse 4-metric (frame S) ---------------------------------------
    gu4 = get(rel, note, "gup4")
    gu4s = None
    if gu4 is not None:
        gu4s = P.eq(gu4, 'uu', e4)
        if cm.close("gup4:value", gu4s, r.g4us, r.M4us, kap=r.kap4):
            cm.close("gup4:identity", mm(gu4s, r.g4s), I_like(4, shape),
                     r.M4us, kap=r.kap4)
    # --- normal ----------------------------------------------------------
    nu = get(rel, note, "nup4")
    nd = get(rel, note, "ndown4")
    if nu is not None and nd is not None:
        nuh = P.eq(nu, 'u', d4)
        ndh = P.eq(nd, 'd', d4)
        cm.close("nup4:value", nuh, P.eq(r.nup, 'u', d4), 1 + r.b, kap=1.0)
        if not np.array_equal(nd, r.ndown):
            note.fail("ndown4:value", {})
        # n^mu n_mu = -1 with the metric in both index positions
        cm.close("n.n:gdown", np.einsum('ab...,a...,b...->...', r.g4h, nuh,
                                        nuh), -one, (1 + r.b)**2 * r.M4,
                 kap=1.0)
        if gu4s is not None:
            nds = P.eq(nd, 'd', e4)
            cm.close("n.n:gup", np.einsum('ab...,a...,b...->...', gu4s, nds,
                                          nds),
                     -one, r.M4us * np.maximum(1.0, P.amax(nds, 1))**2,
                     kap=r.kap4)
        cm.close("ndown=g.nup", np.einsum('ab...,b...->a...', r.g4h, nuh),
                 ndh, (1 + r.b) * r.M4, kap=1.0)
        gd4 = get(rel, note, "gammadown4")
        g4u_ = get(rel, note, "gammaup4")
        if gd4 is not None:
            want = r.g4 + np.einsum('a...,b...->ab...', r.ndown, r.ndown)
            gd4h = P.eq(gd4, 'dd', d4)
            cm.close("gammadown4:g+nn", gd4h, P.eq(want, 'dd', d4),
                     1 + r.b**2, kap=1.0)
            # orthogonal to the slice normal
            cm.close("gammadown4.n=0", np.einsum('ab...,b...->a...', gd4h,
                                                 nuh),
                     np.zeros((4,) + shape), (1 + r.b) * (1 + r.b**2),
                     kap=1.0)
        if g4u_ is not None:
            # gamma^{mu nu} = g^{mu nu} + n^mu n^nu = diag-block(0, gamma^ij)
            want = np.zeros((4, 4) + shape)
            want[1:, 1:] = r.Ghi
            g4uh = P.eq(g4u_, 'uu', d4)
            cm.close("gammaup4:g+nn", g4uh, want, r.Gi, kap=r.kap3)
            if np.any(g4u_[0] != 0) or np.any(g4u_[:, 0] != 0):
                note.fail("n.gammaup4=0", {})
            if gu4 is not None:
                # the same statement with aurel's own g^{mu nu} and n^mu
                # (frame S, where the error bound of gup4 is stated)
                nus = P.eq(nu, 'u', e4)
                lhs = gu4s + np.einsum('a...,b...->ab...', nus, nus)
                cm.close("gammaup4:gup4+nn", P.eq(g4u_, 'uu', e4), lhs,
                         r.M4us + np.maximum(1.0, P.amax(nus, 1))**2)
    note.worst = cm.worst


def test_curv(case, note):
    f, r, rel, cm, _ = setup_core(case, note)
    shape = r.shape
    d = r.d
    one = np.ones(shape)
    Gi, Km = r.Gi, r.Km
    I3 = I_like(3, shape)
    Kd = get(rel, note, "Kdown3")
    if Kd is not None and not np.array_equal(Kd, r.K):
        note.fail("Kdown3:echo", {})
    Kup_ref = mm(mm(r.Ghi, r.Kh), r.Ghi)
    trK_ref = np.einsum('ij...,ij...->...', r.Ghi, r.Kh)
    A_ref = r.Kh - r.Gh * trK_ref / 3.0
    Aup_ref = mm(mm(r.Ghi, A_ref), r.Ghi)
    Ku = get(rel, note, "Kup3")
    if Ku is not None:
        Kuh = P.eq(Ku, 'uu', d)
        cm.close("Kup3:value", Kuh, Kup_ref, Gi**2 * Km)
        cm.close("Kup3:pair", mm(mm(r.Gh, Kuh), r.Gh), r.Kh, Gi**2 * Km)
    trK = get(rel, note, "Ktrace")
    if trK is not None:
        cm.close("Ktrace:value", trK, trK_ref, Gi * Km)
    Ad = get(rel, note, "Adown3")
    if Ad is not None:
        Adh = P.eq(Ad, 'dd', d)
        cm.close("Adown3:value", Adh, A_ref, Gi * Km)
        cm.close("Adown3:tracefree", np.einsum('ij...,ij...->...', r.Ghi,
                                               Adh),
                 np.zeros(shape), Gi**2 * Km)
        if not np.array_equal(Ad, np.swapaxes(Ad, 0, 1)):
            cm.close("Adown3:symmetric", Adh, np.swapaxes(Adh, 0, 1),
                     Gi * Km)
    Au = get(rel, note, "Aup3")
    if Au is not None:
        Auh = P.eq(Au, 'uu', d)
        cm.close("Aup3:value", Auh, Aup_ref, Gi**3 * Km)
        cm.close("Aup3:pair", mm(mm(r.Gh, Auh), r.Gh), A_ref, Gi**3 * Km)
    A2_ref = 0.5 * np.einsum('ij...,ij...->...', A_ref, Aup_ref)
    A2 = get(rel, note, "A2")
    if A2 is not None:
        cm.close("A2:contraction", A2, A2_ref, Gi**4 * Km**2)
    # --- conformal (BSSNOK) quantities ---------------------------------
    psi_ref = r.detgam ** (1.0 / 12.0)
    psi = get(rel, note, "psi_bssnok")
    if psi is not None:
        cm.close("psi_bssnok:weight", psi / psi_ref, one, one)
    phi = get(rel, note, "phi_bssnok")
    if phi is not None:
        cm.close("phi_bssnok:weight", phi, np.log(r.detgam) / 12.0,
                 1 + np.abs(np.log(r.detgam)))
    # equilibrated conformal frame: gt_ij = psi^-4 gamma_ij
    p4 = psi_ref ** 4
    gtd = get(rel, note, "gammadown3_bssnok")
    if gtd is not None:
        gtdh = P.eq(gtd, 'dd', d) * p4        # should be Gh
        cm.close("gammadown3_bssnok:weight", gtdh, r.Gh, one)
        cm.close("gammadown3_bssnok:unit-det",
                 det_field(P.eq(gtd, 'dd', d)) * r.vol, one, one)
        cm.close("gammadown3_bssnok:unit-det-aurel",
                 maths.determinant3(gtd), one, one)
    gtu = get(rel, note, "gammaup3_bssnok")
    if gtu is not None:
        gtuh = P.eq(gtu, 'uu', d) / p4        # should be Ghi
        cm.close("gammaup3_bssnok:weight", gtuh, r.Ghi, Gi)
        if gtd is not None:
            cm.close("gammaup3_bssnok:pair", mm(gtuh, P.eq(gtd, 'dd', d)
                                                * p4), I3, Gi)
    Atd = get(rel, note, "Adown3_bssnok")
    if Atd is not None:
        cm.close("Adown3_bssnok:weight", P.eq(Atd, 'dd', d) * p4, A_ref,
                 Gi * Km)
    Atu = get(rel, note, "Aup3_bssnok")
    if Atu is not None:
        Atuh = P.eq(Atu, 'uu', d) / p4
        cm.close("Aup3_bssnok:weight", Atuh, Aup_ref, Gi**3 * Km)
        if Atd is not None and gtu is not None:
            # raised with the conformal metric
            gtuh = P.eq(gtu, 'uu', d) / p4
            cm.close("Aup3_bssnok:pair",
                     mm(mm(gtuh, P.eq(Atd, 'dd', d) * p4), gtuh), Atuh,
                     Gi**3 * Km)
    A2t = get(rel, note, "A2_bssnok")
    if A2t is not None:
        cm.close("A2_bssnok:contraction", A2t, 2.0 * A2_ref,
                 Gi**4 * Km**2)
        if Atd is not None and Atu is not None:
            cm.close("A2_bssnok:own-factors", A2t,
                     np.einsum('ij...,ij...->...', Atd, Atu),
                     Gi**4 * Km**2)
    note.worst = cm.worst


def test_helpers(case, note):
    f, r, rel, cm, omitted = setup_core(case, note)
    shape = r.shape
    d, d4, al = r.d, r.d4, r.al
    rng = f["rng"]
    Gi = r.Gi
    one = np.ones(shape)

    def symfield(n):
        a = rng.uniform(-1, 1, (n, n) + shape)
        return 0.5 * (a + np.swapaxes(a, 0, 1))

    # arbitrary symmetric spatial tensor / spacetime tensor / vectors with
    # the scaling of lower-index (tensor) and upper-index (vector) objects
    Fh = symfield(3)
    F = P.eq(Fh, 'uu', d)          # F_ij = d_i d_j Fh_ij
    F4h = symfield(4)
    F4 = P.eq(F4h, 'uu', r.e4)          # frame S
    ah, bh_ = rng.uniform(-1, 1, (2, 3) + shape)
    a3, b3 = P.eq(ah, 'd', d), P.eq(bh_, 'd', d)      # upper-index vectors
    a4h, b4h = rng.uniform(-1, 1, (2, 4) + shape)
    a4, b4 = P.eq(a4h, 'd', r.e4), P.eq(b4h, 'd', r.e4)

    def call(name, *args):
        try:
            with np.errstate(all='ignore'):
                return getattr(rel, name)(*args)
        except Exception as e:  # noqa: BLE001
            note.fail(f"{name}:raises", dict(error=f"{type(e).__name__}: "
                                             f"{e}"))
            return None

    # --- s_to_st --------------------------------------------------------
    if case.get("st_first", True):
        st4 = call("s_to_st", F)
    else:
        get(rel, note, "betaup3")
        st4 = call("s_to_st", F)
    if st4 is not None:
        st4h = P.eq(st4, 'dd', d4)
        want00 = np.einsum('i...,j...,ij...->...', r.bh, r.bh, Fh)
        want0k = np.einsum('i...,ik...->k...', r.bh, Fh)
        partial = ("betax" in omitted and any(b != 0 for b in case["bamp"])
                   and case.get("st_first", True))
        if partial:
            note.cls("s_to_st:betax-omitted")
        if (partial and np.all(st4[0] == 0) and np.all(st4[:, 0] == 0)
                and np.any(want0k != 0)):
            # one root cause, one discriminator: the zero-shift shortcut was
            # taken although a non-zero shift component was supplied
            note.fail("s_to_st:zero-shift-shortcut-with-partial-shift",
                      dict(supplied=sorted(k for k in rel.data
                                           if k.startswith("beta")),
                           got_tk=st4[0, 1:, 0, 0, 0].tolist(),
                           want_tk=(want0k * r.d4[0] * r.d4[1:])[
                               :, 0, 0, 0].tolist()))
        else:
            cm.close("s_to_st:tt", st4h[0, 0], want00, r.b**2, kap=1.0)
            cm.close("s_to_st:tk", st4h[0, 1:], want0k, r.b, kap=1.0)
            cm.close("s_to_st:kt", st4h[1:, 0], want0k, r.b, kap=1.0)
            # purely spatial: contraction with the normal vanishes
            nuh = P.eq(r.nup, 'u', d4)
            cm.close("s_to_st:normal",
                     np.einsum('ab...,b...->a...', st4h, nuh),
                     np.zeros((4,) + shape), (1 + r.b)**3, kap=1.0)
        if not np.array_equal(st4[1:, 1:], F):
            note.fail("s_to_st:spatial-block", {})
    # --- traces, trace-free part, magnitudes ----------------------------
    t3 = call("trace3", F)
    tr_ref = np.einsum('ij...,ij...->...', r.Ghi, Fh)
    if t3 is not None:
        cm.close("trace3:value", t3, tr_ref, Gi)
    tf = call("tracefree3", F)
    if tf is not None:
        tfh = P.eq(tf, 'dd', d)
        cm.close("tracefree3:value", tfh, Fh - r.Gh * tr_ref / 3.0, Gi)
        cm.close("tracefree3:trace=0", np.einsum('ij...,ij...->...', r.Ghi,
                                                 tfh), np.zeros(shape),
                 Gi**2)
    m3 = call("magnitude3", F)
    if m3 is not None:
        Fup = mm(mm(r.Ghi, Fh), r.Ghi)
        cm.close("magnitude3:value", m3,
                 0.5 * np.einsum('ij...,ij...->...', Fh, Fup), Gi**2)
    t4 = call("trace4", F4)
    if t4 is not None:
        cm.close("trace4:value", t4, np.einsum('ab...,ab...->...', r.g4us,
                                               F4h), r.M4us)
    m4 = call("magnitude4", F4)
    if m4 is not None:
        F4up = mm(mm(r.g4us, F4h), r.g4us)
        cm.close("magnitude4:value", m4,
                 0.5 * np.einsum('ab...,ab...->...', F4h, F4up), r.M4us**2)
    # --- inner products and norms --------------------------------------
    ip3 = call("vector_inner_product3", a3, b3)
    if ip3 is not None:
        cm.close("vector_inner_product3:value", ip3,
                 np.einsum('i...,j...,ij...->...', ah, bh_, r.Gh), one,
                 kap=1.0)
    ip4 = call("vector_inner_product4", a4, b4)
    if ip4 is not None:
        cm.close("vector_inner_product4:value", ip4,
                 np.einsum('a...,b...,ab...->...', a4h, b4h, r.g4s), one,
                 kap=1.0)
    n3 = call("norm3", a3)
    if n3 is not None:
        # sqrt amplifies absolute errors near 0: compare the squares
        cm.close("norm3:value", n3**2,
                 np.abs(np.einsum('i...,j...,ij...->...', ah, ah, r.Gh)),
                 one, kap=1.0)
        if np.any(n3 < 0):
            note.fail("norm3:negative", {})
    n4 = call("norm4", a4)
    if n4 is not None:
        cm.close("norm4:value", n4**2,
                 np.abs(np.einsum('a...,b...,ab...->...', a4h, a4h, r.g4s)),
                 one, kap=1.0)
    # --- Kronecker deltas -------------------------------------------------
    for n, nm in ((3, "kronecker_delta3"), (4, "kronecker_delta4")):
        k = call(nm)
        if k is not None and not np.array_equal(k, I_like(n, shape)):
            note.fail(nm + ":value", dict(shape=list(np.shape(k))))
    # --- Levi-Civita ------------------------------------------------------
    for n, sym, ten in ((3, "levicivita_symbol_down3", "levicivita_down3"),
                        (4, "levicivita_symbol_down4", "levicivita_down4")):
        S = call(sym)
        T = call(ten)
        if S is None or T is None:
            continue
        if np.shape(S) != (n,) * n + shape or np.shape(T) != np.shape(S):
            note.fail(sym + ":shape", dict(got=list(np.shape(S))))
            continue
        want = np.zeros((n,) * n + shape)
        for perm in itertools.permutations(range(n)):
            inv = sum(1 for x in range(n) for y in range(x + 1, n)
                      if perm[x] > perm[y])
            want[perm] = -1.0 if inv % 2 else 1.0
        if not np.array_equal(S, want):
            note.fail(sym + ":value", {})
        # total antisymmetry of the tensor (exact) and its normalisation
        for x in range(n - 1):
            if not np.array_equal(T, -np.swapaxes(T, x, x + 1)):
                note.fail(ten + ":antisymmetry", dict(axes=[x, x + 1]))
        e0 = T[tuple(range(n))]
        if n == 3:
            cm.close(ten + ":normalisation", e0 / np.sqrt(r.vol),
                     np.sqrt(r.detGh), one, kap=1.0)
        else:
            # sqrt(-g) = alpha sqrt(gamma); gdet may come from either
            # branch, the det4 one has relative error eps*kappa4
            cm.close(ten + ":normalisation", e0 / (al * np.sqrt(r.vol)),
                     np.sqrt(r.detGh), np.sqrt(r.detGh), kap=r.kap4)
    note.worst = cm.worst


@st.composite
def helpers_case(draw):
    c = draw(core_case())
    c["st_first"] = draw(st.booleans())
    return c


# ---------------------------------------------------------------------------
# populate_4Riemann, symmetrise / antisymmetrise


@st.composite
def riemann_case(draw):
    return dict(
        shape=draw(st.sampled_from([[4, 5, 6], [2, 3, 4], [1, 2, 3],
                                    [3, 3, 3]])),
        seed=draw(st.integers(0, 2**31 - 1)),
        var=draw(st.sampled_from([0.0, 1.0])),
        G=[draw(st.one_of(st.just(0.0), fl(-2, 2))) for _ in range(6)],
        H=[draw(st.one_of(st.just(0.0), fl(-2, 2))) for _ in range(9)],
        E=[draw(st.one_of(st.just(0.0), fl(-2, 2))) for _ in range(6)],
        cyclic=draw(st.booleans()),
        rank2=[draw(fl(-2, 2)) for _ in range(4)],
        n=draw(st.sampled_from([3, 4])))


def eps3():
    e = np.zeros((3, 3, 3))
    e[0, 1, 2] = e[1, 2, 0] = e[2, 0, 1] = 1.0
    e[0, 2, 1] = e[2, 1, 0] = e[1, 0, 2] = -1.0
    return e


def test_riemann(case, note):
    shape = tuple(case["shape"])
    rng = np.random.default_rng(int(case["seed"]))
    var = case["var"]

    def fld(c):
        return c * (1.0 + 0.5 * var * rng.uniform(-1, 1, shape)) \
            + (0.0 if c == 0 else 0.3 * var * rng.uniform(-1, 1, shape))

    G = np.zeros((3, 3) + shape)
    E = np.zeros((3, 3) + shape)
    for n, (i, j) in enumerate(P.SYM3):
        G[i, j] = G[j, i] = fld(case["G"][n])
        E[i, j] = E[j, i] = fld(case["E"][n])
    H = np.array([fld(c) for c in case["H"]]).reshape((3, 3) + shape)
    if case["cyclic"]:
        tr = (H[0, 0] + H[1, 1] + H[2, 2]) / 3.0
        for i in range(3):
            H[i, i] = H[i, i] - tr
    e = eps3()
    # blocks with exactly the block symmetries (each entry a single product,
    # so the symmetries hold bit for bit)
    ssss = np.einsum('ijm,kln,mn...->ijkl...', e, e, G)
    ssst = np.einsum('ijm,mk...->ijk...', e, H)
    stst = E
    note.nt(bool(np.any(ssss != 0) and np.any(ssst != 0)
                 and np.any(stst != 0)))
    note.cls("cyclic" if case["cyclic"] else "non-cyclic")
    try:
        R = maths.populate_4Riemann(ssss.copy(), ssst.copy(), stst.copy())
    except Exception as ex:  # noqa: BLE001
        note.fail("populate_4Riemann:raises", dict(error=str(ex)))
        R = None
    if R is not None:
        if R.shape != (4, 4, 4, 4) + shape:
            note.fail("populate_4Riemann:shape", dict(got=list(R.shape)))
        else:
            if not np.array_equal(R, -np.swapaxes(R, 0, 1)):
                note.fail("populate_4Riemann:antisym12", {})
            if not np.array_equal(R, -np.swapaxes(R, 2, 3)):
                note.fail("populate_4Riemann:antisym34", {})
            if not np.array_equal(R, np.transpose(
                    R, (2, 3, 0, 1) + tuple(range(4, R.ndim)))):
                note.fail("populate_4Riemann:pair-symmetry", {})
            if not np.array_equal(R[1:, 1:, 1:, 1:], ssss):
                note.fail("populate_4Riemann:ssss-block", {})
            if not np.array_equal(R[1:, 1:, 1:, 0], ssst):
                note.fail("populate_4Riemann:ssst-block", {})
            if not np.array_equal(R[1:, 0, 1:, 0], stst):
                note.fail("populate_4Riemann:stst-block", {})
            if np.any(R[0, 0] != 0) or np.any(R[:, :, 0, 0] != 0):
                note.fail("populate_4Riemann:tt-pair-nonzero", {})
            if case["cyclic"]:
                cyc = (R + np.transpose(R, (0, 2, 3, 1) + tuple(
                    range(4, R.ndim))) + np.transpose(
                        R, (0, 3, 1, 2) + tuple(range(4, R.ndim))))
                tol = 16 * P.EPS * (np.max(np.abs(R)) + 1e-300)
                if np.max(np.abs(cyc)) > tol:
                    note.fail("populate_4Riemann:cyclic",
                              dict(max=float(np.max(np.abs(cyc)))))
    # --- symmetrise / antisymmetrise: complementary projectors ----------
    n = case["n"]
    T = rng.uniform(-1, 1, (n, n) + shape)
    for k, c in enumerate(case["rank2"]):
        T[k % n, (k * 2 + 1) % n] += c
    S = maths.symmetrise_tensor(T.copy())
    A = maths.antisymmetrise_tensor(T.copy())
    if S.shape != T.shape or A.shape != T.shape:
        note.fail("symmetrise:shape", {})
        return
    if not np.array_equal(S, np.swapaxes(S, 0, 1)):
        note.fail("symmetrise:not-symmetric", {})
    if not np.array_equal(A, -np.swapaxes(A, 0, 1)):
        note.fail("antisymmetrise:not-antisymmetric", {})
    if np.max(np.abs(S + A - T)) > 4 * P.EPS * np.max(np.abs(T)):
        note.fail("symmetrise:sum", dict(
            err=float(np.max(np.abs(S + A - T)))))
    if not np.array_equal(maths.symmetrise_tensor(S), S):
        note.fail("symmetrise:idempotent", {})
    if not np.array_equal(maths.antisymmetrise_tensor(A), A):
        note.fail("antisymmetrise:idempotent", {})
    if np.any(maths.antisymmetrise_tensor(S) != 0):
        note.fail("antisymmetrise:of-symmetric", {})
    if np.any(maths.symmetrise_tensor(A) != 0):
        note.fail("symmetrise:of-antisymmetric", {})
    want = np.zeros_like(T)
    for i in range(n):
        for j in range(n):
            want[i, j] = 0.5 * (T[i, j] + T[j, i])
    if not np.array_equal(S, want):
        note.fail("symmetrise:value", {})


# ---------------------------------------------------------------------------
# safe_division

KINDS = ["pyint", "pyfloat", "np_f64", "np_f32", "np_i32", "np_i64",
         "arr0d_f64", "arr_f64", "arr_f32", "arr_i32", "arr_i64"]
LAYOUTS = ["same", "b-grid-a-tensor", "a-grid-b-tensor", "b-row", "a-row",
           "1d"]


@st.composite
def sd_case(draw):
    return dict(a=draw(st.sampled_from(KINDS)), b=draw(st.sampled_from(KINDS)),
                layout=draw(st.sampled_from(LAYOUTS)),
                shape=draw(st.sampled_from([[4, 5, 6], [2, 3, 4], [1, 2, 3],
                                            [3, 1, 2]])),
                seed=draw(st.integers(0, 2**31 - 1)),
                zero_frac=draw(st.sampled_from([0.0, 0.3, 1.0])),
                a_zero_too=draw(st.booleans()),
                big_ints=draw(st.booleans()),
                bscalar_zero=draw(st.booleans()),
                neg_zero=draw(st.booleans()),
                # tiny but non-zero float64 magnitudes (10**tiny_exp): a
                # divisor is only "zero" when it IS zero
                tiny_exp=draw(st.sampled_from([0, 0, 0, -17, -30, -120,
                                               -250])))


def sd_operand(kind, shape, rng, zero_mask_frac, scalar_zero, big, negzero,
               tiny_exp=0):
    """value handed to safe_division and its exact float64 image"""
    integer = kind in ("pyint", "np_i32", "np_i64", "arr_i32", "arr_i64")
    if kind not in ("pyfloat", "np_f64", "arr0d_f64", "arr_f64"):
        tiny_exp = 0
    if kind.startswith("arr") and kind != "arr0d_f64":
        if integer:
            hi = 2**30 if big else 1000
            v = rng.integers(1, hi, size=shape) * rng.choice([-1, 1],
                                                             size=shape)
        else:
            v = 10.0 ** (rng.uniform(-3, 3, size=shape) + tiny_exp) \
                * rng.choice([-1.0, 1.0], size=shape)
        if zero_mask_frac > 0:
            z = rng.uniform(0, 1, size=shape) < zero_mask_frac
            v = np.where(z, 0, v)
            if negzero and not integer:
                v = np.where(z & (rng.uniform(0, 1, size=shape) < 0.5),
                             -0.0, v)
        dt = dict(arr_f64=np.float64, arr_f32=np.float32, arr_i32=np.int32,
                  arr_i64=np.int64)[kind]
        v = np.ascontiguousarray(v.astype(dt))
        return v, v.astype(np.float64)
    if integer:
        x = 0 if scalar_zero else int(rng.integers(1, 1000)) * int(
            rng.choice([-1, 1]))
    else:
        x = (-0.0 if negzero else 0.0) if scalar_zero else float(
            10.0 ** (rng.uniform(-3, 3) + tiny_exp)
            * rng.choice([-1.0, 1.0]))
    v = dict(pyint=int, pyfloat=float, np_f64=np.float64, np_f32=np.float32,
             np_i32=np.int32, np_i64=np.int64,
             arr0d_f64=lambda t: np.array(t, dtype=np.float64))[kind](x)
    return v, np.float64(v)


def test_safe_division(case, note):
    rng = np.random.default_rng(int(case["seed"]))
    shape = tuple(case["shape"])
    lay = case["layout"]
    sa, sb = shape, shape
    if lay == "b-grid-a-tensor":
        sa = (3, 3) + shape
    elif lay == "a-grid-b-tensor":
        sb = (3, 3) + shape
    elif lay == "b-row":
        sb = (shape[-1],)
    elif lay == "a-row":
        sa = (shape[-1],)
    elif lay == "1d":
        sa = sb = (shape[0] * shape[1],)
    # tiny magnitudes only when both operands are float64-wide: mixed with a
    # 32-bit operand numpy computes in float32, where 1e-120 *is* zero
    F64 = ("pyfloat", "np_f64", "arr0d_f64", "arr_f64")
    if not (case["a"] in F64 and case["b"] in F64):
        case = dict(case, tiny_exp=0)
    a, a64 = sd_operand(case["a"], sa, rng,
                        case["zero_frac"] if case["a_zero_too"] else 0.0,
                        case["a_zero_too"] and case["bscalar_zero"],
                        case["big_ints"], case["neg_zero"],
                        case.get("tiny_exp", 0))
    b, b64 = sd_operand(case["b"], sb, rng, case["zero_frac"],
                        case["bscalar_zero"], case["big_ints"],
                        case["neg_zero"], case.get("tiny_exp", 0))
    if case.get("tiny_exp", 0):
        note.cls("tiny-nonzero-divisor")
    note.cls("a=" + case["a"], "b=" + case["b"], "layout=" + lay)
    haszero = bool(np.any(b64 == 0))
    note.nt(haszero)
    if haszero and np.any(b64 != 0):
        note.cls("mixed-zero-nonzero-divisor")
    both = f"{case['a']}/{case['b']}"
    a_in = a.copy() if isinstance(a, np.ndarray) else a
    b_in = b.copy() if isinstance(b, np.ndarray) else b
    with warnings.catch_warnings(record=True) as w:
        warnings.simplefilter("always")
        try:
            with np.errstate(all='warn'):
                c = maths.safe_division(a, b)
        except Exception as e:  # noqa: BLE001
            note.fail("safe_division:raises", dict(kinds=both,
                                                   error=f"{type(e).__name__}"
                                                   f": {e}"))
            return
    if w:
        note.fail("safe_division:warning",
                  dict(kinds=both, warning=str(w[0].message)))
    # inputs untouched
    if isinstance(a, np.ndarray) and not (np.array_equal(a, a_in)
                                          and a.dtype == a_in.dtype):
        note.fail("safe_division:modifies-a", dict(kinds=both))
    if isinstance(b, np.ndarray) and not (np.array_equal(b, b_in)
                                          and b.dtype == b_in.dtype):
        note.fail("safe_division:modifies-b", dict(kinds=both))
    want_shape = np.broadcast(a64, b64).shape
    if np.shape(c) != want_shape:
        note.fail("safe_division:shape", dict(kinds=both,
                                              got=list(np.shape(c)),
                                              want=list(want_shape)))
        return
    c64 = np.asarray(c, dtype=np.float64)
    A, B = np.broadcast_arrays(a64, b64)
    c64 = np.broadcast_to(c64, A.shape)
    z = (B == 0)
    wide = all(k in ("pyint", "pyfloat", "np_f64", "np_i64", "arr0d_f64",
                     "arr_f64", "arr_i64") for k in (case["a"], case["b"]))
    tag = "64" if wide else "32"
    if np.any(~np.isfinite(c64)):
        note.fail("safe_division:nonfinite:" + tag, dict(kinds=both))
    if np.any(c64[z] != 0):
        note.fail("safe_division:zero-divisor:" + tag,
                  dict(kinds=both, got=float(c64[z].flat[0])))
    nz = ~z
    if np.any(nz):
        want = A[nz] / B[nz]
        rtol = 4 * P.EPS if wide else 1e-6
        err = np.abs(c64[nz] - want)
        if np.any(err > rtol * np.abs(want)):
            k = int(np.argmax(err / np.abs(want) if np.all(want != 0)
                              else err))
            note.fail("safe_division:quotient:" + tag,
                      dict(kinds=both, got=float(c64[nz][k]),
                           want=float(want[k])))


def sd_generic():
    out = []
    k = 0
    for a in KINDS:
        for b in KINDS:
            for bz in (True, False):
                out.append(dict(a=a, b=b, layout=LAYOUTS[k % len(LAYOUTS)],
                                shape=[2, 3, 4], seed=1000 + k,
                                zero_frac=0.3, a_zero_too=bool(k % 2),
                                big_ints=bool(k % 3 == 0), bscalar_zero=bz,
                                neg_zero=bool(k % 5 == 0),
                                tiny_exp=[0, -17, -120][k % 3]))
                k += 1
    return out


# ---------------------------------------------------------------------------


# ---------------------------------------------------------------------------
# assembled 4D Riemann / Weyl tensors on spatially homogeneous data: every
# finite difference vanishes identically, so the algebraic symmetries must
# hold to round-off (on inhomogeneous data they only hold to truncation
# error: that is checked at convergence level by C04 / C10)


@st.composite
def homog_case(draw):
    fl = lambda lo, hi: st.floats(lo, hi, allow_nan=False, width=64)  # noqa
    L = [[draw(fl(0.6, 1.6)) if i == j else (draw(fl(-0.6, 0.6)) if j < i
                                            else 0.0) for j in range(3)]
         for i in range(3)]
    return dict(L=L, alpha=draw(fl(0.5, 2.0)),
                beta=[draw(fl(-0.8, 0.8)) for _ in range(3)],
                K=[draw(fl(-1, 1)) for _ in range(6)],
                T=[draw(fl(-1, 1)) for _ in range(10)],
                Lambda=draw(st.sampled_from([0.0, 0.7, -0.4])),
                vacuum=draw(st.sampled_from([False, False, True])),
                supplyT=draw(st.booleans()),
                order=draw(st.sampled_from([2, 4])))


def test_homog(case, note):
    from harness.aurelside import make_fd
    fd = make_fd([5, 6, 5], [0.0, 0.0, 0.0], [0.5, 0.25, 0.5],
                 case["order"], "periodic")
    one = np.ones(fd.x.shape)
    Lm = np.array(case["L"])
    gam = Lm @ Lm.T
    data = dict(alpha=case["alpha"] * one)
    for i, c in enumerate("xyz"):
        data["beta" + c] = case["beta"][i] * one
    idx = [(0, 0, "xx"), (0, 1, "xy"), (0, 2, "xz"), (1, 1, "yy"),
           (1, 2, "yz"), (2, 2, "zz")]
    for n, (i, j, sfx) in enumerate(idx):
        data["g" + sfx] = gam[i, j] * one
        data["k" + sfx] = case["K"][n] * one
    vac = bool(case["vacuum"])
    if case["supplyT"] and not vac:
        T4 = np.zeros((4, 4))
        it = iter(case["T"])
        for a in range(4):
            for b in range(a, 4):
                T4[a, b] = T4[b, a] = next(it)
        data["Tdown4"] = T4.reshape(4, 4, 1, 1, 1) * one
    note.nt(any(abs(b) > 0.1 for b in case["beta"]) and not vac)
    note.cls(f"Lambda={case['Lambda']}", f"vac={vac}",
             "T-supplied" if "Tdown4" in data else "T-default")

    def symdefects(C, name, eps):
        sc = max(float(np.max(np.abs(C))), 1e-3)
        for nm, D in (
                ("antisym12", C + np.einsum('abcd...->bacd...', C)),
                ("antisym34", C + np.einsum('abcd...->abdc...', C)),
                ("pairsym", C - np.einsum('abcd...->cdab...', C)),
                ("cyclic", C + np.einsum('abcd...->acdb...', C)
                 + np.einsum('abcd...->adbc...', C))):
            e = float(np.max(np.abs(D)))
            if e > eps * sc:
                note.fail(f"{name}:{nm}", dict(err=e, scale=sc))
    relA = make_rel(fd, {k: v.copy() for k, v in data.items()},
                    Lambda=case["Lambda"], vacuum=vac)
    R = relA["st_Riemann_down4"]
    symdefects(R, "st_Riemann_down4", 1e-11)
    Wr = relA["st_Weyl_down4"]            # Riemann-based branch
    symdefects(Wr, "st_Weyl_down4:riemann-branch", 1e-11)
    relB = make_rel(fd, {k: v.copy() for k, v in data.items()},
                    Lambda=case["Lambda"], vacuum=vac)
    We = relB["st_Weyl_down4"]            # E/B branch
    symdefects(We, "st_Weyl_down4:eb-branch", 1e-11)
    tr = np.einsum('ac...,abcd...->bd...', relB["gup4"], We)
    sc = max(float(np.max(np.abs(We))), 1e-3)
    if float(np.max(np.abs(tr))) > 1e-10 * sc * 10:
        note.fail("st_Weyl_down4:eb-branch:tracefree",
                  dict(err=float(np.max(np.abs(tr))), scale=sc))


# ---------------------------------------------------------------------------
# the kinematic decomposition of a fluid moving through the slicing


@st.composite
def kin_case(draw):
    c = draw(homog_case())
    c["speed"] = draw(st.one_of(st.just(0.0), st.floats(0.05, 0.9)))
    c["dir"] = [draw(st.floats(-1, 1)) for _ in range(3)]
    c["wiggle"] = draw(st.sampled_from([0.0, 0.05, 0.2]))
    c["form"] = draw(st.sampled_from(["components", "tensors"]))
    return c


def test_kinematic(case, note):
    """theta_ab = sigma_ab + theta h_ab / 3 with sigma trace-free with
    respect to h^ab (the projector orthogonal to the fluid, not to the
    slicing), sigma and theta_ab symmetric, omega antisymmetric: round-off
    identities for any data, smooth or not."""
    from harness.aurelside import make_fd
    fd = make_fd([6, 7, 5], [0.0, 0.0, 0.0], [0.5, 0.25, 0.5],
                 case["order"], "periodic")
    one = np.ones(fd.x.shape)
    w = case["wiggle"]
    mod = [1.0 + w * np.sin(2 * np.pi * (fd.x / 3.0 + k * fd.y / 1.75
                                         - fd.z / 2.5) + k)
           for k in range(4)]
    Lm = np.array(case["L"])
    gam0 = Lm @ Lm.T
    gam = gam0.reshape(3, 3, 1, 1, 1) * mod[0]
    K = np.zeros((3, 3) + fd.x.shape)
    idx = [(0, 0), (0, 1), (0, 2), (1, 1), (1, 2), (2, 2)]
    for n, (i, j) in enumerate(idx):
        K[i, j] = K[j, i] = case["K"][n] * mod[1 + n % 3]
    alpha = case["alpha"] * mod[1]
    beta = np.array([case["beta"][i] * mod[(i + 2) % 4] for i in range(3)])
    dvec = np.array(case["dir"], float)
    if np.linalg.norm(dvec) < 1e-3:
        dvec = np.array([1.0, 0.0, 0.0])
    nrm = np.sqrt(np.einsum('i,j,ij...->...', dvec, dvec, gam))
    sp = case["speed"] * (0.6 + 0.4 * mod[3] / (1 + w))
    v = sp * dvec.reshape(3, 1, 1, 1) / nrm
    W = 1.0 / np.sqrt(1.0 - sp ** 2)
    if case["form"] == "tensors":
        data = dict(gammadown3=gam, Kdown3=K, alpha=alpha, betaup3=beta)
    else:
        data = dict(alpha=alpha)
        for i, c in enumerate("xyz"):
            data["beta" + c] = beta[i]
        for (i, j) in idx:
            data["g" + "xyz"[i] + "xyz"[j]] = gam[i, j].copy()
            data["k" + "xyz"[i] + "xyz"[j]] = K[i, j].copy()
    data.update(velx=v[0], vely=v[1], velz=v[2], w_lorentz=W * one)
    del one
    rel = make_rel(fd, data, Lambda=case["Lambda"])
    note.nt(case["speed"] > 0.1 and any(abs(b) > 0.1 for b in case["beta"]))
    note.cls("moving-fluid" if case["speed"] > 0 else "u=n",
             f"wiggle={w}", case["form"])
    keys = {}
    for k in ("uup4", "gdown4", "gup4", "thetadown4", "theta", "sheardown4",
              "omegadown4", "hdown4", "hup4"):
        keys[k] = get(rel, note, k)
        if keys[k] is None:
            return
        if k in ("uup4", "gdown4", "gup4"):
            keys[k] = np.array(keys[k], copy=True)   # value at first read
    u, g, gi = keys["uup4"], keys["gdown4"], keys["gup4"]
    # harness-side projector from the metric and the velocity
    ud = np.einsum('ab...,b...->a...', g, u)
    hup = gi + np.einsum('a...,b...->ab...', u, u)
    hdn = g + np.einsum('a...,b...->ab...', ud, ud)
    th, sig, om = keys["thetadown4"], keys["sheardown4"], keys["omegadown4"]
    sc = float(np.max(np.abs(th))) * float(np.max(np.abs(hup))) \
        * max(1.0, float(np.max(np.abs(hdn)))) + 1e-3
    tol = 1e-10 * sc * float(np.max(W)) ** 2

    def chk(disc, arr):
        e = float(np.max(np.abs(arr)))
        if not e <= tol:
            note.fail(disc, dict(err=e, scale=sc, speed=case["speed"]))
    chk("sheardown4:trace-free-wrt-h", np.einsum('ab...,ab...->...', hup,
                                                 sig))
    chk("sheardown4:symmetric", sig - np.swapaxes(sig, 0, 1))
    # (orthogonality of theta_ab and sigma_ab to u is NOT algebraic: only the
    # derivative index of nabla_a u_b is projected, and u^b nabla_a u_b = 0
    # holds to truncation error of the finite differences only)
    chk("theta:trace-of-thetadown4",
        keys["theta"] - np.einsum('ab...,ab...->...', hup, th))
    chk("thetadown4:decomposition",
        th - sig - keys["theta"] * hdn / 3.0)
    chk("omegadown4:antisymmetric", om + np.swapaxes(om, 0, 1))
    # the metric read again after everything built from it
    for k in ("gup4", "gdown4", "uup4"):
        again = get(rel, note, k)
        if again is not None and not np.array_equal(again, keys[k]):
            note.fail(f"{k}:changed-after-dependants",
                      dict(maxdiff=float(np.max(np.abs(again - keys[k])))))
    gi2 = get(rel, note, "gup4")
    if gi2 is not None:
        chk("gup4:inverse-after-dependants",
            (np.einsum('ac...,cb...->ab...', gi2, g)
             - np.eye(4).reshape(4, 4, 1, 1, 1)) * float(np.max(np.abs(th))))
    chk("hdown4:value", (keys["hdown4"] - hdn) * float(np.max(np.abs(th))))
    chk("hup4:value", (keys["hup4"] - hup) * float(np.max(np.abs(th))))


def subchecks(tier):
    q = tier == "quick"
    g3 = [dict(P.GENERIC_GEO, aslist=False), dict(P.GENERIC_GEO2, aslist=True)]
    g4 = [dict(shape=[4, 5, 6], seed=5, var=1.0,
               coef=[0.3, -0.7, 0.5, 0.2, -0.4, 0.9, -0.6, 0.8, 0.35, -0.55],
               logs=[1.0, -2.0, 0.5, 2.5], kind=k, aslist=bool(i % 2))
          for i, k in enumerate(["random", "spd", "lorentz",
                                 "zero-diagonal"])]
    gr = [dict(shape=[4, 5, 6], seed=9, var=1.0,
               G=[0.5, -1.2, 0.7, 1.5, -0.3, 0.9],
               H=[0.4, -0.8, 1.1, 0.6, -1.4, 0.2, 0.9, -0.5, 1.3],
               E=[1.0, -0.6, 0.3, -1.1, 0.8, 0.45], cyclic=cy,
               rank2=[0.5, -1.0, 1.5, 0.25], n=n)
          for cy, n in ((True, 3), (False, 4))]
    gh = [dict(c, st_first=i % 2 == 0)
          for i, c in enumerate(generic_core())]
    # defaults omitted with a vanishing beta^x (documented default)
    gh.append(dict(P.GENERIC_GEO, bamp=[0.0, -1.1, 0.4], form="components",
                   omit=True, g4first=False, st_first=True))
    return [
        Sub("maths3", maths3_case(), test_maths3, 800 if q else 15000,
            generic=g3, shards=8 if q else 16),
        Sub("maths4", maths4_case(), test_maths4, 800 if q else 15000,
            generic=g4, shards=8 if q else 16),
        Sub("metric", core_case(), test_metric, 560 if q else 12000,
            generic=generic_core(), shards=8 if q else 16),
        Sub("curv", core_case(), test_curv, 560 if q else 12000,
            generic=generic_core(), shards=8 if q else 16),
        Sub("helpers", helpers_case(), test_helpers, 400 if q else 8000,
            generic=gh, shards=8 if q else 16),
        Sub("riemann", riemann_case(), test_riemann, 240 if q else 4000,
            generic=gr, shards=8 if q else 16),
        Sub("riemann_weyl_homogeneous", homog_case(), test_homog,
            120 if q else 3000, shards=8 if q else 16),
        Sub("kinematic_parts", kin_case(), test_kinematic,
            60 if q else 3000, shards=4 if q else 16),
        Sub("safe_division", sd_case(), test_safe_division,
            2400 if q else 40000, generic=sd_generic(),
            shards=8 if q else 16),
    ]
