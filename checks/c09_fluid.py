"""C09 - fluid variables yield the textbook stress-energy tensor and Eulerian
projections.  DESIGN.md section 4, C09 (comparison rule 3.4 "round-off")."""
import numpy as np
from hypothesis import strategies as st

import aurel  # noqa: F401
from harness import pointwise as P
from harness.aurelside import make_rel
from harness.common import HarnessError, Sub
from harness.pointwise import I_like, Ref, mm

PROPERTY = "C09"
RULE = (
    "Hypothesis draws the geometry record of C08 with moderate conditioning "
    "(off-diagonal strength <= 1.5, metric scales 1e-2..1e2, lapse "
    "1e-2..1e2, shift amplitudes up to 2*alpha) and a fluid record: rho0 "
    ">= 0 (zero included), eps in [-0.5,3], pressure (zero / negative "
    "included), Eulerian speed s in [0,0.95) and a direction, so that v^i = "
    "s n^i/|n|_gamma has gamma_ij v^i v^j = s^2 < 1 by construction and W = "
    "(1-s^2)^(-1/2) is supplied consistently; which of rho0/eps/rho are "
    "supplied (6 documented combinations), whether defaults are omitted, "
    "the request order (Tdown4 before/after Ttrace), Lambda, Einstein's "
    "constant (8 pi, 1, 2.5) and whether the velocity is supplied as "
    "velx/vely/velz or as the tensor key velup3. Sub-check "
    "'tensor' supplies an arbitrary symmetric T_mu_nu directly instead. "
    "Arrays are a pure function of the record. Non-trivial: |alpha-1| > "
    "0.05 everywhere, at least one shift component with |beta^i| > 0.05 "
    "alpha/sqrt(gamma_ii), and (fluid sub-checks) s > 0.1.")
ASSUMPTIONS = [
    "round-off rule |a-b| <= c*eps*kappa*scale, c = 256, evaluated at every "
    "grid point in the diagonally equilibrated frame (see C08); kappa from "
    "numpy.linalg on the equilibrated 3-metric / 4-metric; scale = product "
    "of the max-magnitudes of the factors in the formula",
    "textbook definitions used by the oracle: u^mu = W(n^mu + v^mu), "
    "u_mu = g_mu_nu u^nu, h_mu_nu = g_mu_nu + u_mu u_nu, T_mu_nu = rho "
    "u_mu u_nu + p h_mu_nu with rho = rho0(1+eps), E = T_mu_nu n^mu n^nu, "
    "S_i = -gamma_i^mu n^nu T_mu_nu, S_ij = gamma_i^mu gamma_j^nu T_mu_nu, "
    "p_n = S/3, pi_ij = S_ij - gamma_ij S/3, J_i = eps_ijk x^j S^k with "
    "eps_ijk = sqrt(gamma)[ijk]",
    "'Wilson's formalism' (descriptions.yml) is taken as D = rho0 W "
    "sqrt(gamma), E = D eps, S_mu = D h u_mu (densitised with sqrt(gamma), "
    "the form aurel's own dtconserved evolves)",
    "enthalpy h = 1 + eps + p/rho0; where rho0 = 0 the documented "
    "safe-division convention p/0 = 0 applies",
    "alternative inputs: rho0 = rho/(1+eps) when rho is supplied without "
    "rho0; eps = rho/rho0 - 1 when both are supplied without eps (claimed "
    "only where rho0 > 0); rho = rho0(1+eps) otherwise",
    "when aurel's Tdown4 is wrong the Eulerian projections are compared "
    "with independent projections of the Tdown4 aurel produced (so that one "
    "root cause is one finding and a second defect is not masked); when it "
    "is right they are compared with the closed forms E = rho h W^2 - p ...",
    "st_Ricci_down4/3 from T (Einstein equations R = Lambda g + kappa (T - "
    "T g/2), kappa = 8 pi) are included as the 'alternative derivation' "
    "clause; they are requested only when Tdown4 is in the data dictionary",
]

fl = P.qfloat
C = 256.0
KAPPA = 8 * np.pi
COMBOS = ["rho0+eps", "rho+eps", "rho+rho0", "rho+rho0+eps", "rho-only",
          "rho0-only"]


# ---------------------------------------------------------------------------
# generator


def geo():
    return P.geometry_strategy(max_offdiag=1.5, logscale=2.0)


@st.composite
def fluid_case(draw):
    c = draw(geo())
    c["form"] = draw(st.sampled_from(["tensors", "components"]))
    c["omit"] = draw(st.booleans())
    c["logrho"] = draw(fl(-2.0, 2.0))
    c["rho0_zero"] = draw(st.sampled_from([False, False, False, True]))
    c["eps"] = draw(st.one_of(st.just(0.0), fl(-0.5, 3.0)))
    c["pamp"] = draw(st.one_of(st.just(0.0), fl(-1.0, 3.0)))
    c["speed"] = draw(st.one_of(st.just(0.0), fl(0.0, 0.949),
                                fl(0.2, 0.949), fl(0.6, 0.949)))
    c["dir"] = [draw(fl(-1.0, 1.0)) for _ in range(3)]
    c["combo"] = draw(st.sampled_from(COMBOS))
    c["T_first"] = draw(st.booleans())
    c["vel_form"] = draw(st.sampled_from(["components", "components",
                                          "velup3"]))
    c["Lambda"] = draw(st.sampled_from([0.0, 0.0, 0.7, -1.3]))
    c["kappa"] = draw(st.sampled_from([KAPPA, KAPPA, 1.0, 2.5]))
    return c


@st.composite
def tensor_case(draw):
    c = draw(geo())
    c["form"] = draw(st.sampled_from(["tensors", "components"]))
    c["omit"] = draw(st.booleans())
    c["logT"] = draw(fl(-2.0, 2.0))
    c["Tc"] = [draw(fl(-1.0, 1.0)) for _ in range(10)]
    c["Lambda"] = draw(st.sampled_from([0.0, 0.0, 0.7, -1.3]))
    c["kappa"] = draw(st.sampled_from([KAPPA, KAPPA, 1.0, 2.5]))
    return c


GEN_FLUID = dict(logrho=0.4, rho0_zero=False, eps=0.35, pamp=0.6,
                 speed=0.6, dir=[0.5, -0.8, 0.3], T_first=True, Lambda=0.7)
GENERIC_GEOS = [
    dict(P.GENERIC_GEO, offdiag=1.2, logs=[1.0, -1.5, 0.5]),
    dict(P.GENERIC_GEO2, offdiag=1.4, logs=[-2.0, 2.0, 0.0]),
]


def generic_fluid():
    out = []
    k = 0
    for g in GENERIC_GEOS:
        for combo in COMBOS:
            c = dict(g)
            c.update(GEN_FLUID)
            c.update(form=["tensors", "components"][k % 2], omit=False,
                     combo=combo, T_first=bool(k % 2),
                     speed=[0.6, 0.9, 0.3][k % 3])
            out.append(c)
            k += 1
    return out


def generic_tensor():
    out = []
    for k, g in enumerate(GENERIC_GEOS):
        c = dict(g)
        c.update(form=["tensors", "components"][k % 2], omit=False,
                 logT=0.3 * (k + 1), Lambda=[0.7, 0.0][k],
                 Tc=[0.9, -0.4, 0.6, 0.3, 0.7, -0.5, 0.2, 0.8, -0.3, 0.5])
        out.append(c)
    return out


def fluid_fields(case, f, r):
    """Fluid arrays (pure function of the record)."""
    rng, var, shape = f["rng"], f["var"], f["shape"]

    def noise():
        return rng.uniform(-1.0, 1.0, size=shape)

    rho0 = 10.0 ** case["logrho"] * (1.0 + 0.5 * var * noise())
    if case["rho0_zero"]:
        # vacuum region: rho0 = 0 on part of the grid (all of it if var = 0)
        rho0 = np.where(noise() * var < 0.2, 0.0, rho0)
    eps = case["eps"] * (1.0 + 0.3 * var * noise())
    press = case["pamp"] * 10.0 ** case["logrho"] * (1.0 + 0.5 * var
                                                      * noise())
    s = case["speed"] * (1.0 - 0.5 * var * np.abs(noise()))
    n = np.array([case["dir"][i] + 0.5 * var * noise() for i in range(3)])
    if not np.any(n):
        n[0] = 1.0
    nh = n / r.d                       # a vector with upper index
    nrm = np.sqrt(np.einsum('ij...,i...,j...->...', f["gamma"], nh, nh))
    nrm = np.where(nrm > 0, nrm, 1.0)
    vel = s * nh / nrm
    v2 = np.einsum('ij...,i...,j...->...', f["gamma"], vel, vel)
    if not np.all(v2 < 0.95**2 + 1e-9):
        raise HarnessError("generator produced |v| >= 0.95")
    W = 1.0 / np.sqrt(1.0 - s**2)
    W = np.where(s == 0, 1.0, W)
    return dict(rho0=rho0, eps=eps, press=press, vel=vel, W=W, s=s,
                rho=rho0 * (1.0 + eps))


def fluid_inputs(case, fl_):
    d = {}
    combo = case["combo"]
    if combo in ("rho0+eps", "rho0-only", "rho+rho0", "rho+rho0+eps"):
        d["rho0"] = fl_["rho0"].copy()
    if combo in ("rho0+eps", "rho+eps", "rho+rho0+eps"):
        d["eps"] = fl_["eps"].copy()
    if combo in ("rho+eps", "rho+rho0", "rho+rho0+eps", "rho-only"):
        d["rho"] = fl_["rho"].copy()
    d["press"] = fl_["press"].copy()
    d["w_lorentz"] = fl_["W"].copy()
    if case.get("vel_form") == "velup3":
        # the velocity as one array under its tensor name (as gammadown3,
        # betaup3, Kdown3 may be)
        d["velup3"] = np.array([fl_["vel"][i] for i in range(3)])
        if case["omit"] and np.all(d["w_lorentz"] == 1.0):
            del d["w_lorentz"]
        return d
    for i, a in enumerate("xyz"):
        d["vel" + a] = fl_["vel"][i].copy()
    if case["omit"]:
        defaults = dict(w_lorentz=1.0)
        for k in ("press", "w_lorentz", "velx", "vely", "velz"):
            if np.all(d[k] == defaults.get(k, 0.0)):
                del d[k]
    return d


def effective_fluid(case, fl_):
    """What the documented definitions make of the supplied combination."""
    combo = case["combo"]
    rho0, eps, rho = fl_["rho0"], fl_["eps"], fl_["rho"]
    if combo == "rho0-only":
        eps = np.zeros_like(eps)
        rho = rho0.copy()
    elif combo == "rho-only":
        eps = np.zeros_like(eps)
        rho0 = rho.copy()
    elif combo == "rho+eps":
        with np.errstate(all='ignore'):
            rho0 = np.where(1 + eps != 0, rho / (1 + eps), 0.0)
    elif combo == "rho+rho0":
        with np.errstate(all='ignore'):
            eps = np.where(rho0 != 0, rho / rho0 - 1.0, np.nan)
    return dict(fl_, rho0=rho0, eps=eps, rho=rho)


# ---------------------------------------------------------------------------
# independent projections of a stress-energy tensor (textbook 3+1)


def project(T, r, coords, Lambda, kappa=KAPPA):
    al, bu = r.al, r.bu
    out = {}
    out["rho_n"] = (T[0, 0] - 2 * sum(bu[i] * T[0, i + 1] for i in range(3))
                    + sum(bu[i] * bu[j] * T[i + 1, j + 1]
                          for i in range(3) for j in range(3))) / al**2
    Sd = np.array([-(T[i + 1, 0] - sum(bu[j] * T[i + 1, j + 1]
                                      for j in range(3))) / al
                   for i in range(3)])
    out["fluxdown3_n"] = Sd
    Su = np.einsum('ij...,j...->i...', r.gup, Sd)
    out["fluxup3_n"] = Su
    Sij = T[1:, 1:].copy()
    out["Stressdown3_n"] = Sij
    out["Stressup3_n"] = mm(mm(r.gup, Sij), r.gup)
    S = np.einsum('ij...,ij...->...', r.gup, Sij)
    out["Stresstrace_n"] = S
    out["press_n"] = S / 3.0
    out["anisotropic_press_down3_n"] = Sij - r.gam * S / 3.0
    out["Ttrace"] = np.einsum('ab...,ab...->...', r.g4u, T)
    out["Tup4"] = mm(mm(r.g4u, T), r.g4u)
    sg = np.sqrt(r.detgam)
    e = np.zeros((3, 3, 3))
    e[0, 1, 2] = e[1, 2, 0] = e[2, 0, 1] = 1.0
    e[0, 2, 1] = e[2, 1, 0] = e[1, 0, 2] = -1.0
    Jd = sg * np.einsum('ijk,j...,k...->i...', e, coords, Su)
    out["angmomdown3_n"] = Jd
    out["angmomup3_n"] = np.einsum('ij...,j...->i...', r.gup, Jd)
    out["st_Ricci_down4"] = Lambda * r.g4 + kappa * (T - 0.5 * out["Ttrace"]
                                                     * r.g4)
    return out


def closed_forms(fe, r, coords, Lambda):
    """Closed forms for a perfect fluid (property text)."""
    rho, p, W, vu = fe["rho"], fe["press"], fe["W"], fe["vel"]
    vd = np.einsum('ij...,j...->i...', r.gam, vu)
    rhW2 = (rho + p) * W**2            # rho0 h W^2 with rho0 h = rho + p
    out = {}
    out["rho_n"] = rhW2 - p
    out["fluxup3_n"] = rhW2 * vu
    out["fluxdown3_n"] = rhW2 * vd
    Sij = rhW2 * np.einsum('i...,j...->ij...', vd, vd) + p * r.gam
    out["Stressdown3_n"] = Sij
    out["Stressup3_n"] = rhW2 * np.einsum('i...,j...->ij...', vu, vu) \
        + p * r.gup
    S = (rho + p) * (W**2 - 1.0) + 3 * p
    out["Stresstrace_n"] = S
    out["press_n"] = S / 3.0
    out["anisotropic_press_down3_n"] = Sij - r.gam * S / 3.0
    out["Ttrace"] = -rho + 3 * p
    return out


SPEC = {  # key -> (index pattern in the equilibrated 3-frame or 4-frame)
    "rho_n": "", "fluxup3_n": "u", "fluxdown3_n": "d", "Stressup3_n": "uu",
    "Stressdown3_n": "dd", "Stresstrace_n": "", "press_n": "",
    "anisotropic_press_down3_n": "dd", "angmomdown3_n": "d",
    "angmomup3_n": "u"}


# ---------------------------------------------------------------------------


def setup(case, note, extra):
    f = P.fields(case)
    r = Ref(f)
    data = P.geo_inputs(f, case["form"], case["omit"])
    note.cls("form=" + case["form"])
    nb = int(sum(1 for b in case["bamp"] if b != 0.0))
    note.cls(f"shift-components={nb}")
    if np.any(r.g4[0, 0] > 0):
        note.cls("superluminal-shift")
    note.cls("cond2=1e%d" % int(np.floor(np.log10(max(1.0, float(np.max(
        r.c2)))))))
    if case["Lambda"] != 0:
        note.cls("Lambda!=0")
    geo_nt = bool(np.all(np.abs(r.al - 1) > 0.05)
                  and np.any(np.all(np.abs(r.bh) > 0.05, axis=(1, 2, 3))))
    cm = P.Cmp(note, r.kap, c=C)
    return f, r, data, cm, geo_nt


class _Silent:
    def fail(self, *a, **k):
        pass


def get(rel, note, key):
    try:
        with np.errstate(all='ignore'):
            return rel[key]
    except Exception as e:  # noqa: BLE001
        note.fail(f"{key}:raises", dict(error=f"{type(e).__name__}: {e}"))
        return None


def check_projections(note, cm, rel, r, want, Tscale, coords, tag,
                      skip=()):
    """Eulerian projections of aurel against `want` (natural frame)."""
    d, b, Gi = r.d, r.b, r.Gi
    X = P.amax(P.eq(coords, 'u', d), 1)
    TS = Tscale                           # max |T^| in frame A (grid array)
    nb = (1 + b)
    scales = {
        "rho_n": TS * nb**2, "fluxup3_n": Gi * TS * nb,
        "fluxdown3_n": Gi * TS * nb, "Stressup3_n": Gi**2 * TS,
        "Stressdown3_n": Gi**2 * TS, "Stresstrace_n": Gi * TS,
        "press_n": Gi * TS, "anisotropic_press_down3_n": Gi**2 * TS,
        "angmomdown3_n": Gi * TS * nb * X,
        "angmomup3_n": Gi**2 * TS * nb * X}
    got = {}
    for key, idx in SPEC.items():
        if key in skip or key not in want:
            continue
        v = get(rel, note, key)
        if v is None:
            continue
        got[key] = v
        cm.close(f"{key}:{tag}", P.eq(v, idx, d), P.eq(want[key], idx, d),
                 scales[key], kap=r.kap3)
    # internal relations the descriptions state
    if "anisotropic_press_down3_n" in got:
        pih = P.eq(got["anisotropic_press_down3_n"], 'dd', d)
        cm.close("anisotropic_press_down3_n:tracefree",
                 np.einsum('ij...,ij...->...', r.Ghi, pih),
                 np.zeros(r.shape), Gi**3 * TS, kap=r.kap3)
    if "press_n" in got and "Stresstrace_n" in got:
        cm.close("press_n:third-of-trace", 3 * got["press_n"],
                 got["Stresstrace_n"], Gi * TS, kap=1.0)
    if "fluxup3_n" in got and "fluxdown3_n" in got:
        cm.close("fluxdown3_n:pair", P.eq(got["fluxdown3_n"], 'd', d),
                 np.einsum('ij...,j...->i...', r.Gh,
                           P.eq(got["fluxup3_n"], 'u', d)),
                 Gi * TS * nb, kap=r.kap3)
    if "Stressup3_n" in got and "Stressdown3_n" in got:
        cm.close("Stressdown3_n:pair", P.eq(got["Stressdown3_n"], 'dd', d),
                 mm(mm(r.Gh, P.eq(got["Stressup3_n"], 'uu', d)), r.Gh),
                 Gi**2 * TS, kap=r.kap3)
    if "angmomup3_n" in got and "angmomdown3_n" in got:
        cm.close("angmomup3_n:pair", P.eq(got["angmomdown3_n"], 'd', d),
                 np.einsum('ij...,j...->i...', r.Gh,
                           P.eq(got["angmomup3_n"], 'u', d)),
                 Gi**2 * TS * nb * X, kap=r.kap3)
    return got


def check_T4(note, cm, rel, r, T, want, tag, Lambda, ricci3_first=True,
             kappa=KAPPA):
    """Tup4, Ttrace (trace4 branch), Ricci from T; frame S."""
    e4 = r.e4
    Ts = P.eq(T, 'dd', e4)
    TS = P.amax(Ts, 2)
    # the else-branch of st_Ricci_down3 (st_Ricci_down4 not cached yet)
    want_R = want["st_Ricci_down4"]
    Rs = np.abs(Lambda) + kappa * TS * (1 + 8 * r.M4us)
    if ricci3_first:
        R3 = get(rel, note, "st_Ricci_down3")
        if R3 is not None:
            cm.close("st_Ricci_down3:from-T", P.eq(R3, 'dd', e4[1:]),
                     P.eq(want_R[1:, 1:], 'dd', e4[1:]), Rs, kap=r.kap4)
    R4 = get(rel, note, "st_Ricci_down4")
    if R4 is not None:
        cm.close("st_Ricci_down4:from-T", P.eq(R4, 'dd', e4),
                 P.eq(want_R, 'dd', e4), Rs, kap=r.kap4)
    if not ricci3_first:
        R3 = get(rel, note, "st_Ricci_down3")
        if R3 is not None and R4 is not None and not np.array_equal(
                R3, R4[1:, 1:]):
            note.fail("st_Ricci_down3:from-Ricci4", {})
    Tu = get(rel, note, "Tup4")
    if Tu is not None:
        cm.close(f"Tup4:{tag}", P.eq(Tu, 'uu', e4), P.eq(want["Tup4"], 'uu',
                                                         e4),
                 r.M4us**2 * TS, kap=r.kap4)
        # lowering it again gives Tdown4 back
        cm.close("Tup4:pair", mm(mm(r.g4s, P.eq(Tu, 'uu', e4)), r.g4s), Ts,
                 r.M4us**2 * TS, kap=r.kap4)


def test_fluid(case, note):
    f, r, data, cm, geo_nt = setup(case, note, None)
    fl_ = fluid_fields(case, f, r)
    fe = effective_fluid(case, fl_)
    data.update(fluid_inputs(case, fl_))
    rel = make_rel(f["fd"], data, Lambda=case["Lambda"],
                   clear_cache_every_nbr_calc=10**9)
    kappa = float(case.get("kappa", KAPPA))
    if kappa != KAPPA:
        # Einstein's constant is a documented public attribute
        rel.kappa = kappa
        note.cls("kappa!=8pi")
    shape = r.shape
    one = np.ones(shape)
    d, d4, e4, al = r.d, r.d4, r.e4, r.al
    coords = f["fd"].cartesian_coords
    note.nt(bool(geo_nt and case["speed"] > 0.1
                 and np.min(fl_["s"]) > 0.1))
    note.cls("combo=" + case["combo"],
             "T_first" if case["T_first"] else "Ttrace_first")
    if case.get("vel_form") == "velup3":
        note.cls("velocity-as-velup3")
    if case["speed"] > 0.1:
        note.cls("|v|>0.1")
    if case["speed"] > 0.8:
        note.cls("|v|>0.8")
    if np.any(fl_["rho0"] == 0):
        note.cls("rho0=0-points")
    if case["pamp"] < 0:
        note.cls("negative-pressure")
    if case["omit"] and set(fluid_inputs(dict(case, omit=False), fl_)) \
            - set(data):
        note.cls("fluid-defaults-omitted")

    # --- rho0 / eps / rho / enthalpy: documented definitions ------------
    rho0 = get(rel, note, "rho0")
    eps = get(rel, note, "eps")
    rho = get(rel, note, "rho")
    hh = get(rel, note, "enthalpy")
    press = get(rel, note, "press")
    combo = case["combo"]
    dens = np.abs(fe["rho"]) + np.abs(fe["rho0"])
    if rho0 is not None:
        cm.close(f"rho0:{combo}", rho0, fe["rho0"], dens, kap=1.0)
    good = np.isfinite(fe["eps"])
    if eps is not None:
        cm.close(f"eps:{combo}", np.where(good, eps, 0.0),
                 np.where(good, fe["eps"], 0.0), 1 + np.abs(np.where(
                     good, fe["eps"], 0.0)), kap=1.0)
    if rho is not None:
        cm.close(f"rho:{combo}", rho, fe["rho"], dens, kap=1.0)
    if press is not None and not np.array_equal(press, fe["press"]):
        note.fail("press:echo", {})
    if hh is not None and eps is not None:
        with np.errstate(all='ignore'):
            h_ref = 1 + np.where(good, fe["eps"], 0.0) + np.where(
                fe["rho0"] != 0, fe["press"] / fe["rho0"], 0.0)
        cm.close("enthalpy:value", np.where(good, hh, 0.0),
                 np.where(good, h_ref, 0.0), np.abs(h_ref) + 1 + np.abs(
                     np.where(good, fe["eps"], 0.0)), kap=1.0)
    # from here on use the effective fluid with eps defined everywhere
    fe = dict(fe, eps=np.where(good, fe["eps"], -1.0))

    # --- velocities -------------------------------------------------------
    W, vu = fe["W"], fe["vel"]
    vd_ref = np.einsum('ij...,j...->i...', r.gam, vu)
    vh = P.eq(vu, 'u', d)
    V = P.amax(vh, 1)
    uu_ref = np.concatenate([(W / al)[None], W * (vu - r.bu / al)])
    ud_ref = np.concatenate([(W * (-al + np.einsum('i...,i...->...', r.bd,
                                                   vu)))[None], W * vd_ref])
    uuh_ref = P.eq(uu_ref, 'u', d4)
    udh_ref = P.eq(ud_ref, 'd', d4)
    U = np.maximum(1.0, P.amax(uuh_ref, 1))
    Ud = np.maximum(1.0, P.amax(udh_ref, 1))
    for key, idx, want, sc in (
            ("velup3", 'u', vu, V), ("veldown3", 'd', vd_ref, V),
            ("uup3", 'u', uu_ref[1:], U), ("udown3", 'd', ud_ref[1:], Ud)):
        v = get(rel, note, key)
        if v is not None:
            cm.close(f"{key}:value", P.eq(v, idx, d), P.eq(want, idx, d),
                     sc * r.M4, kap=1.0)
    v4u = get(rel, note, "velup4")
    v4d = get(rel, note, "veldown4")
    if v4u is not None:
        w4 = np.concatenate([np.zeros((1,) + shape), vu])
        if not np.array_equal(v4u, w4):
            note.fail("velup4:value", {})
    if v4d is not None:
        # v_mu = gamma_mu_nu v^nu : v_t = beta_i v^i, v_i
        w4 = np.concatenate([np.einsum('i...,i...->...', r.bd, vu)[None],
                             vd_ref])
        cm.close("veldown4:value", P.eq(v4d, 'd', d4), P.eq(w4, 'd', d4),
                 V * (1 + r.b), kap=1.0)
    u0 = get(rel, note, "uup0")
    if u0 is not None:
        cm.close("uup0:value", u0 * al, W, W, kap=1.0)
    uu = get(rel, note, "uup4")
    ud = get(rel, note, "udown4")
    if uu is None or ud is None:
        return
    uuh = P.eq(uu, 'u', d4)
    udh = P.eq(ud, 'd', d4)
    cm.close("uup4:value", uuh, uuh_ref, U, kap=1.0)
    okd = cm.close("udown4:value", udh, udh_ref, U * r.M4, kap=1.0)
    # unit timelike in both index positions, and the mixed contraction
    cm.close("u.u:up(g_mu_nu u^mu u^nu)", np.einsum(
        'ab...,a...,b...->...', r.g4h, uuh, uuh), -one, r.M4 * U**2,
        kap=1.0)
    uds = P.eq(ud, 'd', e4)
    Uds = np.maximum(1.0, P.amax(P.eq(ud_ref, 'd', e4), 1))
    cm.close("u.u:down(g^mu^nu u_mu u_nu)", np.einsum(
        'ab...,a...,b...->...', r.g4us, uds, uds), -one,
        r.M4us * Uds**2, kap=r.kap4)
    cm.close("u.u:mixed(u_mu u^mu)", np.einsum('a...,a...->...', udh, uuh),
             -one, r.M4 * U**2, kap=1.0)
    cm.close("udown4=g.uup4", udh, np.einsum('ab...,b...->a...', r.g4h,
                                             uuh), r.M4 * U, kap=1.0)

    # --- projector h ------------------------------------------------------
    hd = get(rel, note, "hdown4")
    hd_ref = r.g4 + np.einsum('a...,b...->ab...', ud_ref, ud_ref)
    # |u_mu u_nu| <= Ud^2, plus the propagated rounding error of u_mu itself
    hscale = r.M4 + Ud**2 + Ud * r.M4 * U
    okh = False
    if hd is not None:
        hdh = P.eq(hd, 'dd', d4)
        okh = cm.close("hdown4:value", hdh, P.eq(hd_ref, 'dd', d4), hscale,
                       kap=1.0)
        cm.close("hdown4.u=0", np.einsum('ab...,b...->a...', hdh, uuh),
                 np.zeros((4,) + shape), hscale * U, kap=1.0)
    hm = get(rel, note, "hmixed4")
    uus = P.eq(uu_ref, 'u', e4)
    Us = np.maximum(1.0, P.amax(uus, 1))
    if hm is not None:
        hm_ref = I_like(4, shape) + np.einsum('a...,b...->ab...', uu_ref,
                                              ud_ref)
        hms = P.eq(hm, 'ud', e4)
        # computed as g^{ac} h_cb: error ~ kappa4 |g^-1| |h|
        sc = r.M4us * (1 + Uds**2)
        cm.close("hmixed4:value", hms, P.eq(hm_ref, 'ud', e4), sc,
                 kap=r.kap4)
        cm.close("hmixed4:idempotent", mm(hms, hms), hms,
                 sc * (1 + Us * Uds), kap=r.kap4)
        cm.close("hmixed4.u=0", np.einsum('ab...,b...->a...', hms, uus),
                 np.zeros((4,) + shape), sc * Us, kap=r.kap4)
        cm.close("hmixed4:trace=3", np.einsum('aa...->...', hms), 3 * one,
                 sc, kap=r.kap4)
    hu = get(rel, note, "hup4")
    if hu is not None:
        hu_ref = r.g4u + np.einsum('a...,b...->ab...', uu_ref, uu_ref)
        cm.close("hup4:value", P.eq(hu, 'uu', e4), P.eq(hu_ref, 'uu', e4),
                 r.M4us + Us**2, kap=r.kap4)
        cm.close("hup4.u_down=0", np.einsum('ab...,b...->a...',
                                            P.eq(hu, 'uu', e4), uds),
                 np.zeros((4,) + shape), (r.M4us + Us**2) * Uds,
                 kap=r.kap4)
    hdet = get(rel, note, "hdet")
    if hdet is not None:
        # det(gamma_ij + u_i u_j) = gamma (1 + u_i u^i) = gamma W^2
        Ud3 = P.amax(udh_ref[1:], 1)
        cm.close("hdet:value", hdet / r.vol, r.detGh * W**2,
                 (1 + Ud3**2 + Ud3 * r.M4 * U)**3, kap=1.0)

    # --- stress-energy tensor ---------------------------------------------
    rho_e, p = fe["rho"], fe["press"]
    T_ref = rho_e * np.einsum('a...,b...->ab...', ud_ref, ud_ref) \
        + p * hd_ref
    amp = np.abs(rho_e) + np.abs(p)
    Tsc = amp * hscale
    if not case["T_first"]:
        # Ttrace before Tdown4 was requested explicitly: branch
        # "Tdown4 not in data" = 3 p_n - rho_n
        tr = get(rel, note, "Ttrace")
    T = get(rel, note, "Tdown4")
    if T is None:
        return
    Th = P.eq(T, 'dd', d4)
    okT = P.Cmp(_Silent(), r.kap, c=C).close(
        "probe", Th, P.eq(T_ref, 'dd', d4), Tsc, kap=1.0)
    if okT:
        cm.close("Tdown4:value", Th, P.eq(T_ref, 'dd', d4), Tsc, kap=1.0)
    else:
        # classify the root cause
        T_wrong = rho_e * np.einsum('a...,b...->ab...', uu_ref, uu_ref) \
            + p * hd_ref
        err_w = P.amax(P.eq(T - T_wrong, 'dd', d4), 2)
        if okd and okh and np.all(err_w <= C * P.EPS * (
                amp * (hscale + P.amax(P.eq(uu_ref, 'd', d4), 1)**2))):
            pt = np.unravel_index(int(np.argmax(P.amax(
                Th - P.eq(T_ref, 'dd', d4), 2))), shape)
            note.fail("Tdown4:index-placement", dict(
                what="Tdown4 = rho u^mu u^nu + p h_mu_nu (components of the "
                     "contravariant 4-velocity used with lower indices) "
                     "instead of rho u_mu u_nu + p h_mu_nu",
                point=[int(i) for i in pt],
                got=T[(Ellipsis,) + pt].tolist(),
                want=T_ref[(Ellipsis,) + pt].tolist(),
                alpha=float(al[pt]), W=float(W[pt])))
        else:
            cm.close("Tdown4:value", Th, P.eq(T_ref, 'dd', d4), Tsc,
                     kap=1.0)
    if not np.array_equal(T, np.swapaxes(T, 0, 1)):
        cm.close("Tdown4:symmetric", Th, np.swapaxes(Th, 0, 1), Tsc,
                 kap=1.0)
    # expected projections: closed forms when T is right, otherwise
    # independent projections of what aurel produced (see ASSUMPTIONS)
    Tbase = T_ref if okT else T
    want = project(Tbase, r, coords, case["Lambda"], kappa)
    tag = "closed-form" if okT else "projection-of-aurel-T"
    if okT:
        want.update(closed_forms(fe, r, coords, case["Lambda"]))
    TS = P.amax(P.eq(Tbase, 'dd', d4), 2) + Tsc
    check_projections(note, cm, rel, r, want, TS, coords, tag)
    # Ttrace, both branches
    Tss = P.amax(P.eq(Tbase, 'dd', e4), 2)
    sc_tr = (r.Gi * TS + TS * (1 + r.b)**2) + r.M4us * Tss
    if not case["T_first"] and tr is not None:
        cm.close(f"Ttrace:3p_n-rho_n-branch:{tag}", tr, want["Ttrace"],
                 sc_tr, kap=r.kap)
        rel2 = make_rel(f["fd"], data, Lambda=case["Lambda"],
                        clear_cache_every_nbr_calc=10**9)
        rel2.kappa = kappa
        get(rel2, note, "Tdown4")
        tr2 = get(rel2, note, "Ttrace")
        if tr2 is not None:
            cm.close(f"Ttrace:trace4-branch:{tag}", tr2, want["Ttrace"],
                     sc_tr, kap=r.kap)
    else:
        tr = get(rel, note, "Ttrace")
        if tr is not None:
            cm.close(f"Ttrace:trace4-branch:{tag}", tr, want["Ttrace"],
                     sc_tr, kap=r.kap)
    check_T4(note, cm, rel, r, Tbase, want, tag, case["Lambda"],
             ricci3_first=case["T_first"], kappa=kappa)

    # --- conserved variables ----------------------------------------------
    sg = np.sqrt(r.detgam)
    D_ref = fe["rho0"] * W * sg
    h_ref = 1 + fe["eps"] + np.where(fe["rho0"] != 0, p / np.where(
        fe["rho0"] != 0, fe["rho0"], 1.0), 0.0)
    D = get(rel, note, "conserved_D")
    if D is not None:
        cm.close("conserved_D:value", D / sg, D_ref / sg, np.abs(D_ref / sg),
                 kap=r.kap3)
    E = get(rel, note, "conserved_E")
    if E is not None:
        cm.close("conserved_E:value", E / sg, D_ref * fe["eps"] / sg,
                 np.abs(D_ref / sg) * (1 + np.abs(fe["eps"])), kap=r.kap3)
    Dh = np.abs(D_ref / sg) * (np.abs(h_ref) + 1 + np.abs(fe["eps"]))
    S4 = get(rel, note, "conserved_Sdown4")
    S4_ref = D_ref * h_ref * ud_ref
    if S4 is not None:
        cm.close("conserved_Sdown4:value", P.eq(S4, 'd', d4) / sg,
                 P.eq(S4_ref, 'd', d4) / sg, Dh * r.M4 * U, kap=r.kap3)
    S3 = get(rel, note, "conserved_Sdown3")
    if S3 is not None:
        # S_i = rho0 h W^2 sqrt(gamma) v_i
        want3 = fe["rho0"] * h_ref * W**2 * sg * vd_ref
        cm.close("conserved_Sdown3:value", P.eq(S3, 'd', d) / sg,
                 P.eq(want3, 'd', d) / sg, Dh * r.M4 * U, kap=r.kap3)
    Su4 = get(rel, note, "conserved_Sup4")
    Su4_ref = D_ref * h_ref * uu_ref
    if Su4 is not None:
        cm.close("conserved_Sup4:value", P.eq(Su4, 'u', e4) / sg,
                 P.eq(Su4_ref, 'u', e4) / sg, Dh * r.M4us * Uds,
                 kap=r.kap4)
    Su3 = get(rel, note, "conserved_Sup3")
    if Su3 is not None:
        cm.close("conserved_Sup3:value", P.eq(Su3, 'u', e4[1:]) / sg,
                 P.eq(Su4_ref[1:], 'u', e4[1:]) / sg, Dh * r.M4us * Uds,
                 kap=r.kap4)
    note.worst = cm.worst


def test_tensor(case, note):
    f, r, data, cm, geo_nt = setup(case, note, None)
    shape = r.shape
    rng, var = f["rng"], f["var"]
    Th = np.zeros((4, 4) + shape)
    for n, (i, j) in enumerate(P.SYM4):
        Th[i, j] = 10.0 ** case["logT"] * (case["Tc"][n] + 0.5 * var
                                           * rng.uniform(-1, 1, shape))
        Th[j, i] = Th[i, j]
    T = P.eq(Th, 'uu', r.d4)            # T_mu_nu = d_mu d_nu Th_mu_nu
    data["Tdown4"] = T.copy()
    rel = make_rel(f["fd"], data, Lambda=case["Lambda"],
                   clear_cache_every_nbr_calc=10**9)
    kappa = float(case.get("kappa", KAPPA))
    if kappa != KAPPA:
        rel.kappa = kappa
        note.cls("kappa!=8pi")
    coords = f["fd"].cartesian_coords
    note.nt(bool(geo_nt and np.all(P.amax(Th, 2) > 0)))
    Tg = get(rel, note, "Tdown4")
    if Tg is not None and not np.array_equal(Tg, T):
        note.fail("Tdown4:echo", {})
    want = project(T, r, coords, case["Lambda"], kappa)
    TS = P.amax(Th, 2)
    check_projections(note, cm, rel, r, want, TS, coords, "supplied-T")
    tr = get(rel, note, "Ttrace")
    Tss = P.amax(P.eq(T, 'dd', r.e4), 2)
    if tr is not None:
        cm.close("Ttrace:trace4-branch:supplied-T", tr, want["Ttrace"],
                 r.M4us * Tss, kap=r.kap4)
        # the alternative derivation offered for the same quantity
        pn = get(rel, note, "press_n")
        rn = get(rel, note, "rho_n")
        if pn is not None and rn is not None:
            cm.close("Ttrace:equals-3p_n-rho_n", tr, 3 * pn - rn,
                     r.M4us * Tss + r.Gi * TS + TS * (1 + r.b)**2,
                     kap=r.kap)
    check_T4(note, cm, rel, r, T, want, "supplied-T", case["Lambda"],
             ricci3_first=bool(case["seed"] % 2), kappa=kappa)
    note.worst = cm.worst


def selftest():
    """Oracle self-consistency: closed forms == projections of the textbook
    T for a perfect fluid (both written here, no aurel involved)."""
    for case in generic_fluid()[:4]:
        f = P.fields(case)
        r = Ref(f)
        fe = fluid_fields(case, f, r)
        W, vu = fe["W"], fe["vel"]
        al = r.al
        vd = np.einsum('ij...,j...->i...', r.gam, vu)
        ud = np.concatenate([(W * (-al + np.einsum('i...,i...->...', r.bd,
                                                   vu)))[None], W * vd])
        T = fe["rho"] * np.einsum('a...,b...->ab...', ud, ud) + fe[
            "press"] * (r.g4 + np.einsum('a...,b...->ab...', ud, ud))
        coords = f["fd"].cartesian_coords
        a = project(T, r, coords, 0.3)
        b = closed_forms(fe, r, coords, 0.3)
        for k, v in b.items():
            idx = SPEC.get(k, "")
            x = P.eq(a[k], idx, r.d)
            y = P.eq(v, idx, r.d)
            sc = np.max(np.abs(y)) + np.max(np.abs(fe["rho"])) * 100
            if np.max(np.abs(x - y)) > 1e-9 * sc:
                raise HarnessError(f"oracle self-test: {k} closed form and "
                                   f"projection disagree by "
                                   f"{np.max(np.abs(x - y))}")


def subchecks(tier):
    q = tier == "quick"
    return [
        Sub("fluid", fluid_case(), test_fluid, 900 if q else 20000,
            generic=generic_fluid(), shards=8 if q else 16),
        Sub("tensor", tensor_case(), test_tensor, 500 if q else 10000,
            generic=generic_tensor(), shards=8 if q else 16),
    ]
