"""C15 - the symbolic core gives the textbook tensors for any metric, any
simplify flag and any request order.  DESIGN.md section 4, C15.

Oracle: the metric entries (small expressions from the grammar below) are
differentiated once and twice with ``sympy.diff`` and evaluated at rational
points; everything else (inverse, determinant, Christoffel symbols, Riemann,
Ricci, Einstein) is textbook tensor algebra done *numerically at the point*
on those jets - in ``fractions.Fraction`` when the metric is a rational
function (exact, zero tolerance) and in 50-digit mpmath otherwise.  No aurel
code and no ``sympy.simplify`` is involved on the oracle side.
"""
import signal
import time
from contextlib import contextmanager
from fractions import Fraction

import mpmath
import sympy as sp
from hypothesis import strategies as st

import aurel
from harness.common import HarnessError, Sub

PROPERTY = "C15"
RULE = ("Hypothesis draws dimension 2-4, a symmetric metric from a small "
        "grammar (diagonal entries sign*(D + sum a*f), off-diagonal entries "
        "sum a*f present with probability 1/2, f in {x/2, x^2/4, x*y/4, "
        "1/(1+x^2), x/(2(1+y^2)), one sin(x[+y]), exp(x)/8 or sqrt(x^2)/2}, "
        "optionally one diagonal entry scaled by 1 + p/4 with a constant p "
        "named like a quantity of the library (gxx, gyy, alpha, ...); strictly "
        "diagonally dominant on the box |x|<=2, so invertible, Lorentzian "
        "sign allowed in 4D), simplify in {True, False}, a request order "
        "(prefix of a permutation of the ten keys) and two rational points. "
        "Every requested key is evaluated at the points and compared with an "
        "independent pointwise textbook reference. Non-trivial = non-diagonal "
        "metric, or simplify=False, or an order in which Riemann_down or "
        "Ricci_down is requested before Riemann_uddd (direct branch).")
ASSUMPTIONS = [
    "Index/sign conventions: Gamma_udd[i,j,k] = Gamma^i_jk; Gamma_down[i,j,k]"
    " = g_im Gamma^m_jk; Riemann_uddd[i,j,k,h] = R^i_jkh = d_k Gamma^i_jh - "
    "d_h Gamma^i_jk + Gamma^i_km Gamma^m_jh - Gamma^i_hm Gamma^m_jk (the "
    "convention of aurel's numeric core and of the term written in "
    "coresymbolic.py); Riemann_down = g_im R^m_jkh; Ricci_down[i,j] = "
    "R^k_ikj; RicciS = g^ij R_ij; Einstein_down = R_ij - g_ij R / 2",
    "aurel expressions are evaluated with an exact tree evaluator (Float "
    "coefficients such as 0.5 are taken at their exact binary value); a value"
    " free of Floats for a rational metric must equal the exact reference; "
    "otherwise |got-want| <= 1e-11 * scale, scale = largest sum of absolute "
    "values of the terms of the textbook formula over the tensor (>= 1e-30)",
    "a case that exceeds its time budget inside sympy is inconclusive for the"
    " keys not yet computed (class 'inconclusive:budget'), never a violation",
    "a wrong key is reported only when every key it is computed from "
    "(Gamma_udd <- gup; Gamma_down, Riemann_uddd <- Gamma_udd; Riemann_down, "
    "Ricci_down <- Riemann_uddd or the Christoffels, by branch; RicciS, "
    "Einstein_down <- Ricci_down) is right; otherwise it is counted as "
    "'inherited:*' and the wrong upstream key is reported instead (keys "
    "computed as dependencies are read from rel.data - what a request for "
    "them returns - and checked too). A defect of a downstream key that only "
    "shows in configurations where its upstream is wrong stays masked until "
    "the upstream defect is fixed",
    "discriminator tags: 'nondiagonal' = the same check passes on the "
    "diagonal part of the failing metric and on a fixed diagonal 2D metric; "
    "'simplify=False' = it passes with simplify=True on the diagonal part "
    "(probe limited to 6 s); tags are omitted when undecided",
]
BUDGET_S = {"quick": 60, "thorough": 1000}

KEYS = ["gdown", "gup", "gdet", "Gamma_down", "Gamma_udd", "Riemann_down",
        "Riemann_uddd", "Ricci_down", "RicciS", "Einstein_down"]
RANK = dict(gdown=2, gup=2, gdet=0, Gamma_down=3, Gamma_udd=3,
            Riemann_down=4, Riemann_uddd=4, Ricci_down=2, RicciS=0,
            Einstein_down=2)
BRANCHY = ("Riemann_down", "Ricci_down")
RTOL = 1e-11
NAMES = ["x", "y", "z", "w"]

MP = mpmath.MPContext()
MP.dps = 50


# ---------------------------------------------------------------------------
# metric grammar: JSON case -> sympy matrix


def coords_of(n):
    return [sp.Symbol(s) for s in NAMES[:n]]


def _q(a):
    return sp.Rational(int(a[0]), int(a[1]))


def atom(t, X):
    f, v = t["f"], t["v"]
    a = X[v[0]]
    b = X[v[-1]]
    if f == "one":
        return sp.Integer(1)
    if f == "lin":
        return a / 2
    if f == "sq":
        return a**2 / 4
    if f == "mix":
        return a * b / 4
    if f == "rat":
        return 1 / (1 + a**2)
    if f == "rat2":
        return a / (2 * (1 + b**2))
    if f == "sin":
        return sp.sin(a + b) if v[0] != v[-1] else sp.sin(a)
    if f == "exp":
        return sp.exp(a) / 8
    if f == "abs":
        # |x| / 2 as written with plain (not assumed positive) symbols
        return sp.sqrt(a**2) / 2
    raise HarnessError(f"unknown atom {f}")


def entry(terms, X):
    e = sp.Integer(0)
    for t in terms:
        e += _q(t["a"]) * atom(t, X)
    return e


# constant parameters a user's metric may carry, named like quantities of the
# library itself (a 3+1 form written with gxx, alpha, betax, ...); value used
# at every evaluation point
PARAMS = {"gxx": Fraction(3, 5), "gxy": Fraction(1, 4), "gyy": Fraction(5, 7),
          "gxz": Fraction(-1, 3), "gzz": Fraction(4, 3),
          "gyx": Fraction(2, 7), "gdet": Fraction(7, 5),
          "alpha": Fraction(6, 5), "betax": Fraction(1, 3),
          "M": Fraction(2, 1)}


def build_metric(case):
    n = case["dim"]
    X = coords_of(n)
    g = sp.zeros(n, n)
    par = case.get("param")
    for i, d in enumerate(case["diag"]):
        g[i, i] = d["sign"] * (d["D"] + entry(d["terms"], X))
        if par and par["slot"] % n == i:
            g[i, i] = g[i, i] * (1 + sp.Symbol(par["name"]) / 4)
    for o in case["off"]:
        i, j = o["i"], o["j"]
        g[i, j] = g[j, i] = entry(o["terms"], X)
    return X, g


def all_terms(case):
    for d in case["diag"]:
        yield from d["terms"]
    for o in case["off"]:
        yield from o["terms"]


def is_exact(case):
    return not any(t["f"] in ("sin", "exp", "abs") for t in all_terms(case))


def metric_kind(case):
    fs = {t["f"] for t in all_terms(case)}
    if fs & {"sin", "exp", "abs"}:
        return "transcendental"
    if fs & {"rat", "rat2"}:
        return "rational"
    return "polynomial" if fs else "constant"


def is_nondiag(case):
    return any(o["terms"] for o in case["off"])


def diag_variant(case, **kw):
    c = dict(case)
    c["off"] = []
    c.update(kw)
    return c


def points_of(case):
    pts = [[Fraction(int(p), int(q)) for p, q in pt] for pt in case["points"]]
    if any(t["f"] == "abs" for t in all_terms(case)):
        # |x| is not differentiable at 0: evaluate next to it instead
        pts = [[c if c != 0 else Fraction(-1, 3) for c in pt] for pt in pts]
    return pts


# ---------------------------------------------------------------------------
# exact / high-precision evaluation of sympy expressions at a point


class Unevaluable(Exception):
    pass


_FUNCS = {
    sp.exp: MP.exp, sp.log: MP.log, sp.sin: MP.sin, sp.cos: MP.cos,
    sp.tan: MP.tan, sp.cot: MP.cot, sp.sec: MP.sec, sp.csc: MP.csc,
    sp.sinh: MP.sinh, sp.cosh: MP.cosh, sp.tanh: MP.tanh,
}


class Evaluator:
    """Evaluate sympy expressions at one point with a shared sub-expression
    memo.  exact=True: Fractions (only +, *, integer powers and rational /
    binary-float constants allowed); exact=False: 50-digit mpmath."""

    def __init__(self, X, point, exact):
        self.exact = exact
        self.memo = {}
        self.env = {x: (Fraction(p) if exact
                        else MP.mpf(p.numerator) / p.denominator)
                    for x, p in zip(X, point)}

    def num(self, p, q=1):
        if self.exact:
            return Fraction(p, q)
        return MP.mpf(p) / q if q != 1 else MP.mpf(p)

    def __call__(self, e):
        memo = self.memo
        r = memo.get(e)
        if r is not None:
            return r
        if e.is_Symbol:
            try:
                r = self.env[e]
            except KeyError:
                if e.name in PARAMS:
                    v = PARAMS[e.name]
                    r = self.num(v.numerator, v.denominator)
                else:
                    raise Unevaluable(f"free symbol {e}")
        elif e.is_Rational:
            r = self.num(e.p, e.q)
        elif e.is_Float:
            p, q = mpmath.libmp.to_rational(e._mpf_)
            r = self.num(p, q)
        elif e.is_Add:
            r = self(e.args[0])
            for a in e.args[1:]:
                r = r + self(a)
        elif e.is_Mul:
            r = self(e.args[0])
            for a in e.args[1:]:
                r = r * self(a)
        elif e.is_Pow:
            b, x = e.args
            if x.is_Integer:
                bv = self(b)
                if x.p < 0 and bv == 0:
                    raise ZeroDivisionError("pole at the evaluation point")
                r = bv ** int(x.p)
            elif self.exact:
                raise Unevaluable(f"non-integer power {e}")
            else:
                r = MP.power(self(b), self(x))
        elif self.exact:
            raise Unevaluable(f"{type(e).__name__} in exact mode")
        elif e is sp.E:
            r = +MP.e
        elif e is sp.pi:
            r = +MP.pi
        elif type(e) in _FUNCS:
            r = _FUNCS[type(e)](self(e.args[0]))
        else:
            raise Unevaluable(f"{type(e).__name__}")
        memo[e] = r
        return r


def nested(flat, n, rank):
    if rank == 0:
        return flat[0]
    step = n ** (rank - 1)
    return [nested(flat[i * step:(i + 1) * step], n, rank - 1)
            for i in range(n)]


def flatten(t, rank):
    if rank == 0:
        return [t]
    out = []
    for s in t:
        out.extend(flatten(s, rank - 1))
    return out


def flat_exprs(obj, n, rank):
    """Flat list of component expressions (row-major) or None if the object
    does not have the documented shape."""
    if rank == 0:
        if isinstance(obj, (sp.MatrixBase, sp.NDimArray)):
            return None
        return [sp.sympify(obj)]
    if isinstance(obj, sp.MatrixBase):
        if rank != 2 or obj.shape != (n, n):
            return None
        return [obj[i, j] for i in range(n) for j in range(n)]
    if isinstance(obj, sp.NDimArray):
        if tuple(obj.shape) != (n,) * rank:
            return None
        return [sp.sympify(v) for v in sp.flatten(obj.tolist())]
    return None


# ---------------------------------------------------------------------------
# textbook tensor algebra at a point (generic over Fraction / mpf / Mag)


class Mag:
    """Magnitude arithmetic: carries sum-of-|terms| through +,-,* so that the
    float tolerance can be scaled with the size of the cancelling terms."""
    __slots__ = ("v",)

    def __init__(self, v):
        self.v = abs(float(v))

    @staticmethod
    def _v(o):
        return o.v if isinstance(o, Mag) else abs(float(o))

    def __add__(self, o):
        return Mag(self.v + Mag._v(o))
    __radd__ = __sub__ = __rsub__ = __add__

    def __mul__(self, o):
        return Mag(self.v * Mag._v(o))
    __rmul__ = __mul__

    def __neg__(self):
        return self


def mat_inv_det(G, n, zero, one):
    """Gauss-Jordan with partial pivoting; returns (inverse, determinant)."""
    M = [list(G[i]) + [one if i == j else zero for j in range(n)]
         for i in range(n)]
    det = one
    for c in range(n):
        piv = max(range(c, n), key=lambda r: abs(M[r][c]))
        if M[piv][c] == 0:
            raise ZeroDivisionError("singular metric at the point")
        if piv != c:
            M[c], M[piv] = M[piv], M[c]
            det = -det
        pv = M[c][c]
        det = det * pv
        M[c] = [v / pv for v in M[c]]
        for r in range(n):
            if r != c and M[r][c] != 0:
                f = M[r][c]
                M[r] = [a - f * b for a, b in zip(M[r], M[c])]
    return [row[n:] for row in M], det


def christoffel(Ginv, dG, n, half):
    """Gamma^i_jk = 1/2 g^im (d_j g_mk + d_k g_mj - d_m g_jk);
    dG[c][a][b] = d_c g_ab."""
    R = range(n)
    return [[[half * sum(Ginv[i][m] * (dG[j][m][k] + dG[k][m][j]
                                       - dG[m][j][k]) for m in R)
              for k in R] for j in R] for i in R]


def d_christoffel(Ginv, dGinv, dG, ddG, n, half):
    """dGam[c][i][j][k] = d_c Gamma^i_jk (product rule on the definition)."""
    R = range(n)
    return [[[[half * sum(
        dGinv[c][i][m] * (dG[j][m][k] + dG[k][m][j] - dG[m][j][k])
        + Ginv[i][m] * (ddG[c][j][m][k] + ddG[c][k][m][j] - ddG[c][m][j][k])
        for m in R) for k in R] for j in R] for i in R] for c in R]


def lower_first(G, T, n, rank):
    R = range(n)
    if rank == 3:
        return [[[sum(G[i][m] * T[m][j][k] for m in R) for k in R]
                 for j in R] for i in R]
    return [[[[sum(G[i][m] * T[m][j][k][h] for m in R) for h in R]
              for k in R] for j in R] for i in R]


def riemann_from(Gam, dGam, n):
    """R^i_jkh = d_k Gam^i_jh - d_h Gam^i_jk + Gam^i_km Gam^m_jh
    - Gam^i_hm Gam^m_jk."""
    R = range(n)
    return [[[[dGam[k][i][j][h] - dGam[h][i][j][k]
               + sum(Gam[i][k][m] * Gam[m][j][h] for m in R)
               - sum(Gam[i][h][m] * Gam[m][j][k] for m in R)
               for h in R] for k in R] for j in R] for i in R]


def ricci_from(Riem, n):
    R = range(n)
    return [[sum(Riem[k][i][k][j] for k in R) for j in R] for i in R]


def scalar_from(Ginv, Ric, n):
    R = range(n)
    return sum(Ginv[i][j] * Ric[i][j] for i in R for j in R)


def einstein_from(G, Ric, RS, n, half):
    R = range(n)
    return [[Ric[i][j] - half * G[i][j] * RS for j in R] for i in R]


def all_tensors(G, Ginv, det, dG, ddG, n, half):
    R = range(n)
    dGinv = [[[-sum(Ginv[a][p] * dG[c][p][q] * Ginv[q][b]
                    for p in R for q in R) for b in R] for a in R]
             for c in R]
    Gam = christoffel(Ginv, dG, n, half)
    dGam = d_christoffel(Ginv, dGinv, dG, ddG, n, half)
    Riem = riemann_from(Gam, dGam, n)
    Ric = ricci_from(Riem, n)
    RS = scalar_from(Ginv, Ric, n)
    return dict(gdown=G, gup=Ginv, gdet=det, Gamma_udd=Gam,
                Gamma_down=lower_first(G, Gam, n, 3), Riemann_uddd=Riem,
                Riemann_down=lower_first(G, Riem, n, 4), Ricci_down=Ric,
                RicciS=RS, Einstein_down=einstein_from(G, Ric, RS, n, half))


def mapt(f, t, rank):
    if rank == 0:
        return f(t)
    return [mapt(f, s, rank - 1) for s in t]


class Reference:
    """Textbook values of the ten keys at the points of a case."""

    def __init__(self, X, g, points, exact):
        n = len(X)
        self.n, self.exact = n, exact
        R = range(n)
        dg = [[[sp.diff(g[a, b], X[c]) if a <= b else None for b in R]
               for a in R] for c in R]
        ddg = [[[[sp.diff(dg[c][a][b], X[d])
                  if (a <= b and c <= d) else None for b in R] for a in R]
                for d in R] for c in R]
        self.values, self.scale, self.jets = [], [], []
        for pt in points:
            ev = Evaluator(X, pt, exact)
            half = ev.num(1, 2)
            G = [[ev(g[min(a, b), max(a, b)]) for b in R] for a in R]
            dG = [[[ev(dg[c][min(a, b)][max(a, b)]) for b in R] for a in R]
                  for c in R]
            ddG = [[[[ev(ddg[min(c, d)][max(c, d)][min(a, b)][max(a, b)])
                      for b in R] for a in R] for d in R] for c in R]
            Ginv, det = mat_inv_det(G, n, ev.num(0), ev.num(1))
            self.values.append(all_tensors(G, Ginv, det, dG, ddG, n, half))
            self.jets.append(dict(G=G, dG=dG, ddG=ddG, half=half))
            m = lambda t, r: mapt(Mag, t, r)  # noqa: E731
            # |det| <= permanent-like bound: product of row abs sums
            dmag = 1.0
            for a in R:
                dmag *= sum(abs(float(G[a][b])) for b in R)
            mags = all_tensors(m(G, 2), m(Ginv, 2), Mag(dmag), m(dG, 3),
                               m(ddG, 4), n, Mag(0.5))
            self.scale.append({
                k: max([x.v for x in flatten(mags[k], RANK[k])] + [1e-30])
                for k in KEYS})


def selftest():
    """Oracle self-test (closed forms, a flat non-diagonal metric, an
    independent third-party implementation, algebraic identities)."""
    F = Fraction

    def near(a, b, tol=1e-40):
        assert abs(a - b) <= tol * max(1, abs(b)), (a, b)

    # 1. two-sphere of radius 3/2 (transcendental path)
    th, ph = coords_of(2)
    r = sp.Rational(3, 2)
    ref = Reference([th, ph], sp.diag(r**2, r**2 * sp.sin(th)**2),
                    [[F(4, 5), F(1, 3)]], False)
    v = ref.values[0]
    s, c = MP.sin(MP.mpf(4) / 5), MP.cos(MP.mpf(4) / 5)
    near(v["Gamma_udd"][0][1][1], -s * c)
    near(v["Gamma_udd"][1][0][1], c / s)
    near(v["Riemann_down"][0][1][0][1], MP.mpf(9) / 4 * s * s)
    near(v["Riemann_uddd"][0][1][0][1], s * s)
    near(v["Ricci_down"][1][1], s * s)
    near(v["Ricci_down"][0][0], 1)
    near(v["RicciS"], MP.mpf(8) / 9)
    for i in range(2):
        for j in range(2):
            near(v["Einstein_down"][i][j], 0)
    # 2. Schwarzschild, M = 1 (rational in r; sin(theta) transcendental)
    X = coords_of(4)
    t, rr, th, ph = X
    f = 1 - 2 / rr
    g = sp.diag(-f, 1 / f, rr**2, rr**2 * sp.sin(th)**2)
    v = Reference(X, g, [[F(1, 2), F(3), F(1), F(-1, 4)]], False).values[0]
    for i in range(4):
        for j in range(4):
            near(v["Ricci_down"][i][j], 0)
    near(v["Riemann_down"][0][1][0][1], -MP.mpf(2) / 27)
    near(v["gdet"], -81 * MP.sin(1)**2)
    # 3. Euclidean metric pulled back by a polynomial map: non-diagonal,
    # exactly flat, and Gamma^i_jk = (J^-1)^i_a d_j d_k F^a
    X = coords_of(3)
    x, y, z = X
    Fm = sp.Matrix([x + y**2 / 3, y + x * z / 5, z + x**2 / 7])
    J = Fm.jacobian(X)
    g = (J.T * J).applyfunc(sp.expand)
    pt = [F(3, 4), F(-2, 3), F(5, 7)]
    v = Reference(X, g, [pt], True).values[0]
    assert all(a == 0 for a in flatten(v["Riemann_uddd"], 4))
    assert all(a == 0 for a in flatten(v["Riemann_down"], 4))
    assert all(a == 0 for a in flatten(v["Einstein_down"], 2))
    ev = Evaluator(X, pt, True)
    Jv = [[ev(J[a, b]) for b in range(3)] for a in range(3)]
    Ji, dJ = mat_inv_det(Jv, 3, F(0), F(1))
    assert v["gdet"] == dJ * dJ
    for i in range(3):
        for j in range(3):
            for k in range(3):
                want = sum(Ji[i][a] * ev(sp.diff(Fm[a], X[j], X[k]))
                           for a in range(3))
                assert v["Gamma_udd"][i][j][k] == want, (i, j, k)
    assert any(a != 0 for a in flatten(v["Gamma_udd"], 3))
    # 4. independent implementation: sympy.diffgeom on the generic
    # non-diagonal 2D metric (the 3D one, G3, was compared once off-line:
    # it agrees exactly but takes minutes)
    from sympy.diffgeom import (CoordSystem, Manifold, Patch, TensorProduct,
                                metric_to_Christoffel_2nd,
                                metric_to_Ricci_components,
                                metric_to_Riemann_components)
    case = fixed(G2, False, KEYS)
    X, g = build_metric(case)
    CS = CoordSystem("C", Patch("P", Manifold("M", 2)), X)
    xs, dxs = CS.base_scalars(), CS.base_oneforms()
    rep = dict(zip(X, xs))
    metric2 = sum(g[i, j].xreplace(rep) * TensorProduct(dxs[i], dxs[j])
                  for i in range(2) for j in range(2))
    ch = metric_to_Christoffel_2nd(metric2)
    rm = metric_to_Riemann_components(metric2)
    rc = metric_to_Ricci_components(metric2)
    pts = points_of(case)
    ref = Reference(X, g, pts, True)
    for p, pt in enumerate(pts):
        sub = {b: sp.Rational(q.numerator, q.denominator)
               for b, q in zip(xs, pt)}

        def same(e, fr):
            w = e.subs(sub)
            assert w == sp.Rational(fr.numerator, fr.denominator), (w, fr)
        v = ref.values[p]
        for i in range(2):
            for j in range(2):
                same(rc[i, j], v["Ricci_down"][i][j])
                for k in range(2):
                    same(ch[i, j, k], v["Gamma_udd"][i][j][k])
                    for h in range(2):
                        same(rm[i, j, k, h], v["Riemann_uddd"][i][j][k][h])
    # 5. algebraic identities on the generic 4D Lorentzian non-diagonal
    # transcendental metric
    case = fixed(G4T, False, KEYS)
    X, g = build_metric(case)
    ref = Reference(X, g, points_of(case), False)
    R4 = range(4)
    for v, sc in zip(ref.values, ref.scale):
        Rd, tol = v["Riemann_down"], 1e-40 * max(1.0, sc["Riemann_down"])
        assert max(abs(a) for a in flatten(Rd, 4)) > 1e-6
        for i in R4:
            for j in R4:
                assert abs(v["Ricci_down"][i][j]
                           - v["Ricci_down"][j][i]) <= tol
                for k in R4:
                    for h in R4:
                        assert abs(Rd[i][j][k][h] + Rd[j][i][k][h]) <= tol
                        assert abs(Rd[i][j][k][h] + Rd[i][j][h][k]) <= tol
                        assert abs(Rd[i][j][k][h] - Rd[k][h][i][j]) <= tol
                        assert abs(Rd[i][j][k][h] + Rd[i][k][h][j]
                                   + Rd[i][h][j][k]) <= tol
        # g^-1 g = 1 and the alternative lowered formula agree
        for i in R4:
            for j in R4:
                e = sum(v["gup"][i][m] * v["gdown"][m][j] for m in R4)
                assert abs(e - (1 if i == j else 0)) <= 1e-40


# ---------------------------------------------------------------------------
# running aurel under a time budget


class _Budget(BaseException):
    pass


@contextmanager
def time_limit(seconds):
    def handler(signum, frame):
        # re-arm: if this exception is raised where Python ignores exceptions
        # (a gc callback, __del__), the next tick raises it again
        signal.setitimer(signal.ITIMER_REAL, 0.25)
        raise _Budget()
    old = signal.signal(signal.SIGALRM, handler)
    signal.setitimer(signal.ITIMER_REAL, max(0.01, seconds))
    try:
        yield
    finally:
        signal.setitimer(signal.ITIMER_REAL, 0)
        signal.signal(signal.SIGALRM, old)


class Session:
    """One AurelCoreSymbolic instance fed with the case's metric; requests are
    made one at a time under the remaining budget."""

    def __init__(self, case, order=None, simplify=None):
        self.case = case
        self.n = case["dim"]
        self.X, self.g = build_metric(case)
        self.simplify = case["simplify"] if simplify is None else simplify
        self.order = list(case["order"] if order is None else order)
        self.rel = aurel.AurelCoreSymbolic(self.X, verbose=False,
                                           simplify=self.simplify)
        # the documented way of providing a metric
        self.rel.data["gdown"] = sp.Matrix(self.g)
        self.branch = {}
        self.raised = {}
        self.timed_out = False

    def request(self, key, deadline):
        """Returns the object aurel hands out, or None (time-out / raise)."""
        # Which way a history-dependent key is computed is decided by whether
        # Riemann_uddd had been obtained before (the property's "which other
        # quantities were requested before"); such a key may also be computed
        # implicitly (RicciS and Einstein_down need Ricci_down).
        prospective = ("from-uddd" if "Riemann_uddd" in self.rel.data
                       else "direct-branch")
        pending = [k for k in BRANCHY if k not in self.rel.data]
        left = deadline - time.time()
        if left <= 0:
            self.timed_out = True
            return None
        try:
            with time_limit(left):
                return self.rel[key]
        except _Budget:
            self.timed_out = True
            return None
        except Exception as e:  # noqa: BLE001
            self.raised[key] = f"{type(e).__name__}: {e}"[:300]
            return None
        finally:
            for k in pending:
                if k in self.rel.data or k == key:
                    self.branch.setdefault(k, prospective)

    def base(self, key):
        return f"{key}:{self.branch[key]}" if key in self.branch else key


def eval_key(obj, key, sess, points, exact):
    """-> (list over points of nested values | None, has_float, problem)."""
    n = sess.n
    fl = flat_exprs(obj, n, RANK[key])
    if fl is None:
        return None, False, "shape"
    has_float = any(e.has(sp.Float) for e in fl)
    out = []
    for pt in points:
        ev = Evaluator(sess.X, pt, exact)
        try:
            out.append(nested([ev(e) for e in fl], n, RANK[key]))
        except ZeroDivisionError:
            return None, has_float, "pole"
        except Unevaluable as e:
            return None, has_float, f"unevaluable({e})"
    return out, has_float, None


def _f(v):
    return float(v)


def compare(got, want, scale, rank, exact_eq):
    """-> None if equal within the rule, else dict describing the worst
    component."""
    worst = None
    g, w = flatten(got, rank), flatten(want, rank)
    for idx, (a, b) in enumerate(zip(g, w)):
        d = abs(a - b)
        if d == 0:
            continue
        rel = _f(d) / scale
        if exact_eq or rel > RTOL:
            if worst is None or rel > worst[0]:
                worst = (rel, idx, a, b)
    if worst is None:
        return None
    rel, idx, a, b = worst
    return dict(flat_index=idx, got=_f(a), want=_f(b), err_over_scale=rel)


def max_rel(got, want, scale, rank):
    g, w = flatten(got, rank), flatten(want, rank)
    return max(_f(abs(a - b)) / scale for a, b in zip(g, w))


def index_of(flat_index, n, rank):
    idx = []
    for _ in range(rank):
        idx.append(flat_index % n)
        flat_index //= n
    return idx[::-1]


# ---------------------------------------------------------------------------
# attribution: a wrong key is reported only when every key it is computed
# from is right; otherwise the failure is inherited and the upstream key (whose
# value sits in rel.data and is exactly what a request returns) is reported

DIRECT_UP = {
    "gdown": [], "gup": [], "gdet": [],
    "Gamma_udd": ["gup"],
    "Gamma_down": ["Gamma_udd"],
    "Riemann_uddd": ["Gamma_udd"],
    "Riemann_down:from-uddd": ["Riemann_uddd"],
    "Riemann_down:direct-branch": ["Gamma_udd", "Gamma_down"],
    "Ricci_down:from-uddd": ["Riemann_uddd"],
    "Ricci_down:direct-branch": ["Gamma_udd"],
    "RicciS": ["gup", "Ricci_down"],
    "Einstein_down": ["Ricci_down", "RicciS"],
}
# textbook (semantic) dependencies, used by the differential sub-checks
SEMANTIC_UP = {
    "gdown": [], "gup": ["gdown"], "gdet": ["gdown"],
    "Gamma_udd": ["gup"], "Gamma_down": ["Gamma_udd"],
    "Riemann_uddd": ["Gamma_udd"],
    "Riemann_down": ["Riemann_uddd", "Gamma_down", "Gamma_udd"],
    "Ricci_down": ["Riemann_uddd", "Gamma_udd"],
    "RicciS": ["Ricci_down", "gup"],
    "Einstein_down": ["Ricci_down", "RicciS"],
}


def closure(key):
    seen, todo = [], list(SEMANTIC_UP[key])
    while todo:
        k = todo.pop()
        if k not in seen:
            seen.append(k)
            todo.extend(SEMANTIC_UP[k])
    return seen


class Checker:
    """Evaluates keys of one Session against the reference."""

    def __init__(self, sess, ref, points, exact):
        self.s, self.ref, self.points, self.exact = sess, ref, points, exact
        self.e2e = {}        # key -> None (ok) | "skip" | observed dict
        self.problem = {}
        self.worst_rel = 0.0

    def e2e_check(self, key, obj):
        if key in self.e2e:
            return self.e2e[key]
        vals, has_float, problem = eval_key(obj, key, self.s, self.points,
                                            self.exact)
        if problem:
            # wrong shape is a failure; a pole / unknown function at the point
            # leaves the key unchecked (counted, never a violation)
            self.problem[key] = problem
            self.e2e[key] = (dict(problem=problem) if problem == "shape"
                             else "skip")
            return self.e2e[key]
        exact_eq = self.exact and not has_float
        res = None
        for p, v in enumerate(vals):
            sc = self.ref.scale[p][key]
            bad = compare(v, self.ref.values[p][key], sc, RANK[key], exact_eq)
            if bad is not None:
                bad["point"] = [str(c) for c in self.points[p]]
                bad["index"] = index_of(bad.pop("flat_index"), self.s.n,
                                        RANK[key])
                bad["exact"] = exact_eq
                res = bad
                break
            self.worst_rel = max(self.worst_rel, max_rel(
                v, self.ref.values[p][key], sc, RANK[key]))
        self.e2e[key] = res
        return res

    def upstream_bad(self, key):
        """Is the upstream key (read from rel.data, no request) wrong?"""
        if key == "gdown":
            return False
        obj = self.s.rel.data.get(key)
        if obj is None:
            return False
        r = self.e2e_check(key, obj)
        return r is not None and r != "skip"

    def verdict(self, key, obj):
        r = self.e2e_check(key, obj)
        if r is None:
            return "ok", None
        if r == "skip":
            return "unchecked", None
        if "problem" in r:
            return "own", r
        ups = [u for u in DIRECT_UP[self.s.base(key)] if self.upstream_bad(u)]
        if not ups:
            return "own", r
        return "inherited", dict(r, upstream=ups)


# ---------------------------------------------------------------------------
# sub-check: textbook values


def case_budget(case, tier):
    if case.get("budget"):
        return case["budget"]
    return 20.0 if tier == "quick" else 60.0


class Outcome:
    def __init__(self):
        self.fails = {}        # base discriminator -> observed
        self.checked = set()   # base discriminators that were decided
        self.classes = []


def run_textbook(case, tier, budget=None):
    out = Outcome()
    t0 = time.time()
    deadline = t0 + (budget or case_budget(case, tier))
    sess = Session(case)
    exact = is_exact(case)
    points = points_of(case)
    ref = Reference(sess.X, sess.g, points, exact)
    chk = Checker(sess, ref, points, exact)

    def judge(key, obj, implicit):
        base = sess.base(key)
        v, obs = chk.verdict(key, obj)
        if v == "unchecked":
            out.classes.append(f"unchecked:{chk.problem.get(key)}")
            return
        out.checked.add(base)
        out.checked.add(f"raises:{base}")
        if key in sess.branch:
            out.classes.append(base)
        if v == "own":
            obs = dict(obs, key=key, simplify=sess.simplify,
                       branch=sess.branch.get(key))
            if implicit:
                obs["obtained"] = "implicitly (as a dependency); a request " \
                                  "returns this cached value"
            out.fails[base] = obs
        elif v == "inherited":
            out.classes.append(f"inherited:{base}<-{'+'.join(obs['upstream'])}")

    for key in sess.order:
        obj = sess.request(key, deadline)
        if sess.timed_out:
            out.classes.append("inconclusive:budget")
            break
        if key in sess.raised:
            base = sess.base(key)
            out.fails[f"raises:{base}"] = dict(error=sess.raised[key])
            out.checked.add(f"raises:{base}")
            continue
        judge(key, obj, False)
    if not sess.timed_out:
        # keys aurel computed as dependencies: data[key] is what a request for
        # them returns from now on, so they are checked as well (this is what
        # makes the root cause of an inherited failure always visible)
        for key in KEYS:
            if key not in sess.order and key in sess.rel.data:
                judge(key, sess.rel.data[key], True)
    out.classes.append("relerr<=1e-%d" % min(
        30, int(-mpmath.log10(max(chk.worst_rel, 1e-30)))))
    out.wall = time.time() - t0
    return out


_SIMPLIFY_TAG = {}


def simplify_needed(base, case, tier):
    """Is simplify=False necessary for this failure?  Decided once per
    process and discriminator on the diagonal part of the failing case with
    simplify=True (cheap); undecidable within 6 s -> no tag."""
    if base not in _SIMPLIFY_TAG:
        key = base.replace("raises:", "").split(":")[0]
        order = (["Riemann_uddd"] if "from-uddd" in base else []) + [key]
        try:
            probe = run_textbook(diag_variant(case, simplify=True,
                                              order=order), tier, budget=6.0)
            _SIMPLIFY_TAG[base] = (base in probe.checked
                                   and base not in probe.fails)
        except ZeroDivisionError:      # singular diagonal part: undecided
            _SIMPLIFY_TAG[base] = False
    return _SIMPLIFY_TAG[base]


def common_classes(case, note):
    nd = is_nondiag(case)
    order = case["order"]
    direct = any(k in order and ("Riemann_uddd" not in order
                                 or order.index(k)
                                 < order.index("Riemann_uddd"))
                 for k in BRANCHY)
    note.nt(nd or not case["simplify"] or direct)
    note.cls(f"dim={case['dim']}", metric_kind(case),
             "nondiagonal" if nd else "diagonal",
             f"simplify={case['simplify']}", f"order_len={len(order)}")
    if any(d["sign"] < 0 for d in case["diag"]):
        note.cls("lorentzian")
    if case.get("param"):
        note.cls("parameter-named-like-a-library-quantity")
    if any(t["f"] == "abs" for t in all_terms(case)):
        note.cls("abs-of-a-coordinate")


_CANON = {}


def fails_on_canonical_diagonal(run, name, base, case):
    """Does the same check fail with this discriminator on a fixed, fully
    coordinate-dependent diagonal 2D metric (same flag, same orders)?
    Decided once per process; guards the 'nondiagonal' tag against cases
    whose own diagonal part is too simple to show the failure."""
    k = (name, base, case["simplify"])
    if case["diag"] == GD2["diag"]:
        return False        # the diagonal part *is* the canonical metric
    if k not in _CANON:
        c = dict(case, dim=2, diag=GD2["diag"], off=[], points=GD2["points"])
        c.pop("budget", None)
        _CANON[k] = base in run(c).fails
    return _CANON[k]


def tagged_report(run, name, case, note, tier, simplify_probe):
    """Run `run(case)`; give every failing base discriminator the tags that
    are *necessary* for it: 'nondiagonal' iff the same check passes on the
    diagonal part of the metric (same flag, same order) and on a canonical
    diagonal metric; 'simplify=False' see simplify_needed."""
    out = run(case)
    note.cls(*out.classes)
    if not out.fails:
        return
    nd = is_nondiag(case)
    todo = {}
    for base, obs in out.fails.items():
        # a discriminator of this key/branch that is already known (excluded
        # by the runner) is not probed again: the failure is counted under it
        known = [d for d in (base, base + ":nondiagonal",
                             base + ":simplify=False") if d in note.excluded]
        if known:
            note.fail(known[0], obs)
        else:
            todo[base] = obs
    if not todo:
        return
    try:
        probe = run(diag_variant(case)) if nd else None
    except ZeroDivisionError:
        # the diagonal part alone is singular (e.g. null coordinates with
        # g_rr = 0): the 'nondiagonal' tag cannot be decided
        probe = None
        nd = False
        note.cls("probe-undecided")
    for base, obs in todo.items():
        tags = []
        if nd:
            if base not in probe.checked:
                note.cls("probe-undecided")
            elif base not in probe.fails and \
                    not fails_on_canonical_diagonal(run, name, base, case):
                tags.append("nondiagonal")
        if simplify_probe and not case["simplify"] and not tags:
            if simplify_needed(base, case, tier):
                tags.append("simplify=False")
        note.fail(":".join([base] + tags), obs)


def make_test_textbook(tier):
    def test(case, note):
        common_classes(case, note)
        tagged_report(lambda c: run_textbook(c, tier), "textbook", case,
                      note, tier, simplify_probe=True)
    return test


# ---------------------------------------------------------------------------
# differential sub-checks: two instances, same metric


def run_pair(case, tier, which):
    """which='simplify': same order, simplify True vs False.
    which='order': same flag, order vs order2.  A key is reported when its
    values differ and no textbook-upstream key (present in both instances)
    differs."""
    out = Outcome()
    t0 = time.time()
    deadline = t0 + case_budget(case, tier)
    if which == "simplify":
        A = Session(case, simplify=True)
        B = Session(case, simplify=False)
    else:
        A = Session(case)
        B = Session(case, order=case["order2"])
    exact = is_exact(case)
    points = points_of(case)
    ref = Reference(A.X, A.g, points, exact)   # only for the scale
    for S in (A, B):
        for key in S.order:
            S.request(key, deadline)
            if S.timed_out:
                out.classes.append("inconclusive:budget")
                break
            if key in S.raised:
                out.fails[f"raises:{S.base(key)}"] = dict(error=S.raised[key])
                out.checked.add(f"raises:{S.base(key)}")
        if S.timed_out:
            break

    cache = {}

    def values(tag, S, key):
        if (tag, key) not in cache:
            obj = S.rel.data.get(key)
            cache[(tag, key)] = (None if obj is None else
                                 eval_key(obj, key, S, points, exact))
        return cache[(tag, key)]

    dcache = {}

    def differs(key):
        if key not in dcache:
            dcache[key] = _differs(key)
        return dcache[key]

    def _differs(key):
        a, b = values("A", A, key), values("B", B, key)
        if a is None or b is None or a[2] or b[2]:
            return None
        exact_eq = exact and not a[1] and not b[1]
        for p in range(len(points)):
            bad = compare(a[0][p], b[0][p], ref.scale[p][key], RANK[key],
                          exact_eq)
            if bad is not None:
                bad["index"] = index_of(bad.pop("flat_index"), A.n, RANK[key])
                bad["point"] = [str(c) for c in points[p]]
                bad["first"] = bad.pop("got")
                bad["second"] = bad.pop("want")
                return bad
        return False

    def base_of(key):
        if key not in BRANCHY:
            return key
        brs = sorted({str(A.branch.get(key)), str(B.branch.get(key))})
        return f"{key}:" + "-vs-".join(brs)

    if not (A.timed_out or B.timed_out):
        for key in KEYS:
            if key not in A.rel.data or key not in B.rel.data:
                continue
            base = base_of(key)
            d = differs(key)
            if d is None:
                out.classes.append("unchecked:eval")
                continue
            out.checked.add(base)
            if key in BRANCHY:
                out.classes.append(base)
            if d is False:
                continue
            ups = [u for u in closure(key) if differs(u)]
            if ups:
                out.classes.append(
                    f"inherited:{key}<-{'+'.join(sorted(ups))}")
                continue
            out.fails[base] = dict(
                d, key=key,
                requested=(key in A.order, key in B.order),
                instance_first=dict(simplify=A.simplify, order=A.order),
                instance_second=dict(simplify=B.simplify, order=B.order))
    out.wall = time.time() - t0
    return out


def make_test_pair(tier, which):
    def test(case, note):
        common_classes(case, note)
        if which == "order":
            note.cls("same-order" if case["order"] == case["order2"]
                     else "different-order")
        tagged_report(lambda c: run_pair(c, tier, which), which, case, note,
                      tier, simplify_probe=False)
    return test


# ---------------------------------------------------------------------------
# strategies

DIAG_COEF = [[1, 2], [-1, 2], [1, 3], [-1, 3], [1, 4], [-1, 4]]
OFF_COEF = [[1, 4], [-1, 4], [1, 5], [-1, 5], [1, 6], [-1, 6]]
POLY = ["lin", "sq", "mix"]
RAT = ["lin", "sq", "mix", "rat", "rat2"]


@st.composite
def term(draw, kinds, n, coefs, allowed):
    f = draw(st.sampled_from(kinds))
    i = draw(st.sampled_from(allowed))
    if f in ("mix", "rat2", "sin"):
        v = [i, draw(st.sampled_from(allowed))]
    else:
        v = [i]
    return dict(a=draw(st.sampled_from(coefs)), f=f, v=v)


@st.composite
def metric(draw, sizes):
    """sizes: list of (dim, dict(maxd=, mind=, maxo=, p_off=, max_pairs=,
    max_pairs_trans=, max_vars=, kinds=))."""
    n, size = sizes[draw(st.integers(0, len(sizes) - 1))]
    kind = draw(st.sampled_from(size["kinds"]))
    kinds = POLY if kind in ("poly", "trans") else RAT
    nv = min(n, size.get("max_vars", n))
    allowed = sorted(draw(st.permutations(list(range(n))))[:nv])
    max_pairs = size.get("max_pairs", 99)
    if kind == "trans":
        max_pairs = min(max_pairs, size.get("max_pairs_trans", 99))
    diag = []
    for i in range(n):
        k = draw(st.integers(size.get("mind", 0), size["maxd"]))
        sign = -1 if (n == 4 and i == 0 and draw(st.booleans())) else 1
        diag.append(dict(sign=sign, D=draw(st.sampled_from([3, 4, 5])),
                         terms=[draw(term(kinds, n, DIAG_COEF, allowed))
                                for _ in range(k)]))
    off = []
    pairs = [(i, j) for i in range(n) for j in range(i + 1, n)]
    for (i, j) in pairs:
        if len(off) >= max_pairs:
            break
        if draw(st.integers(0, 99)) < size["p_off"]:
            k = draw(st.integers(1, size["maxo"]))
            off.append(dict(i=i, j=j,
                            terms=[draw(term(kinds, n, OFF_COEF, allowed))
                                   for _ in range(k)]))
    if kind == "trans":
        t = draw(term(["sin", "exp", "abs"], n, DIAG_COEF, allowed))
        slot = draw(st.integers(0, n + len(off) - 1))
        if slot < n:
            tt = diag[slot]["terms"]
        else:
            tt = off[slot - n]["terms"]
            t["a"] = draw(st.sampled_from(OFF_COEF))
        if len(tt) >= 1:
            tt[-1] = t
        else:
            tt.append(t)
    return dict(dim=n, diag=diag, off=off)


def point(n):
    den = st.sampled_from([1, 2, 3, 4, 5, 7])
    return st.lists(den.flatmap(lambda q: st.tuples(
        st.integers(-2 * q, 2 * q), st.just(q)).map(list)),
        min_size=n, max_size=n)


@st.composite
def order_strategy(draw, full_bias=False):
    perm = list(draw(st.permutations(KEYS)))
    if full_bias and draw(st.booleans()):
        return perm
    return perm[:draw(st.sampled_from([1, 2, 3, 4, 5, 6, 7, 8, 9, 10, 10,
                                       10]))]


@st.composite
def case_strategy(draw, sizes, simplify, pair=None, alt=None):
    """alt=(sizes, simplify, percent): with that probability draw from the
    alternative size table / flag instead."""
    if alt is not None and draw(st.integers(0, 99)) < alt[2]:
        sizes, simplify = alt[0], alt[1]
    c = draw(metric(sizes))
    c["simplify"] = simplify
    if draw(st.integers(0, 4)) == 0:
        c["param"] = dict(name=draw(st.sampled_from(sorted(PARAMS))),
                          slot=draw(st.integers(0, 3)))
    c["points"] = [draw(point(c["dim"])) for _ in range(2)]
    c["order"] = draw(order_strategy(full_bias=not simplify))
    if pair == "order":
        c["order2"] = draw(order_strategy(full_bias=not simplify))
    return c


K3 = ["poly", "rat", "trans"]
K4 = ["poly", "poly", "rat", "trans"]
FULL = dict(maxd=2, mind=1, maxo=2, p_off=50, max_pairs_trans=1, kinds=K3)
MID3 = dict(maxd=2, mind=0, maxo=1, p_off=50, max_pairs_trans=1, kinds=K3)
# sympy's Matrix.inv() is very slow for 4x4 matrices with several
# off-diagonal entries (minutes with a sin/exp entry): keep 4D sparse
SPARSE4 = dict(maxd=1, mind=0, maxo=1, p_off=25, max_pairs=2,
               max_pairs_trans=1, kinds=K3)
MID4 = dict(maxd=2, mind=1, maxo=1, p_off=34, max_pairs=3,
            max_pairs_trans=1, kinds=K3)
# simplify=True is expensive (minutes for a generic 3D non-diagonal metric):
# keep the expressions tiny
TINY2 = dict(maxd=1, mind=1, maxo=1, p_off=50, kinds=K4)
SMALL2 = dict(maxd=2, mind=1, maxo=1, p_off=50, kinds=K4)
TINY3 = dict(maxd=1, mind=0, maxo=1, p_off=34, max_pairs=1, max_vars=2,
             kinds=K4)
TINY4 = dict(maxd=1, mind=0, maxo=1, p_off=17, max_pairs=1, max_vars=2,
             kinds=["poly", "poly", "trans"])


def T(a, f, *v):
    return dict(a=list(a), f=f, v=list(v))


DIRECT_FIRST = ["Ricci_down", "Riemann_down", "gdet", "Riemann_uddd",
                "Einstein_down", "RicciS", "Gamma_down", "Gamma_udd", "gup",
                "gdown"]
UDDD_FIRST = ["gdown", "gup", "Gamma_udd", "Riemann_uddd", "Riemann_down",
              "Ricci_down", "RicciS", "Einstein_down", "Gamma_down", "gdet"]

G2 = dict(dim=2,
          diag=[dict(sign=1, D=3, terms=[T((1, 2), "sq", 1)]),
                dict(sign=1, D=4, terms=[T((1, 3), "sq", 0)])],
          off=[dict(i=0, j=1, terms=[T((1, 4), "mix", 0, 1)])],
          points=[[[3, 4], [-2, 3]], [[-5, 7], [1, 2]]])
G3 = dict(dim=3,
          diag=[dict(sign=1, D=3, terms=[T((1, 2), "sq", 1),
                                         T((1, 3), "lin", 2)]),
                dict(sign=1, D=4, terms=[T((1, 3), "mix", 0, 2)]),
                dict(sign=1, D=5, terms=[T((-1, 2), "lin", 0),
                                         T((1, 4), "sq", 1)])],
          off=[dict(i=0, j=1, terms=[T((1, 4), "lin", 2)]),
               dict(i=0, j=2, terms=[T((-1, 5), "mix", 0, 1)]),
               dict(i=1, j=2, terms=[T((1, 6), "sq", 0)])],
          points=[[[3, 4], [-2, 3], [5, 7]], [[-5, 7], [1, 2], [-3, 2]]])
# the same with a rational and a transcendental entry
G3R = dict(G3, diag=[G3["diag"][0], G3["diag"][1],
                     dict(sign=1, D=5, terms=[T((-1, 2), "rat", 0),
                                              T((1, 4), "sq", 1)])],
           off=[G3["off"][0], G3["off"][1],
                dict(i=1, j=2, terms=[T((1, 6), "rat2", 2, 0)])])
G3T = dict(G3, diag=[G3["diag"][0], G3["diag"][1],
                     dict(sign=1, D=5, terms=[T((-1, 2), "exp", 0),
                                              T((1, 4), "sq", 1)])])
G4 = dict(dim=4,
          diag=[dict(sign=-1, D=3, terms=[T((1, 2), "sq", 1),
                                          T((1, 3), "lin", 3)]),
                dict(sign=1, D=4, terms=[T((1, 3), "mix", 0, 2)]),
                dict(sign=1, D=5, terms=[T((-1, 2), "lin", 0),
                                         T((1, 4), "sq", 3)]),
                dict(sign=1, D=3, terms=[T((1, 4), "mix", 1, 2)])],
          off=[dict(i=0, j=1, terms=[T((1, 4), "lin", 2)]),
               dict(i=0, j=3, terms=[T((-1, 5), "mix", 0, 1)])],
          points=[[[3, 4], [-2, 3], [5, 7], [1, 5]],
                  [[-5, 7], [1, 2], [-3, 2], [4, 3]]])
G4T = dict(G4, diag=[G4["diag"][0],
                     dict(sign=1, D=4, terms=[T((1, 3), "sin", 0, 2)]),
                     G4["diag"][2], G4["diag"][3]],
           off=[dict(i=1, j=3, terms=[T((1, 4), "lin", 2)])])
# 3D, one off-diagonal pair, two variables: affordable with simplify=True
G3S = dict(dim=3,
           diag=[dict(sign=1, D=3, terms=[T((1, 2), "sq", 1)]),
                 dict(sign=1, D=4, terms=[T((1, 3), "lin", 0)]),
                 dict(sign=1, D=5, terms=[])],
           off=[dict(i=0, j=1, terms=[T((1, 4), "lin", 1)])],
           points=[[[3, 4], [-2, 3], [5, 7]], [[-5, 7], [1, 2], [-3, 2]]])
G3D = dict(G3S, off=[])
GD2 = dict(dim=2,
           diag=[dict(sign=1, D=3, terms=[T((1, 2), "sq", 1)]),
                 dict(sign=1, D=4, terms=[T((1, 3), "mix", 0, 1)])],
           off=[], points=[[[3, 4], [-2, 3]], [[-5, 7], [1, 2]]])


# structurally special metrics (fixed cases only): null coordinates, where an
# inverse-metric component vanishes identically while the metric component
# does not (g_vv = -f, g_vr = 1, g_rr = 0 => g^vv = 0), and products with a
# flat factor, where Ricci components vanish identically while g_ij R does not
GNULL2 = dict(dim=2,
              diag=[dict(sign=-1, D=1, terms=[T((1, 2), "lin", 1),
                                              T((1, 3), "mix", 0, 1)]),
                    dict(sign=1, D=0, terms=[])],
              off=[dict(i=0, j=1, terms=[T((1, 1), "one", 0)])],
              points=[[[3, 4], [2, 3]], [[-5, 7], [1, 2]]])
GNULL3 = dict(dim=3,
              diag=[dict(sign=-1, D=1, terms=[T((1, 2), "lin", 1),
                                              T((1, 3), "mix", 0, 1)]),
                    dict(sign=1, D=0, terms=[]),
                    dict(sign=1, D=2, terms=[T((1, 1), "sq", 1)])],
              off=[dict(i=0, j=1, terms=[T((1, 1), "one", 0)])],
              points=[[[3, 4], [2, 3], [5, 7]], [[-5, 7], [1, 2], [-3, 2]]])
GPROD3 = dict(dim=3,
              diag=[dict(sign=1, D=1, terms=[]),
                    dict(sign=1, D=3, terms=[T((1, 2), "sq", 2)]),
                    dict(sign=1, D=4, terms=[T((1, 3), "mix", 1, 2)])],
              off=[],
              points=[[[3, 4], [-2, 3], [5, 7]], [[-5, 7], [1, 2], [-3, 2]]])
GPROD4 = dict(dim=4,
              diag=[dict(sign=-1, D=1, terms=[]),
                    dict(sign=1, D=3, terms=[T((1, 2), "sq", 2)]),
                    dict(sign=1, D=4, terms=[T((1, 3), "mix", 1, 2)]),
                    dict(sign=1, D=2, terms=[])],
              off=[],
              points=[[[3, 4], [-2, 3], [5, 7], [1, 5]],
                      [[-5, 7], [1, 2], [-3, 2], [4, 3]]])


# |x| in the metric, evaluated on both sides of x = 0; and metrics carrying
# constants named like the library's own quantities
GABS2 = dict(dim=2,
             diag=[dict(sign=1, D=3, terms=[T((1, 2), "abs", 0)]),
                   dict(sign=1, D=4, terms=[T((1, 3), "sq", 0)])],
             off=[], points=[[[-3, 4], [2, 3]], [[5, 7], [-1, 2]]])
GABS3 = dict(G3S, diag=[G3S["diag"][0],
                        dict(sign=1, D=4, terms=[T((-1, 3), "abs", 1)]),
                        G3S["diag"][2]])
GPAR2 = dict(G2, param=dict(name="gyy", slot=0))
GPAR3 = dict(G3, param=dict(name="gxx", slot=1))
GPAR4 = dict(G4, param=dict(name="gxy", slot=2))


def fixed(metric_, simplify, order, **kw):
    return dict(metric_, simplify=simplify, order=list(order), **kw)


def subchecks(tier):
    q = tier == "quick"
    if q:
        s_sizes = [(2, TINY2), (2, TINY2), (3, TINY3)]
        ns_sizes = [(2, FULL), (3, MID3), (3, MID3), (4, SPARSE4)]
    else:
        s_sizes = [(2, TINY2), (2, SMALL2), (3, TINY3), (4, TINY4)]
        ns_sizes = [(2, FULL), (3, FULL), (3, MID3), (4, SPARSE4), (4, MID4)]
    order_cases = case_strategy(ns_sizes, False, "order",
                                alt=None if q else (s_sizes, True, 10))
    # cheap sub-checks first: the runner serves jobs in this order and stops
    # generating when the tier's wall budget (BUDGET_S) is used up
    return [
        Sub("textbook_nosimplify", case_strategy(ns_sizes, False),
            make_test_textbook(tier), 48 if q else 1400,
            generic=[fixed(G3, False, DIRECT_FIRST),
                     fixed(G3, False, UDDD_FIRST),
                     fixed(G4, False, UDDD_FIRST),
                     fixed(G4T, False, DIRECT_FIRST),
                     fixed(G3R, False, DIRECT_FIRST),
                     fixed(G2, False, UDDD_FIRST),
                     fixed(GNULL2, False, DIRECT_FIRST),
                     fixed(GNULL3, False, DIRECT_FIRST),
                     fixed(GNULL3, False, UDDD_FIRST),
                     fixed(GPROD3, False, DIRECT_FIRST),
                     fixed(GPROD4, False, UDDD_FIRST),
                     fixed(GABS2, False, UDDD_FIRST),
                     fixed(GPAR2, False, DIRECT_FIRST),
                     fixed(GPAR3, False, UDDD_FIRST),
                     fixed(GPAR4, False, ["gdet", "gup", "Gamma_udd"])],
            shards=8 if q else 16, shrink_quick=False, max_rounds=4),
        Sub("order_indep", order_cases, make_test_pair(tier, "order"),
            32 if q else 400,
            generic=[fixed(G3, False, DIRECT_FIRST, order2=UDDD_FIRST),
                     fixed(G2, True, DIRECT_FIRST[:2],
                           order2=UDDD_FIRST[:6])],
            shards=8 if q else 16, shrink_quick=False, max_rounds=3),
        Sub("textbook_simplify", case_strategy(s_sizes, True),
            make_test_textbook(tier), 12 if q else 112,
            generic=[fixed(GABS2, True, ["gup", "gdet", "Gamma_udd",
                                         "Riemann_uddd", "Ricci_down"]),
                     fixed(GPAR2, True, ["gdet", "gup", "Gamma_udd"]),
                     fixed(G2, True, ["Ricci_down", "Riemann_down",
                                      "Riemann_uddd", "RicciS"]),
                     fixed(G2, True, ["gup", "gdet", "Gamma_udd", "Gamma_down",
                                      "Riemann_uddd", "Riemann_down",
                                      "Ricci_down", "Einstein_down"]),
                     fixed(G3S, True, DIRECT_FIRST[:4]),
                     fixed(G3D, True, UDDD_FIRST),
                     fixed(GNULL2, True, DIRECT_FIRST),
                     fixed(GPROD3, True, UDDD_FIRST)],
            shards=4 if q else 16, shrink_quick=False, max_rounds=2),
        Sub("simplify_indep", case_strategy(s_sizes, True),
            make_test_pair(tier, "simplify"), 8 if q else 48,
            generic=[fixed(G2, True, UDDD_FIRST[:7]),
                     fixed(G3D, True, DIRECT_FIRST[:2])],
            shards=4 if q else 16, shrink_quick=False, max_rounds=2),
    ]
