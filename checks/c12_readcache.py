"""C12 - the per-iteration read cache never changes what read_data returns.
DESIGN.md section 4, C12; generator harness/etgen.py + harness/etcases.py.

A history is a generated simulation directory (data differ per variable,
iteration, level and restart) plus a list of read_data calls.  After every
call

(i)  every returned (variable, iteration) is compared with the ground truth
     and with what an uncached read (split_per_it=False) of the same request
     returns (keys requested, 'it', 't', arrays);
(ii) every dataset of every <restart>/all_iterations/it_<n>.hdf5 is opened and
     compared with the ground truth for the (variable, iteration n, level,
     restart directory) it is filed under, including the 't rl=k' and
     'it rl=k' datasets.
"""
from __future__ import annotations

import glob
import os
import re
import shutil

import h5py
import numpy as np
from hypothesis import strategies as st

import aurel.reading as rd
from harness import etgen
from harness.common import Sub, scratch_dir
from harness.etcases import (K, build_spec, check_result, describe_mismatch,
                             expected_keys, quiet, request_pool,
                             resolve_request, sim_case,
                             source_restart)

PROPERTY = "C12"
RULE = ("Hypothesis draws one simulation directory (harness/etgen.py: 3-7 "
        "points per axis, 1 or 4-8 components, 1-2 levels, 1-3 overlapping "
        "restarts, 1-4 variable groups biased to tensor groups, any of the "
        "four layouts, values encoding variable/iteration/level/restart/"
        "position injectively) and a list of 3-8 (thorough 3-12) read_data calls, each with "
        "a subset of variables mixing aurel tensor names and component names "
        "(or [] = all; a time derivative together with its variable, in "
        "either order, when both were written), an unsorted iteration subset, a level, restart -1 or "
        "fixed, split_per_it in {True, False}; the cache starts empty. After "
        "every call the returned values are compared with the ground truth "
        "and an uncached read, and every dataset of every all_iterations/"
        "it_*.hdf5 file with the ground truth of the (variable, iteration, "
        "level, restart) it is filed under. Non-trivial = the history "
        "contains a cached read (split_per_it=True) that meets a partially "
        "filled cache: some of the requested (component, iteration) cells "
        "are already in the cache files and others are not.")
ASSUMPTIONS = [
    "same file-format assumptions as C11; only layouts C11 shows are read "
    "exactly without the cache (1 or >= 4 components, ghost width >= 1), so "
    "that a failure here is a cache failure",
    "an uncached read is read_data(..., split_per_it=False), as documented",
    "finished simulations are read with skip_last=False",
    "cache datasets are named '<aurel variable> rl=<k>', 't rl=<k>', "
    "'it rl=<k>' in <restart>/all_iterations/it_<n>.hdf5 (save_data docstring)",
]
BUDGET_S = {"quick": 85, "thorough": 1050}

TENSOR_BIASED = ["admbase-dtshift", "admbase-dtlapse",
                 "admbase-shift", "admbase-shift", "admbase-metric",
                 "hydrobase-vel", "ml_bssn-ml_mom", "admbase-lapse",
                 "hydrobase-rho", "mythorn-mypair", "admbase-curv",
                 "weylscal4-psi4r_group", "weylscal4-psi4i_group"]
WEYL_PAIR = ["weylscal4-psi4r_group", "weylscal4-psi4i_group"]

op_strategy = st.fixed_dictionaries(dict(
    varsel=st.one_of(st.just([]), st.lists(K, min_size=1, max_size=3),
                     st.lists(K, min_size=1, max_size=3),
                     st.lists(K, min_size=1, max_size=3)),
    itsel=st.lists(K, min_size=1, max_size=5),
    rlsel=K, rsel=K,
    split=st.sampled_from([True, True, True, False]),
    extra=st.sampled_from([[], [], [], [1000]]),
    # request a time derivative together with (and before / after) the
    # variable it derives from, when the simulation wrote both: their ET
    # names contain one another (alp/dtalp, betax/dtbetax)
    dtpair=st.sampled_from([0, 0, 0, 1, 2]),
    verbose=st.sampled_from([0, 0, 0, 0, 1, 2, 3])))

DT_PAIRS = [("admbase-dtlapse", "admbase-lapse"),
            ("admbase-dtshift", "admbase-shift")]


@st.composite
def history(draw, max_ops):
    sim = draw(sim_case(["1", "4-8"], nlev_max=2, nmax=7,
                        group_pool=TENSOR_BIASED, with_request=False))
    sim["grouped"] = draw(st.sampled_from([True, True, False]))
    if draw(st.integers(0, 3)) == 0:
        pair = list(draw(st.sampled_from(DT_PAIRS)))
        if draw(st.booleans()):
            pair.reverse()
        sim["groups"] = pair + [g for g in sim["groups"]
                                if g not in pair][:2]
    elif draw(st.integers(0, 5)) == 0:
        # both halves of the tensor Weyl_Psi (different thorn output groups)
        sim["groups"] = WEYL_PAIR + [g for g in sim["groups"]
                                     if g not in WEYL_PAIR][:2]
    ops = draw(st.lists(op_strategy, min_size=3, max_size=max_ops))
    return dict(sim=sim, ops=ops)


def op_request(op, spec):
    nlev, nres = len(spec["levels"]), len(spec["restarts"])
    choices = [-1, -1] + [rs["r"] for rs in spec["restarts"]]
    return dict(varsel=op["varsel"], itsel=op["itsel"],
                rl=op["rlsel"] % nlev,
                restart=choices[op["rsel"] % (nres + 2)],
                extra=op["extra"])


def with_dtpair(kw, op, spec):
    """vars of the request with a (time derivative, variable) pair added in
    front, in the drawn order."""
    if not op.get("dtpair") or not kw["vars"]:
        return kw
    pool = request_pool(spec["groups"])
    pairs = [("dt" + a, a) for a in pool if "dt" + a in pool]
    if not pairs:
        return kw
    p = list(pairs[(len(kw["vars"]) + len(kw["it"])) % len(pairs)])
    if op["dtpair"] == 2:
        p.reverse()
    return dict(kw, vars=p + [v for v in kw["vars"] if v not in p])


RX_IT = re.compile(r"it_(\d+)\.hdf5$")


def scan_cache(root, spec):
    """-> {(restart, name, it, rl): value} for every dataset in every cache
    file, plus a list of problems (unparsable keys)."""
    cells, odd = {}, []
    for rs in spec["restarts"]:
        d = os.path.join(etgen.restart_dir(root, spec, rs["r"]),
                         "all_iterations")
        for fn in sorted(glob.glob(os.path.join(d, "*"))):
            m = RX_IT.search(fn)
            if not m:
                odd.append(dict(file=os.path.basename(fn)))
                continue
            it = int(m.group(1))
            with h5py.File(fn, "r") as f:
                for key in f.keys():
                    if " rl=" not in key:
                        odd.append(dict(file=os.path.basename(fn), key=key))
                        continue
                    name, rl = key.rsplit(" rl=", 1)
                    cells[(rs["r"], name, it, int(rl))] = np.array(f[key])
    return cells, odd


def check_cache(cells, odd, spec, fail):
    """(ii): every cache dataset holds what it is filed under."""
    a2e = {etgen.aurel_name(v): v for v in etgen.ALLVARS}
    present = set(etgen.variables(spec))
    for o in odd:
        fail("cache:unexpected-entry", o)
    for (r, name, it, rl), val in sorted(cells.items(),
                                         key=lambda kv: str(kv[0])):
        where = dict(restart=r, file=f"it_{it}.hdf5", dataset=f"{name} rl={rl}")
        if rl >= len(spec["levels"]) or it not in etgen.its_of(spec, r, rl):
            fail("cache:phantom-iteration", where)
            continue
        if name == "it":
            if np.shape(val) != () or int(val) != it:
                fail("cache:it", dict(where, got=np.asarray(val).tolist()))
        elif name == "t":
            if np.shape(val) != () or float(val) != etgen.time_of(spec, it):
                fail("cache:t", dict(where, got=np.asarray(val).tolist(),
                                     want=etgen.time_of(spec, it)))
        elif name in a2e and a2e[name] in present:
            want = etgen.truth(spec, a2e[name], it, rl, r)
            if np.shape(val) == want.shape and np.array_equal(val, want):
                continue
            kind, obs = describe_mismatch(val, want)
            obs.update(where)
            fail(f"cache:{kind}", obs)
        else:
            fail("cache:unknown-variable", where)


def run_history(case, note):
    sim = case["sim"]
    spec = build_spec(sim)
    note.cls("layout=" + ("grouped" if spec["grouped"] else "ungrouped"),
             f"levels={len(spec['levels'])}",
             f"restarts={len(spec['restarts'])}", f"ops={len(case['ops'])}")
    if any(rs.get("regrid") for rs in spec["restarts"]):
        note.cls("level-regridded-during-restart")
    d = scratch_dir()
    partial_seen = False
    try:
        root = etgen.write_sim(d, spec)
        param = etgen.param_for(root, spec["sim"])
        cached = set()          # cells present in the cache before the call
        for k, op in enumerate(case["ops"]):
            rq = op_request(op, spec)
            kw, expected_its = resolve_request(sim, spec, rq)
            kw2 = with_dtpair(kw, op, spec)
            if kw2 is not kw:
                kw = kw2
                note.cls("dt-and-base-variable-in-one-request")
            rl, restart = kw["rl"], kw["restart"]
            split = bool(op["split"])
            # the (restart, component, it, rl) cells this request touches
            want_cells = {(source_restart(spec, i, rl, restart), akey, i, rl)
                          for akey, _ in expected_keys(spec, kw["vars"])
                          for i in expected_its}
            hit = want_cells & cached
            partial = split and bool(hit) and bool(want_cells - cached)
            if partial:
                partial_seen = True
                note.cls("partial-cache-read")
                if any(v in etgen.AUREL_TENSORS for v in kw["vars"]):
                    note.cls("partial-cache-read:tensor-name")
            elif split and hit:
                note.cls("full-cache-read")
            elif split:
                note.cls("empty-cache-read")
            else:
                note.cls("uncached-read")

            def fail(disc, obs, k=k, kw=kw, split=split):
                o = dict(obs)
                o.update(op=k, request=dict(kw), split_per_it=split)
                note.fail(disc, o)

            # verbose=True is the API default (output swallowed by quiet)
            vb = int(op.get("verbose", 0))
            args = dict(skip_last=False, verbose=vb > 0, it=list(kw["it"]),
                        vars=list(kw["vars"]), rl=rl, restart=restart)
            if vb > 1:
                args.update(veryverbose=True, veryextraverbose=vb > 2)
                note.cls("veryverbose-read")
            try:
                out = quiet(rd.read_data, param, split_per_it=split, **args)
            except Exception as e:  # noqa: BLE001
                fail("raises:cached" if split else "raises:uncached",
                     dict(error=f"{type(e).__name__}: {e}"[:300]))
                out = None
            if out is not None:
                # (i) ground truth
                check_result(out, spec, kw, expected_its, "return:", fail)
                # (i) differential against an uncached read
                if split:
                    try:
                        ref = quiet(rd.read_data, param, split_per_it=False,
                                    **args)
                    except Exception as e:  # noqa: BLE001
                        fail("raises:uncached",
                             dict(error=f"{type(e).__name__}: {e}"[:300]))
                        ref = None
                    if ref is not None:
                        compare_reads(out, ref, spec, kw, fail)
            # (ii) every dataset of every cache file
            cells, odd = scan_cache(root, spec)
            check_cache(cells, odd, spec, fail)
            cached = {c for c in cells if c[1] not in ("it", "t")}
    finally:
        shutil.rmtree(d, ignore_errors=True)
    note.nt(partial_seen)


def compare_reads(out, ref, spec, kw, fail):
    if [int(i) for i in out["it"]] != [int(i) for i in ref["it"]]:
        fail("differs-from-uncached:it",
             dict(got=[int(i) for i in out["it"]],
                  want=[int(i) for i in ref["it"]]))
        return
    tg = [None if v is None else float(v) for v in out["t"]]
    tr = [None if v is None else float(v) for v in ref["t"]]
    if tg != tr:
        fail("differs-from-uncached:t", dict(got=tg, want=tr))
    for akey, _ in expected_keys(spec, kw["vars"]):
        if (akey in out) != (akey in ref):
            fail("differs-from-uncached:keys",
                 dict(key=akey, cached=akey in out, uncached=akey in ref))
            continue
        if akey not in out:
            continue
        for i, (a, b) in enumerate(zip(out[akey], ref[akey])):
            if a is None or b is None:
                if not (a is None and b is None):
                    fail("differs-from-uncached:none",
                         dict(key=akey, it=int(out["it"][i])))
                continue
            if np.shape(a) != np.shape(b) or not np.array_equal(a, b):
                fail("differs-from-uncached:value",
                     dict(key=akey, it=int(out["it"][i])))
                break


def test_history(case, note):
    run_history(case, note)


# ---------------------------------------------------------------------------
# fixed fully generic histories


def _sim(grouped, groups, per_proc, dec, nlev=1, lens=(3,), overlaps=(0,)):
    n = [[5, 4, 6], [6, 7, 5]][:nlev]
    restarts = [dict(dec=dec, perm=5 * r, len=ln, overlap=ov, mode="ok",
                     missing=0, per_proc=per_proc)
                for r, (ln, ov) in enumerate(zip(lens, overlaps))]
    return dict(sim="etsim", n=n, ghost=[2, 1, 3], groups=groups,
                restarts=restarts, stride=2, subcycle=False, first=0,
                origin1=[3, 3, 3], grouped=grouped)


def _op(varsel, itsel, rl=0, rsel=0, split=True, extra=()):
    return dict(varsel=list(varsel), itsel=list(itsel), rlsel=rl, rsel=rsel,
                split=split, extra=list(extra))


RECT8 = dict(kind="rect", k=[[1], [2], [0]], need=[2, 2, 2])
ONE = dict(kind="rect", k=[[], [], []], need=[1, 1, 1])
# request pool for groups [admbase-shift, admbase-lapse]:
#   0 betaup3, 1 betax, 2 betay, 3 betaz, 4 alpha, 5 betaup3
GENERIC = [
    # grouped: one component cached at one iteration, then the tensor at more
    # iterations, then everything again from the cache, on 2 levels and 2
    # overlapping restarts
    dict(sim=_sim(True, ["admbase-shift", "admbase-lapse"], True, RECT8,
                  nlev=2, lens=(3, 2), overlaps=(2, 0)),
         ops=[_op([1], [0]), _op([0], [0, 1, 2]), _op([0, 4], [2, 0, 1, 3]),
              _op([2], [4, 5], rl=1), _op([0], [3, 4, 5, 6], rl=1),
              _op([0], [3, 4, 5, 6], rl=1), _op([], [1, 2], rsel=2),
              _op([0], [0, 1, 2, 3], split=False), _op([0, 4], [0, 1, 2, 3])]),
    # ungrouped, single component, same pattern
    dict(sim=_sim(False, ["admbase-shift", "hydrobase-vel"], False, ONE,
                  lens=(3,), overlaps=(0,)),
         ops=[_op([2], [1]), _op([0], [0, 1, 2]), _op([1, 0], [3, 1]),
              _op([0, 1], [0, 1, 2, 3]), _op([0, 1], [0, 1, 2, 3])]),
    # grouped, later iteration cached first (unsorted fill), all variables
    dict(sim=_sim(True, ["admbase-metric", "admbase-lapse"], False, RECT8,
                  lens=(2, 2), overlaps=(1, 0)),
         ops=[_op([3], [2]), _op([0], [2, 0]), _op([0], [0, 1, 2]),
              _op([], [0, 1, 2, 3]), _op([0, 7], [4, 3, 2, 1, 0])]),
    # a variable and its time derivative (ET names contain one another) in
    # one request, in both orders, uncached and cached, both file layouts
    dict(sim=_sim(False, ["admbase-dtlapse", "admbase-lapse"], False, ONE,
                  lens=(3,), overlaps=(0,)),
         ops=[dict(_op([0], [0, 1], split=False), dtpair=1),
              dict(_op([1], [0, 1, 2]), dtpair=1),
              dict(_op([0], [0, 1, 2, 3], split=False), dtpair=2),
              dict(_op([0], [0, 1, 2, 3]), dtpair=1)]),
    # the two-component tensor Weyl_Psi: request pool for these groups is
    #   0 Weyl_Psi4r, 1 Weyl_Psi4i, 2 alpha, 3 Weyl_Psi, 4 Weyl_Psi
    dict(sim=_sim(False, WEYL_PAIR + ["admbase-lapse"], False, ONE,
                  lens=(3,), overlaps=(0,)),
         ops=[_op([1], [1]), _op([3], [0, 1, 2]), _op([3], [0, 1, 2, 3]),
              _op([], [0, 1, 2, 3]), _op([3, 2], [0, 1], split=False)]),
    dict(sim=_sim(True, ["admbase-shift", "admbase-dtshift"], True, RECT8,
                  lens=(2,), overlaps=(0,)),
         ops=[dict(_op([1], [0, 1], split=False), dtpair=1),
              dict(_op([0], [0, 1, 2]), dtpair=1),
              dict(_op([2], [0, 1, 2], split=False), dtpair=2)]),
]


def selftest():
    # the scanner reads back what aurel's own save_data writes, and
    # check_cache accepts correct content and rejects a misfiled dataset
    spec = etgen.simple_spec(n=(4, 3, 5), ghost=1, restarts=[[0, 2, 4]],
                             groups=["admbase-shift"])
    d = scratch_dir()
    try:
        root = d + "/"
        dd = os.path.join(etgen.restart_dir(root, spec, 0), "all_iterations")
        os.makedirs(dd)
        for it, src in ((0, 0), (2, 2), (4, 2)):
            with h5py.File(os.path.join(dd, f"it_{it}.hdf5"), "w") as f:
                f["betax rl=0"] = etgen.truth(spec, "betax", src, 0, 0)
                f["t rl=0"] = etgen.time_of(spec, it)
                f["it rl=0"] = it
        cells, odd = scan_cache(root, spec)
        assert len(cells) == 9 and not odd
        bad = []
        check_cache(cells, odd, spec, lambda a, b: bad.append(a))
        assert bad == ["cache:value:it"], bad
    finally:
        shutil.rmtree(d, ignore_errors=True)


def subchecks(tier):
    q = tier == "quick"
    return [
        Sub("history", history(8 if q else 12), test_history,
            96 if q else 5000, generic=GENERIC, shards=8 if q else 16,
            max_rounds=6, shrink_quick=False),
    ]
