"""C13 - save_data / read_data round trip in Aurel format.  DESIGN.md
section 4, C13.

A history is a list of operations (``save`` / ``read``) interpreted against a
model ``dict[(layout, it, var, rl)] -> identity of the array most recently
saved``.  Arrays are a pure function of ``(var, it, rl, save-counter, shape)``
and every stored value encodes all four injectively, so that a wrong
iteration, level, variable or a stale (not overwritten) array is not only
detected but can be *named* (that is what the discriminators are made of).
"""
import os
import shutil

import numpy as np
from hypothesis import strategies as st

import aurel
from aurel import reading
from harness.common import HarnessError, Sub, scratch_dir

PROPERTY = "C13"
RULE = (
    "Hypothesis draws a history: a list of save/read operations (2..12) on "
    "tiny grids (2..3 points per axis, non-cubic allowed). save: data['it'] "
    "is any unique sample of {0,1,2,3,4,7,12,40} in any order, stored as list "
    "or ndarray; 1..3 variables out of scalar f8 / scalar i8 / rank-1 "
    "(3,Nx,Ny,Nz) / rank-2 (3,3,Nx,Ny,Nz); 't' present, absent, None or "
    "ragged; each variable full, None as a whole or None at single "
    "iterations; it= default / all / sub-list with duplicates / permutation; "
    "vars= default / [] / sub-list (may name 'it','t', duplicates); rl= "
    "default,0,1,2,10; two datapath directories with/without trailing slash "
    "and the ET-style 'simulation' layout with restart (reads also with a "
    "'simpath' lacking the trailing separator). read: it= default or "
    "any list (missing iterations, duplicates, unsorted), vars= default / [] "
    "/ lists incl. 't', 'it', a never-saved name; rl; with/without slash; "
    "through aurel.read_data, reading.read_data, reading.read_aurel_data. "
    "After the drawn operations a fixed sweep re-reads every (layout, level) "
    "that was written (all iterations; vars=[] and an explicit list). Every "
    "array handed to save encodes (save-counter, variable, level, iteration) "
    "in its values. Sub-checks restrict the generator: subset_perm (no None, "
    "slash, plain vars), none_entries (position == iteration saves with None "
    "entries), args_paths (aligned saves; vars lists, slash variants, 't'/"
    "'it' in vars, ET layout), history (everything together). Non-trivial "
    "history = a read compared an entry with a saved array whose latest save (a) "
    "selected an iteration whose position in data['it'] differs from its "
    "position in sorted(set(it)) (strict subset or permutation), or (b) "
    "overwrote an existing (it,var,rl); for none_entries additionally (c) a "
    "save containing a None entry; for args_paths (d) a read without "
    "trailing slash or naming 't'/'it'/[] after a save.")
ASSUMPTIONS = [
    "the dictionary returned by read_data ('arrays or Nones') is a legal "
    "input of save_data, hence None at single iterations is legal input and "
    "must be skipped (save_data Notes: 'Skips variables with None values')",
    "save it= is always a non-empty subset of data['it'] and data['it'] has "
    "no duplicates (anything else is unspecified)",
    "'datapath' with and without trailing '/' names the same directory for "
    "both save and read (property quantifier); save_data documents nothing "
    "else and handles both",
    "the 'it' column is the sorted list of distinct requested iterations "
    "(read_data: it = sorted(set(it)); read_ET_data relies on it)",
    "with vars=[] extra all-None columns are tolerated; only columns for "
    "variables saved at a requested iteration and level are required",
    "'t' is stored per level like any other variable; a 0-d array is "
    "accepted for a saved python float",
    "exact equality: values, shape and dtype (h5py stores f8/i8 losslessly)",
]

# "tt": a user variable whose name is made of the letters of the reserved
# keys 'it' and 't' (a tt metric component, a proper-time field)
VARS = ["rho", "alpha", "betaup3", "gammadown3", "mask", "tt"]
KIND = {"rho": (), "alpha": (), "betaup3": (3,), "gammadown3": (3, 3),
        "mask": (), "tt": ()}
VIDX = {"rho": 0, "alpha": 1, "betaup3": 2, "gammadown3": 3, "mask": 4,
        "tt": 5, "t": 6}
VNAME = {v: k for k, v in VIDX.items()}
RLS = [0, 1, 2, 10]
IT_POOL = [0, 1, 2, 3, 4, 7, 12, 40]
IT_READ = IT_POOL + [5, 63]


# ---------------------------------------------------------------------------
# injective ground truth


def base(counter, var, rl, it):
    assert 0 <= it < 64 and 0 <= rl < 16 and counter >= 1
    return ((counter * 8 + VIDX[var]) * 16 + rl) * 64 + it


def make(var, it, rl, counter, shape):
    """The array saved by save number ``counter`` for (var, it, rl)."""
    if var == "it":
        return it
    b = base(counter, var, rl, it)
    if var == "t":
        return b + 0.5
    full = KIND[var] + tuple(shape)
    n = int(np.prod(full))
    assert n < 256
    if var == "mask":
        return (b * 256 + np.arange(n, dtype=np.int64)).reshape(full)
    # the dtype of two variables depends on the save number, so that an
    # overwrite can change the dtype while keeping the shape
    if var == "alpha" and counter % 2 == 0:
        return (b * 256 + np.arange(n, dtype=np.int64)).reshape(full)
    a = (b + np.arange(n) / 1024.0).reshape(full)
    if var == "rho" and b < 2 ** 14:
        return a.astype(np.float32)   # b + k/1024 is exact in float32 here
    return a


def decode(x):
    """Identity encoded in an array (or None if it is not one of ours)."""
    try:
        a = np.asarray(x)
        if a.size == 0 or a.dtype == object:
            return None
        v0 = a.flat[0]
        if np.issubdtype(a.dtype, np.integer):
            b = int(v0) // 256
        else:
            if not np.isfinite(v0):
                return None
            b = int(np.floor(v0))
        if b < 0:
            return None
        return dict(it=b % 64, rl=(b // 64) % 16,
                    var=VNAME.get((b // 1024) % 8, "?"), counter=b // 8192)
    except Exception:  # noqa: BLE001
        return None


def mask_none(spec, j):
    return spec > 0 and bool((spec >> j) & 1)


def build_data(op, counter, it_base=0):
    """data dict of a save op; pure function of (op, counter). The iteration
    numbers handed to aurel are it_base + the small numbers of the op."""
    its = op["data_it"]
    rl = op["rl"] if op["rl"] is not None else 0
    real = [it_base + i for i in its]
    data = {"it": np.array(real) if op["it_array"] else list(real)}
    t = op["t"]
    if t == -1:
        data["t"] = None
    elif t >= 0:
        data["t"] = [None if mask_none(t, j)
                     else make("t", i, rl, counter, None)
                     for j, i in enumerate(its)]
    for name, spec in op["vars"]:
        if spec == -1:
            data[name] = None
        else:
            data[name] = [None if mask_none(spec, j)
                          else make(name, i, rl, counter, op["shape"])
                          for j, i in enumerate(its)]
    return data


def same(a, b):
    """Deep equality of argument objects (types, lengths, array contents)."""
    if type(a) is not type(b):
        return False
    if a is None:
        return True
    if isinstance(a, dict):
        return (list(a.keys()) == list(b.keys())
                and all(same(a[k], b[k]) for k in a))
    if isinstance(a, (list, tuple)):
        return len(a) == len(b) and all(same(x, y) for x, y in zip(a, b))
    if isinstance(a, np.ndarray):
        return (a.dtype == b.dtype and a.shape == b.shape
                and np.array_equal(a, b))
    return a == b


def brief(x):
    if x is None:
        return None
    a = np.asarray(x)
    if a.dtype == object:
        return "object-array"
    return dict(shape=list(a.shape), dtype=str(a.dtype),
                first=(float(a.flat[0]) if a.size else None),
                decoded=decode(a))


# ---------------------------------------------------------------------------
# the implementation under test (real aurel) and a reference implementation
# following the docstrings (oracle self-test only)


class RealImpl:
    name = "aurel"

    def __init__(self):
        self.root = scratch_dir()

    def save(self, param, data, **kw):
        return reading.save_data(param, data, **kw)

    def read(self, via, param, **kw):
        fn = {"read_data": reading.read_data,
              "read_aurel_data": reading.read_aurel_data,
              "aurel.read_data": aurel.read_data}[via]
        return fn(param, **kw)

    def close(self):
        shutil.rmtree(self.root, ignore_errors=True)


class RefImpl:
    """In-memory implementation of what the docstrings state; ``bug`` injects
    one of the suspected behaviours so that the self-test can show that the
    oracle fires with the right discriminator."""
    name = "ref"

    def __init__(self, bug=None):
        self.root = "/nonexistent/c13-selftest"
        self.files = {}
        self.bug = bug

    @staticmethod
    def _dir(param, restart):
        if "simulation" in param:
            return os.path.normpath(
                param["simpath"] + param["simname"]
                + f"/output-{restart:04d}/" + param["simname"]
                + "/all_iterations")
        return os.path.normpath(param["datapath"])

    def save(self, param, data, **kw):
        vars_ = list(kw.get("vars", []))
        it = sorted(set(kw.get("it", [0])))
        rl = kw.get("rl", 0)
        if vars_ == []:
            vars_ = list(data.keys())
        for k in ("it", "t"):
            if k not in vars_ and k in data:
                vars_.append(k)
        if self.bug == "mutates-vars" and "vars" in kw:
            kw["vars"].append("it")
        d = self._dir(param, kw.get("restart", 0))
        dits = [int(x) for x in data["it"]]
        for pos, i in enumerate(it):
            idx = pos if self.bug == "positional" else dits.index(i)
            f = self.files.setdefault((d, i), {})
            for key in vars_:
                if data[key] is None:
                    continue
                val = data[key][idx]
                if val is None:
                    if self.bug == "none-raises":
                        raise TypeError("None entry")
                    continue
                skey = f"{key} rl={rl}"
                if self.bug == "no-overwrite" and skey in f:
                    continue
                f[skey] = np.array(val)

    def read(self, via, param, **kw):
        it = sorted(set(kw.get("it", [0])))
        rl = kw.get("rl", 0)
        var = list(dict.fromkeys(kw.get("vars", [])))
        d = self._dir(param, kw.get("restart", 0))
        if self.bug == "slash" and "datapath" in param \
                and not param["datapath"].endswith("/"):
            d = d + "-elsewhere"
        if self.bug == "wrong-rl":
            rl = {0: 1, 1: 0}.get(rl, rl)
        get_all = var == []
        names = [v for v in var if v not in ("it", "t")]
        if get_all:
            for i in it:
                for skey in self.files.get((d, i), {}):
                    n, r = skey.split(" rl=")
                    if int(r) == rl and n not in ("it", "t") \
                            and n not in names:
                        names.append(n)
        out = {"it": np.array(it), "t": []}
        for n in names:
            out[n] = []
        for i in it:
            f = self.files.get((d, i), {})
            for n in ["t"] + names:
                v = f.get(f"{n} rl={rl}")
                out[n].append(None if v is None else np.array(v))
                if self.bug == "t-double" and n == "t" and "t" in var:
                    out[n].append(None if v is None else np.array(v))
        return out

    def close(self):
        pass


# ---------------------------------------------------------------------------
# interpreter


def layout_param(root, lay, slash, restart):
    """-> (param dict, model key of the directory)."""
    if lay == "et":
        r = 0 if restart is None else restart
        return (dict(simulation="ET", simpath=root + "/", simname="sim"),
                ("et", r))
    sub = {"d0": "d0", "d1": "d1/sub"}[lay]
    return dict(datapath=root + "/" + sub + ("/" if slash else "")), (lay,)


class Hist:
    def __init__(self, impl, note, focus, it_base=0):
        self.impl = impl
        self.note = note
        self.focus = focus
        # late output of a long run: large, closely spaced iteration numbers
        self.base = int(it_base)
        if self.base:
            note.cls("iterations-offset-by=%d" % self.base)
        self.model = {}       # (dirkey, it, var, rl) -> meta dict
        self.tainted = set()
        self.saves = {}       # counter -> record
        self.counter = 0
        self.nontrivial = False
        self.written = []     # (lay, restart, rl) in order of first write
        self.read_after_save_special = False

    def real_it(self, op):
        """the it= argument handed to aurel (None = omitted: the library
        default [0], only meaningful without an iteration offset)"""
        if op["it"] is None:
            return [self.base] if self.base else None
        return [self.base + i for i in op["it"]]

    # -- save ---------------------------------------------------------------
    def save(self, op):
        note = self.note
        self.counter += 1
        c = self.counter
        param, dk = layout_param(self.impl.root, op["layout"], op["slash"],
                                 op.get("restart"))
        param0 = dict(param)
        data = build_data(op, c, self.base)
        data0 = build_data(op, c, self.base)
        kw = {}
        it_arg = self.real_it(op)
        vars_arg = None if op["vars_arg"] is None else list(op["vars_arg"])
        if it_arg is not None:
            kw["it"] = it_arg
        if vars_arg is not None:
            kw["vars"] = vars_arg
        if op["rl"] is not None:
            kw["rl"] = op["rl"]
        if op["layout"] == "et" and op.get("restart") is not None:
            kw["restart"] = op["restart"]
        rl = op["rl"] if op["rl"] is not None else 0
        dits = list(op["data_it"])
        S = sorted(set(op["it"] if op["it"] is not None else [0]))
        if not set(S) <= set(dits) or len(set(dits)) != len(dits):
            raise HarnessError(f"C13: invalid save op {op}")
        V = list(dict.fromkeys(op["vars_arg"] or []))
        if not V:
            V = list(data0.keys())
        for k in ("it", "t"):
            if k in data0 and k not in V:
                V.append(k)
        V = [v for v in V if v != "it"]
        # what the documented behaviour writes
        writes = {}
        none_selected = False
        positional_none = False
        misaligned = False
        for pos, i in enumerate(S):
            idx = dits.index(i)
            if idx != pos:
                misaligned = True
            for v in V:
                if data0[v] is None:
                    continue
                if data0[v][pos] is None:
                    positional_none = True
                if data0[v][idx] is None:
                    none_selected = True
                    continue
                shape = None if v == "t" else list(op["shape"])
                writes[(dk, i, v, rl)] = dict(
                    counter=c, var=v, it=i, rl=rl, shape=shape,
                    nt=idx != pos, pos_none=data0[v][pos] is None)
        has_none = any(x is None or (isinstance(x, list)
                                     and any(y is None for y in x))
                       for x in data0.values())
        note.cls("op:save")
        if set(S) < set(dits):
            note.cls("save:strict-subset")
        if misaligned:
            note.cls("save:position!=iteration")
        if has_none:
            note.cls("save:has-None")
        if none_selected:
            note.cls("save:None-at-selected-iteration")
        if any(KIND[n] for n, _ in op["vars"]):
            note.cls("save:tensor")
        if rl != 0:
            note.cls("save:rl>0")
        if op["layout"] == "et":
            note.cls("layout:et")
        if not op["slash"] and op["layout"] != "et":
            note.cls("save:no-slash")
        overwrite = any(k in self.model for k in writes)
        if overwrite:
            note.cls("save:overwrite")
        self.saves[c] = dict(S=S, V=V, rl=rl, dk=dk, dits=dits)

        err = None
        try:
            self.impl.save(param, data, **kw)
        except Exception as e:  # noqa: BLE001
            err = e
        # caller's objects untouched (also after an exception)
        if vars_arg is not None and vars_arg != list(op["vars_arg"]):
            note.fail("save:mutates-vars",
                      dict(before=op["vars_arg"], after=vars_arg))
        if it_arg is not None and it_arg != self.real_it(op):
            note.fail("save:mutates-it", dict(before=op["it"], after=it_arg))
        if not same(param, param0):
            note.fail("save:mutates-param", dict(before=param0, after=param))
        if not same(data, data0):
            note.fail("save:mutates-data",
                      dict(keys_before=list(data0), keys_after=list(data)))
        keys = [(dk, i, v, rl) for i in S for v in V]
        if err is not None:
            if none_selected and isinstance(err, TypeError):
                disc = "save:None-entry-raises"
            elif positional_none and misaligned \
                    and isinstance(err, TypeError):
                # no selected entry is None, but the entry at the selected
                # iteration's *position in sorted(set(it))* is
                disc = "save:positional-index"
            else:
                disc = f"save:raises:{type(err).__name__}"
            note.fail(disc, dict(error=f"{type(err).__name__}: {err}",
                                 data_it=dits, it=op["it"],
                                 vars=op["vars_arg"], specs=op["vars"],
                                 t=op["t"]))
            self.tainted.update(keys)   # partially written: state unknown
            return
        for k, meta in writes.items():
            meta["nt"] = meta["nt"] or k in self.model
            meta["with_none"] = has_none
            self.model[k] = meta
            self.tainted.discard(k)
        w = (op["layout"], op.get("restart"), rl)
        if w not in self.written:
            self.written.append(w)

    # -- read ---------------------------------------------------------------
    def call_read(self, op, slash, param_override=None):
        param, dk = layout_param(self.impl.root, op["layout"], slash,
                                 op.get("restart"))
        if param_override:
            param.update(param_override)
        param0 = dict(param)
        kw = {}
        it_arg = self.real_it(op)
        vars_arg = None if op["vars_arg"] is None else list(op["vars_arg"])
        if it_arg is not None:
            kw["it"] = it_arg
        if vars_arg is not None:
            kw["vars"] = vars_arg
        if op["rl"] is not None:
            kw["rl"] = op["rl"]
        if op["layout"] == "et" and op.get("restart") is not None:
            kw["restart"] = op["restart"]
        via = "read_aurel_data" if op["layout"] == "et" else op["via"]
        out = []
        r = None
        try:
            r = self.impl.read(via, param, **kw)
        except Exception as e:  # noqa: BLE001
            out.append((f"read:raises:{type(e).__name__}",
                        dict(error=f"{type(e).__name__}: {e}",
                             it=op["it"], vars=op["vars_arg"])))
        if vars_arg is not None and vars_arg != list(op["vars_arg"]):
            out.append(("read:mutates-vars",
                        dict(before=op["vars_arg"], after=vars_arg)))
        if it_arg is not None and it_arg != self.real_it(op):
            out.append(("read:mutates-it",
                        dict(before=op["it"], after=it_arg)))
        if not same(param, param0):
            out.append(("read:mutates-param", dict(after=param)))
        return r, dk, out

    def read(self, op):
        note = self.note
        rl = op["rl"] if op["rl"] is not None else 0
        req = sorted(set(op["it"] if op["it"] is not None else [0]))
        vreq = list(op["vars_arg"] or [])
        slash = op["slash"] or op["layout"] == "et"
        note.cls("op:read")
        if not slash:
            note.cls("read:no-slash")
        if not vreq:
            note.cls("read:vars-all")
        if "t" in vreq:
            note.cls("read:vars-has-t")
        if "it" in vreq:
            note.cls("read:vars-has-it")
        r, dk, out = self.call_read(op, slash)
        verified = []
        if r is not None:
            out += self.check_read(dk, rl, req, vreq, r, verified)
        if out and not slash:
            # is the missing slash the cause?  read-only, so repeat with it
            r2, _, out2 = self.call_read(op, True)
            ver2 = []
            if r2 is not None:
                out2 += self.check_read(dk, rl, req, vreq, r2, ver2)
            d2 = {d for d, _ in out2}
            if any(d not in d2 for d, _ in out):
                got = None
                if isinstance(r, dict):
                    got = {k: [x is not None for x in v]
                           for k, v in r.items() if k != "it"}
                out = out2 + [("read:trailing-slash", dict(
                    datapath="<root>/" + op["layout"], it=req, vars=vreq,
                    not_None_without_slash=got,
                    failures_without_slash=sorted(
                        {d for d, _ in out} - d2)))]
                verified = ver2
        if op["layout"] == "et" and not op["slash"]:
            # hand-written ET-style dicts whose 'simpath' lacks the trailing
            # separator: (a) the separator carried by 'simname' instead (same
            # directory), (b) plainly missing (another directory; whatever
            # the call does there, it must not touch the caller's dict)
            note.cls("read:et-simpath-no-slash")
            root = self.impl.root
            r3, _, out3 = self.call_read(op, True, dict(simpath=root,
                                                        simname="/sim"))
            out += [(d, o) for d, o in out3 if "mutates" in d]
            if r3 is not None and r is not None and not same(
                    {k: list(v) if not isinstance(v, np.ndarray) else v
                     for k, v in r3.items()},
                    {k: list(v) if not isinstance(v, np.ndarray) else v
                     for k, v in r.items()}):
                out.append(("read:et-simpath-separator-in-simname-differs",
                            dict(it=req, vars=vreq)))
            _, _, out4 = self.call_read(op, True, dict(simpath=root))
            out += [(d, o) for d, o in out4 if "mutates" in d]
        for d, o in out:
            note.fail(d, o)
        special = (not slash) or (not vreq) or "t" in vreq or "it" in vreq
        for meta in verified:
            if meta["nt"]:
                self.nontrivial = True
            if self.focus == "none" and meta.get("with_none"):
                self.nontrivial = True
            if self.focus == "args" and special:
                self.nontrivial = True

    def check_read(self, dk, rl, req, vreq, r, verified):
        out = []
        if not isinstance(r, dict):
            return [("read:not-a-dict", dict(type=type(r).__name__))]
        vset = list(dict.fromkeys(vreq))
        # 'it' column
        if "it" not in r:
            out.append(("read:no-it-column", dict(keys=list(r))))
        else:
            try:
                got = [None if x is None else int(x) - self.base
                       for x in r["it"]]
            except Exception:  # noqa: BLE001
                got = ["?"]
            if got != req:
                if "it" in vset:
                    d = "read:it-in-vars"
                elif None not in got and "?" not in got \
                        and sorted(got) == req:
                    d = "read:it-order"
                else:
                    d = "read:it-column"
                out.append((d, dict(got=got, want=req, vars=vreq)))
        # required columns
        if vset:
            want = (set(vset) - {"it"}) | {"t"}
        else:
            want = {"t"} | {k[2] for k in self.model
                            if k[0] == dk and k[3] == rl and k[1] in req
                            and k not in self.tainted}
        for cname in sorted(want):
            if cname not in r:
                out.append(("read:missing-column",
                            dict(column=cname, keys=list(r), vars=vreq)))
        for k, col in r.items():
            if k == "it":
                continue
            try:
                n = len(col)
            except TypeError:
                out.append(("read:column-not-a-sequence", dict(column=k)))
                continue
            if n != len(req):
                if k == "t" and "t" in vset:
                    d = "read:t-column-length"
                else:
                    d = "read:column-length"
                out.append((d, dict(column=k, length=n, requested=req,
                                    vars=vreq)))
                continue
            for j, i in enumerate(req):
                key = (dk, i, k, rl)
                if key in self.tainted:
                    continue
                exp = self.model.get(key)
                bad = self.compare(exp, col[j], key)
                if bad:
                    out.append(bad)
                if exp is not None:
                    verified.append(exp)    # compared with a saved array
        return out

    def compare(self, exp, got, key):
        dk, i, v, rl = key
        if exp is None:
            if got is None:
                return None
            dec = decode(got)
            obs = dict(iteration=i, var=v, rl=rl, want=None, got=brief(got))
            sv = self.saves.get(dec["counter"]) if dec else None
            if sv and i in sv["S"] and v in sv["V"] and sv["rl"] == rl \
                    and sv["dk"] == dk and dec["it"] != i:
                return ("save:positional-index", obs)
            if dec and dec["rl"] != rl:
                return ("read:wrong-level", obs)
            return ("read:phantom-data", obs)
        want = make(v, i, rl, exp["counter"], exp["shape"])
        obs = dict(iteration=i, var=v, rl=rl,
                   want=brief(want), got=brief(got))
        if got is None:
            if exp["pos_none"]:
                # by iteration there was an array, by position a None
                obs["hint"] = "data[var][position in sorted(set(it))] is None"
                return ("save:positional-index", obs)
            return ("read:saved-data-missing", obs)
        if not isinstance(got, (np.ndarray, np.generic, float, int)):
            return ("read:entry-type", dict(type=type(got).__name__, **obs))
        g = np.asarray(got)
        w = np.asarray(want)
        if g.shape == w.shape and np.array_equal(g, w):
            if v != "t" and g.dtype != w.dtype:
                return ("read:dtype", obs)
            return None
        dec = decode(g)
        if dec is None:
            return ("read:content", obs)
        if dec["var"] != v:
            return ("read:wrong-variable", obs)
        if dec["rl"] != rl:
            return ("read:wrong-level", obs)
        if dec["it"] != i:
            sv = self.saves.get(dec["counter"])
            if sv and i in sv["S"] and dec["it"] in sv["dits"]:
                obs["save"] = dict(data_it=sv["dits"], it=sv["S"])
                return ("save:positional-index", obs)
            return ("read:wrong-iteration", obs)
        if dec["counter"] != exp["counter"]:
            if exp["pos_none"]:
                obs["hint"] = "data[var][position in sorted(set(it))] is None"
                return ("save:positional-index", obs)
            return ("save:overwrite-not-latest", obs)
        return ("read:content", obs)

    # -- final sweep --------------------------------------------------------
    def sweep(self):
        for lay, restart, rl in list(self.written):
            for vars_arg in ([], list(VARS)):
                self.read(dict(op="read", layout=lay, restart=restart,
                               slash=True, it=list(IT_POOL),
                               vars_arg=vars_arg, rl=rl,
                               via="read_data"))


def run_history(case, note, impl=None, focus=None):
    focus = case.get("focus", focus)
    own = impl is None
    impl = impl or RealImpl()
    try:
        h = Hist(impl, note, focus, case.get("it_base", 0))
        for op in case["ops"]:
            if op["op"] == "save":
                h.save(op)
            elif op["op"] == "read":
                h.read(op)
            else:
                raise HarnessError(f"C13: unknown op {op}")
        h.sweep()
        note.nt(h.nontrivial)
    finally:
        if own:
            impl.close()


def test_history(case, note):
    run_history(case, note)


# ---------------------------------------------------------------------------
# generators

MODES = {
    # everything
    "history": dict(unaligned=True, none=True, anyvars=True, noslash=True,
                    special=True, et=True),
    # positional vs by-iteration lookup, overwrites, levels: nothing else
    "subset_perm": dict(unaligned=True, none=False, anyvars=False,
                        noslash=False, special=False, et=False),
    # None handling on saves where position == iteration
    "none_entries": dict(unaligned=False, none=True, anyvars=False,
                         noslash=False, special=False, et=False),
    # argument objects, path spelling, vars naming 't'/'it', ET layout
    "args_paths": dict(unaligned=False, none=False, anyvars=True,
                       noslash=True, special=True, et=True),
}
FOCUS = {"history": None, "subset_perm": None, "none_entries": "none",
         "args_paths": "args"}


@st.composite
def save_op(draw, m):
    its = draw(st.lists(st.sampled_from(IT_POOL), min_size=1, max_size=4,
                        unique=True))
    kinds = ["all", "all", "default"]
    if m["unaligned"]:
        kinds += ["subset", "subset", "perm"]
    kind = draw(st.sampled_from(kinds))
    if kind == "default" and 0 not in its:
        its[draw(st.integers(0, len(its) - 1))] = 0
    if not m["unaligned"]:
        its = sorted(its)
    if kind == "default":
        it_arg = None
    elif kind == "all":
        it_arg = list(its)
    elif kind == "perm":
        it_arg = list(draw(st.permutations(its)))
    else:
        it_arg = draw(st.lists(st.sampled_from(its), min_size=1,
                               max_size=len(its)))
    names = draw(st.lists(st.sampled_from(VARS), min_size=1, max_size=3,
                          unique=True))
    if m["none"]:
        spec = st.one_of(st.sampled_from([0, 0, -1]), st.integers(1, 15))
        t = draw(st.one_of(st.sampled_from([0, 0, -2, -1]),
                           st.integers(1, 15)))
    else:
        spec = st.just(0)
        t = draw(st.sampled_from([0, 0, 0, -2]))
    vars_ = [[n, draw(spec)] for n in names]
    extra = ["it"] + (["t"] if t != -2 else [])
    vk = draw(st.sampled_from(["default", "empty", "list", "list"]))
    if vk == "default":
        vars_arg = None
    elif vk == "empty":
        vars_arg = []
    elif m["anyvars"]:
        vars_arg = draw(st.lists(st.sampled_from(names + extra),
                                 min_size=1, max_size=4))
    else:
        # a list that already names 'it' and 't' (nothing to append)
        sel = draw(st.lists(st.sampled_from(names), min_size=1,
                            max_size=3, unique=True))
        vars_arg = sel + extra
    lays = ["d0", "d0", "d1"] + (["et"] if m["et"] else [])
    lay = draw(st.sampled_from(lays))
    return dict(
        op="save", layout=lay,
        restart=(draw(st.sampled_from([None, 0, 1])) if lay == "et"
                 else None),
        slash=draw(st.booleans()),
        data_it=its, it_array=draw(st.booleans()), t=t, vars=vars_,
        shape=[draw(st.integers(2, 3)) for _ in range(3)],
        it=it_arg, vars_arg=vars_arg,
        rl=draw(st.sampled_from([None, None, 0, 1, 1, 2, 10])))


@st.composite
def read_op(draw, m):
    it = draw(st.one_of(st.none(), st.lists(st.sampled_from(IT_READ),
                                            min_size=1, max_size=5)))
    pool = VARS + ["nothere"] + (["t", "t", "it", "it"] if m["special"]
                                 else [])
    vars_arg = draw(st.one_of(
        st.none(), st.just([]),
        st.lists(st.sampled_from(pool), min_size=1, max_size=4)))
    lays = ["d0", "d0", "d1"] + (["et"] if m["et"] else [])
    lay = draw(st.sampled_from(lays))
    return dict(
        op="read", layout=lay,
        restart=(draw(st.sampled_from([None, 0, 1])) if lay == "et"
                 else None),
        slash=(draw(st.booleans()) if m["noslash"] else True),
        it=it, vars_arg=vars_arg,
        rl=draw(st.sampled_from([None, None, 0, 1, 1, 2, 10])),
        via=draw(st.sampled_from(["read_data", "read_aurel_data",
                                  "aurel.read_data"])))


def history(name, max_ops):
    m = MODES[name]
    mix = ([save_op(m), read_op(m), read_op(m)] if name == "args_paths"
           else [save_op(m), save_op(m), read_op(m)])
    ops = st.lists(st.one_of(*mix), min_size=2, max_size=max_ops)
    return st.tuples(ops, st.sampled_from([0, 0, 0, 3000000, 10 ** 9])).map(
        lambda o: dict(focus=FOCUS[name], ops=o[0], it_base=o[1]))


# ---------------------------------------------------------------------------
# fixed fully generic histories (run first in every tier)


def _S(data_it, it, names, **k):
    d = dict(op="save", layout="d0", restart=None, slash=True,
             data_it=data_it, it_array=False, t=0,
             vars=[[n, 0] for n in names], shape=[2, 3, 2], it=it,
             vars_arg=None, rl=None)
    d.update(k)
    return d


def _R(it, vars_arg, **k):
    d = dict(op="read", layout="d0", restart=None, slash=True, it=it,
             vars_arg=vars_arg, rl=None, via="read_data")
    d.update(k)
    return d


GENERIC = {
    "subset_perm": [dict(focus=None, ops=[
        # unsorted dictionary, everything saved
        _S([7, 0, 3], [7, 0, 3], ["rho", "gammadown3"]),
        _R([0, 3, 7], ["rho", "gammadown3"]),
        # strict subset of a sorted dictionary, other level
        _S([0, 1, 2, 12], [2, 12], ["rho", "betaup3"], rl=1,
           vars_arg=["rho", "betaup3", "it", "t"], it_array=True),
        _R([12, 2, 1], [], rl=1, via="read_aurel_data"),
        # overwrite part of the first save from a different dictionary
        _S([3, 40, 0], [0, 3], ["rho", "mask"], shape=[3, 2, 2]),
        _R([0, 3, 7, 40], ["rho", "mask", "gammadown3"],
           via="aurel.read_data"),
        # default it ([0]) from a dictionary that does not start with 0
        _S([4, 0], None, ["alpha"], layout="d1", slash=False, rl=2),
        _R(None, None, layout="d1", rl=2),
    ])],
    "none_entries": [dict(focus="none", ops=[
        _S([0, 1, 2], [0, 1, 2], ["rho", "betaup3"]),
        # whole-variable None (documented), must leave the old rho alone
        _S([0, 1, 2], [0, 1, 2], ["rho", "alpha"],
           vars=[["rho", -1], ["alpha", 0]]),
        _R([0, 1, 2], ["rho", "alpha"]),
        # None at single iterations: skipped, older data stay
        _S([0, 1, 2], [0, 1, 2], ["rho", "betaup3"],
           vars=[["rho", 2], ["betaup3", 5]]),
        _R([0, 1, 2], []),
        # ragged t / t None as a whole (what read_data returns when there
        # is no time information)
        _S([3, 4], [3, 4], ["mask"], t=1, rl=1),
        _S([3, 4], [3, 4], ["mask"], t=-1, rl=1,
           vars_arg=["mask", "it", "t"]),
        _R([3, 4], ["mask"], rl=1),
    ])],
    "args_paths": [dict(focus="args", ops=[
        _S([0, 1], [0, 1], ["rho", "alpha"], vars_arg=["rho"], slash=False),
        _R([0, 1], ["rho"], slash=False),
        _R([0, 1], ["rho", "t"]),
        _R([0, 1, 5], ["it", "alpha"], via="read_aurel_data"),
        _R([1, 0, 5], [], slash=False, via="aurel.read_data"),
        _S([0, 1], [0, 1], ["gammadown3"], vars_arg=["gammadown3", "t"],
           layout="et", restart=1, rl=1),
        _R([0, 1], ["gammadown3"], layout="et", restart=1, rl=1),
        _R([0, 1], ["gammadown3"], layout="et", restart=None, rl=1),
        _S([2], [2], ["mask"], vars_arg=["mask", "mask"], layout="d1",
           t=-2),
        _R([2], ["mask", "nothere"], layout="d1", slash=False),
    ])],
}
# minimal histories, one per suspected root cause, run before the rich ones
# so that a replay file of a known cause is short
MINIMAL = {
    "subset_perm": [
        dict(focus=None, ops=[_S([0, 1, 2], [2], ["rho"]),
                              _R([2], ["rho"])]),
        dict(focus=None, ops=[_S([1, 0], [1, 0], ["rho"]),
                              _R([0, 1], ["rho"])]),
    ],
    "none_entries": [
        dict(focus="none", ops=[_S([0, 1], [0, 1], ["rho"],
                                   vars=[["rho", 2]]),
                                _R([0, 1], ["rho"])]),
    ],
    "args_paths": [
        dict(focus="args", ops=[_S([0], [0], ["rho"], vars_arg=["rho"]),
                                _R([0], ["rho"])]),
        dict(focus="args", ops=[_S([0], [0], ["rho"], slash=False),
                                _R([0], ["rho"], slash=False)]),
        dict(focus="args", ops=[_S([0], [0], ["rho"]),
                                _R([0], ["rho", "t"])]),
        dict(focus="args", ops=[_S([0], [0], ["rho"]),
                                _R([0, 1], ["rho", "it"])]),
    ],
}
GENERIC["history"] = [dict(focus=None, ops=[
    op for name in ("subset_perm", "none_entries", "args_paths")
    for op in GENERIC[name][0]["ops"]]), dict(focus=None, ops=[
        # the user scenario that chains three of the suspected behaviours:
        # one vars list reused for save and read
        _S([12, 4, 40], [40, 4], ["rho", "betaup3"],
           vars=[["rho", 0], ["betaup3", 1]], vars_arg=["rho", "betaup3"],
           slash=False, layout="d1"),
        _R([4, 40], ["rho", "betaup3", "it", "t"], slash=False,
           layout="d1"),
    ])]
GENERIC["history"] = ([dict(c, focus=None) for n in MINIMAL
                       for c in MINIMAL[n]] + GENERIC["history"])
for _n in MINIMAL:
    GENERIC[_n] = MINIMAL[_n] + GENERIC[_n]


# ---------------------------------------------------------------------------
# oracle self-test: quiet on a documented-behaviour implementation, fires
# with the intended discriminator on each injected behaviour


class _Note:
    def __init__(self):
        self.failed = {}
        self.nontrivial = False

    def fail(self, d, o=None):
        self.failed.setdefault(d, o)

    def nt(self, flag=True):
        self.nontrivial = bool(flag)

    def cls(self, *a):
        pass


def selftest():
    # encoding is injective over its whole range
    seen = set()
    for c in (1, 2, 40):
        for v in VIDX:
            for rl in RLS:
                for i in IT_READ:
                    b = base(c, v, rl, i)
                    assert b not in seen
                    seen.add(b)
                    x = make(v, i, rl, c, [2, 3, 2])
                    d = decode(x)
                    assert (d["counter"], d["var"], d["rl"], d["it"]) == \
                        (c, v, rl, i), (d, c, v, rl, i)
    expect = {
        None: set(),
        "positional": {"save:positional-index"},
        "mutates-vars": {"save:mutates-vars"},
        "none-raises": {"save:None-entry-raises"},
        "no-overwrite": {"save:overwrite-not-latest"},
        "slash": {"read:trailing-slash"},
        "t-double": {"read:t-column-length"},
        "wrong-rl": {"read:wrong-level"},
    }
    for bug, want in expect.items():
        found = set()
        nt = False
        for name in ("history", "subset_perm", "none_entries", "args_paths"):
            for case in GENERIC[name]:
                n = _Note()
                run_history(case, n, impl=RefImpl(bug), focus=FOCUS[name])
                found |= set(n.failed)
                nt = nt or n.nontrivial
                if bug is None and not n.nontrivial and not (
                        name == "history" and len(case["ops"]) == 2):
                    # (the two-operation minimal histories of the focused
                    # sub-checks are trivial under the plain rule)
                    raise HarnessError(
                        f"C13 self-test: generic case of {name} is trivial")
        if bug is None and found:
            raise HarnessError(f"C13 self-test: oracle fires on the "
                               f"reference implementation: {found}")
        if bug == "wrong-rl":
            found &= want   # knock-on None/missing-column reports allowed
        if bug is not None and found != want:
            raise HarnessError(f"C13 self-test: injected '{bug}' gave "
                               f"{found}, expected within {want}")


def subchecks(tier):
    q = tier == "quick"

    def sub(name, max_ops, examples, shards):
        # the runner deals fixed cases round-robin over the shards
        # (fixed[shard::nshards]) and excludes found discriminators per
        # shard; every shard gets every generic history so that known root
        # causes are excluded up front instead of being re-shrunk per shard
        gen = [g for g in GENERIC[name] for _ in range(shards)]
        return Sub(name, history(name, max_ops), test_history, examples,
                   generic=gen, shards=shards, max_rounds=8)

    return [
        sub("history", 12, 240 if q else 8000, 8 if q else 16),
        sub("subset_perm", 8, 120 if q else 3000, 4),
        sub("none_entries", 8, 120 if q else 3000, 4),
        sub("args_paths", 8, 120 if q else 3000, 4),
    ]
