"""C07 - finite-difference operators are the stated-order derivative at every
grid point.  DESIGN.md section 4, C07."""
from fractions import Fraction

import numpy as np
from hypothesis import strategies as st

import aurel
from harness.common import PropertyFailure, Sub

PROPERTY = "C07"
EXHAUSTIVE = True
RULE = ("weights: exhaustive sweep fd_order{2,4,6,8} x boundary{no boundary,"
        "periodic,symmetric} x N(min supported..Nmax) x axis{x,y,z}; the full "
        "weight matrix is extracted with unit impulses and every row compared "
        "with exact Fornberg weights (fractions.Fraction); each cell is a "
        "distinct non-trivial case. generated: Hypothesis draws non-cubic "
        "grids with distinct spacings and smooth/polynomial fields for "
        "axis-exchange, component-wise and polynomial-exactness oracles; "
        "a fifth of the weight cells put the box ~1e5 spacings from the "
        "origin with the spacing given through the parameter dictionary; "
        "component-wise also checks homogeneity at amplitudes 2^-200..2^100 "
        "and differentiates the same array object again after its contents "
        "were replaced in place; integer and float32 storage; mode names are "
        "passed as run-time strings. "
        "non-trivial = non-cubic grid with three distinct spacings.")
ASSUMPTIONS = [
    "minimum supported N is taken as 3p/2 (one-sided) and p/2+1 (periodic, "
    "symmetric); below it the property claims nothing",
    "symmetric mode mirrors about the first and last grid point (ghost -k -> "
    "k, N-1+k -> N-1-k), as d3_symmetric documents",
    "float64 round-off: 16 ulp of the largest weight / h",
]


def fornberg(offsets):
    """Exact first-derivative weights for integer offsets (Fractions)."""
    n = len(offsets)
    A = [[Fraction(o) ** k for o in offsets] for k in range(n)]
    b = [Fraction(1) if k == 1 else Fraction(0) for k in range(n)]
    # Gaussian elimination in exact arithmetic
    M = [row[:] + [bb] for row, bb in zip(A, b)]
    for c in range(n):
        piv = next(r for r in range(c, n) if M[r][c] != 0)
        M[c], M[piv] = M[piv], M[c]
        pv = M[c][c]
        M[c] = [v / pv for v in M[c]]
        for r in range(n):
            if r != c and M[r][c] != 0:
                f = M[r][c]
                M[r] = [a - f * bb for a, bb in zip(M[r], M[c])]
    return [M[r][n] for r in range(n)]


_W = {}


def weights(offsets):
    key = tuple(offsets)
    if key not in _W:
        _W[key] = fornberg(list(offsets))
    return _W[key]


def expected_matrix(p, boundary, N):
    m = p // 2
    W = [[Fraction(0)] * N for _ in range(N)]
    for i in range(N):
        if boundary == "no boundary":
            if i < m:
                offs = list(range(0, p + 1))
            elif i >= N - m:
                offs = list(range(-p, 1))
            else:
                offs = list(range(-m, m + 1))
            idx = [i + o for o in offs]
        elif boundary == "periodic":
            offs = list(range(-m, m + 1))
            idx = [(i + o) % N for o in offs]
        else:
            offs = list(range(-m, m + 1))
            idx = []
            for o in offs:
                j = i + o
                if j < 0:
                    j = -j
                if j > N - 1:
                    j = 2 * (N - 1) - j
                idx.append(j)
        for w, j in zip(weights(offs), idx):
            W[i][j] += w
    return W


def min_n(p, boundary):
    return 3 * p // 2 if boundary == "no boundary" else p // 2 + 1


def mkfd(shape, dxs, p, boundary, mins=(0.0, 0.0, 0.0)):
    # the mode name as run-time data (read from a file, an argument parser):
    # an equal string, not the same object as any literal
    boundary = "".join(list(boundary))
    prm = dict(Nx=shape[0], Ny=shape[1], Nz=shape[2],
               xmin=mins[0], ymin=mins[1], zmin=mins[2],
               dx=dxs[0], dy=dxs[1], dz=dxs[2])
    return aurel.FiniteDifference(prm, boundary=boundary, fd_order=p,
                                  verbose=False)


def test_weights(case, note):
    p, boundary, N, axis, h = (case["order"], case["boundary"], case["N"],
                               case["axis"], case["h"])
    note.nt()
    note.cls(f"p={p}", boundary, f"axis={axis}")
    # grid: differentiated axis has N points, impulse axis N, third axis 2
    other = [a for a in range(3) if a != axis]
    shape = [0, 0, 0]
    shape[axis] = N
    shape[other[0]] = N
    shape[other[1]] = 2
    if case.get("far"):
        # the spacing given in the parameter dictionary is the one the
        # operators use, wherever the box is: origin ~1e5 spacings (or 1e8
        # for small h) away, non-dyadic
        note.cls("box-far-from-origin")
        dxs = [h, h, h]
        fd = mkfd(shape, dxs, p, boundary,
                  mins=(123456.7, -98765.4321, 3.3e5 + 0.1))
        if fd.dx != h or fd.dy != h or fd.dz != h:
            raise PropertyFailure("spacing-attribute",
                                  dict(dx=fd.dx, dy=fd.dy, dz=fd.dz, want=h))
    else:
        # integer grid (dx=1) to avoid the arange length issue (C16's)
        dxs = [1.0, 1.0, 1.0]
        fd = mkfd(shape, dxs, p, boundary)
        # derivative spacing h is injected through inverse_d* (public
        # attribute)
        setattr(fd, "inverse_d" + "xyz"[axis], 1.0 / h)
    f = np.zeros(shape)
    for j in range(N):
        ix = [0, 0, 0]
        ix[axis] = j
        ix[other[0]] = j
        for c in range(2):
            ix[other[1]] = c
            f[tuple(ix)] = 1.0 + c  # second copy scaled by 2: linearity
    op = [fd.d3x, fd.d3y, fd.d3z][axis]
    try:
        d = op(f)
    except Exception as e:  # noqa: BLE001
        raise PropertyFailure(f"raises:{type(e).__name__}",
                              dict(error=str(e)))
    if d.shape != tuple(shape):
        raise PropertyFailure("shape", dict(got=list(d.shape), want=shape))
    d = np.moveaxis(d, (axis, other[0], other[1]), (0, 1, 2))
    E = expected_matrix(p, boundary, N)
    Ef = np.array([[float(v) for v in row] for row in E]) / h
    tol = 16 * np.finfo(float).eps * np.max(np.abs(Ef))
    for c in range(2):
        err = np.abs(d[:, :, c] - (1.0 + c) * Ef)
        if np.max(err) > tol * (1 + c):
            i, j = np.unravel_index(np.argmax(err), err.shape)
            m = p // 2
            where = ("left-edge" if i < m else "right-edge" if i >= N - m
                     else "interior")
            raise PropertyFailure(
                f"weight:{where}",
                dict(row=int(i), col=int(j), got=float(d[i, j, c]),
                     want=float((1.0 + c) * Ef[i, j]), copy=c))


def weight_cells(nmax, hs):
    cells = []
    k = 0
    for p in (2, 4, 6, 8):
        for b in ("no boundary", "periodic", "symmetric"):
            for N in range(min_n(p, b), nmax + 1):
                for axis in range(3):
                    cells.append(dict(order=p, boundary=b, N=N, axis=axis,
                                      h=hs[k % len(hs)], far=(k % 5 == 0)))
                    k += 1
    return cells


# ---------------------------------------------------------------------------
# generated fields


def field(shape, dxs, mins, modes, poly):
    x = mins[0] + dxs[0] * np.arange(shape[0])
    y = mins[1] + dxs[1] * np.arange(shape[1])
    z = mins[2] + dxs[2] * np.arange(shape[2])
    X, Y, Z = np.meshgrid(x, y, z, indexing="ij")
    f = np.zeros(shape)
    for a, kx, ky, kz, ph in modes:
        f = f + a * np.sin(kx * X + ky * Y + kz * Z + ph)
    for c, i, j, k in poly:
        f = f + c * X**i * Y**j * Z**k
    return f, (X, Y, Z)


amp = st.floats(-2, 2, allow_nan=False, width=64)
wav = st.floats(-3, 3, allow_nan=False, width=64)
mode = st.tuples(amp, wav, wav, wav, st.floats(0, 6.2, allow_nan=False))
spacing = st.sampled_from([0.1, 0.25, 0.3, 0.5, 0.7, 1.0, 1.5, 1 / 3])


@st.composite
def grid_case(draw, with_tensor=False):
    p = draw(st.sampled_from([2, 4, 6, 8]))
    b = draw(st.sampled_from(["no boundary", "periodic", "symmetric"]))
    lo = min_n(p, b)
    shape = [draw(st.integers(lo, lo + 6)) for _ in range(3)]
    dxs = [draw(spacing) for _ in range(3)]
    modes = draw(st.lists(mode, min_size=1, max_size=3))
    poly = draw(st.lists(st.tuples(amp, st.integers(0, 3), st.integers(0, 3),
                                   st.integers(0, 3)), max_size=3))
    c = dict(order=p, boundary=b, shape=shape, dxs=dxs,
             modes=[list(m) for m in modes], poly=[list(q) for q in poly])
    if with_tensor:
        c["rank"] = draw(st.integers(0, 3))
        c["amp_exp2"] = draw(st.sampled_from([0, 0, -30, -40, -60, -200, 20,
                                              100]))
    return c


def nontriv_grid(case, note):
    s, d = case["shape"], case["dxs"]
    note.nt(len(set(s)) == 3 and len(set(d)) == 3)
    note.cls(f"p={case['order']}", case["boundary"])
    if len(set(s)) == 3:
        note.cls("noncubic")


def test_axis_exchange(case, note):
    nontriv_grid(case, note)
    p, b, shape, dxs = (case["order"], case["boundary"], case["shape"],
                        case["dxs"])
    # mins = 0 and integer arange: build with dx=1 then set inverse spacings
    fd = mkfd(shape, [1.0, 1.0, 1.0], p, b)
    fd.inverse_dx, fd.inverse_dy, fd.inverse_dz = [1.0 / d for d in dxs]
    f, _ = field(shape, dxs, (0.3, -0.2, 0.1), case["modes"], case["poly"])
    for axis, op in ((1, fd.d3y), (2, fd.d3z)):
        perm = [0, 1, 2]
        perm[0], perm[axis] = perm[axis], perm[0]
        shp2 = [shape[i] for i in perm]
        fd2 = mkfd(shp2, [1.0, 1.0, 1.0], p, b)
        fd2.inverse_dx = 1.0 / dxs[axis]
        want = np.transpose(fd2.d3x(np.ascontiguousarray(
            np.transpose(f, perm))), perm)
        got = op(f)
        if got.shape != want.shape:
            raise PropertyFailure(f"axis{axis}:shape",
                                  dict(got=list(got.shape)))
        if not np.array_equal(got, want):
            raise PropertyFailure(
                f"axis{axis}:value",
                dict(maxdiff=float(np.max(np.abs(got - want)))))
        if got.dtype != np.float64:
            raise PropertyFailure(f"axis{axis}:dtype", str(got.dtype))


def test_componentwise(case, note):
    nontriv_grid(case, note)
    p, b, shape, dxs = (case["order"], case["boundary"], case["shape"],
                        case["dxs"])
    rank = case["rank"]
    note.cls(f"rank={rank}")
    fd = mkfd(shape, [1.0, 1.0, 1.0], p, b)
    fd.inverse_dx, fd.inverse_dy, fd.inverse_dz = [1.0 / d for d in dxs]
    comps = []
    ncomp = 3 ** rank
    for c in range(ncomp):
        modes = [[m[0] * (1 + 0.37 * c), m[1] + 0.11 * c, m[2] - 0.07 * c,
                  m[3], m[4] + c] for m in case["modes"]]
        comps.append(field(shape, dxs, (0.3, -0.2, 0.1), modes,
                           case["poly"])[0])
    T = np.array(comps).reshape((3,) * rank + tuple(shape))
    ops = [fd.d3x, fd.d3y, fd.d3z]
    want_axis = [np.array([o(c) for c in comps]).reshape(T.shape)
                 for o in ops]
    want_all = np.array(want_axis)
    if rank == 0:
        table = {"d3_scalar": (fd.d3_scalar, want_all)}
    elif rank == 1:
        table = {"d3_rank1tensor": (fd.d3_rank1tensor, want_all),
                 "d3x_rank1tensor": (fd.d3x_rank1tensor, want_axis[0]),
                 "d3y_rank1tensor": (fd.d3y_rank1tensor, want_axis[1]),
                 "d3z_rank1tensor": (fd.d3z_rank1tensor, want_axis[2])}
    elif rank == 2:
        table = {"d3_rank2tensor": (fd.d3_rank2tensor, want_all),
                 "d3x_rank2tensor": (fd.d3x_rank2tensor, want_axis[0]),
                 "d3y_rank2tensor": (fd.d3y_rank2tensor, want_axis[1]),
                 "d3z_rank2tensor": (fd.d3z_rank2tensor, want_axis[2])}
    else:
        table = {"d3_rank3tensor": (fd.d3_rank3tensor, want_all),
                 "d3x_rank3tensor": (fd.d3x_rank3tensor, want_axis[0]),
                 "d3y_rank3tensor": (fd.d3y_rank3tensor, want_axis[1]),
                 "d3z_rank3tensor": (fd.d3z_rank3tensor, want_axis[2])}
    # homogeneity at any amplitude (the operators are linear: scaling the
    # samples by a power of two scales the result exactly), and the same
    # array object differentiated again after its contents were replaced in
    # place (a preallocated buffer that is refilled every time step)
    scale = 2.0 ** case.get("amp_exp2", 0)
    if scale != 1.0:
        note.cls("amplitude=2^%d" % case.get("amp_exp2", 0))
    arg = (T if rank else comps[0])
    buf = np.array(arg, copy=True)
    for name, (fn, want) in table.items():
        if scale != 1.0:
            gs = fn(arg * scale)
            # (exact up to underflow into subnormals)
            if gs.shape != want.shape or not np.all(
                    np.abs(gs - want * scale)
                    <= 1e-13 * np.max(np.abs(want * scale)) + 1e-300
                    + 1e-320 * scale):   # subnormal entries of `want`
                raise PropertyFailure(
                    f"{name}:not-homogeneous",
                    dict(scale=scale, maxdiff=float(np.max(np.abs(
                        gs - want * scale))) if gs.shape == want.shape
                        else None))
        first = fn(buf)
        buf *= -0.5
        buf += 0.25
        again = fn(buf)
        fresh = fn(np.array(buf, copy=True))
        buf[...] = arg
        if first.shape != want.shape or not np.array_equal(first, want) \
                or not np.array_equal(again, fresh):
            raise PropertyFailure(
                f"{name}:same-array-new-contents",
                dict(maxdiff=float(np.max(np.abs(again - fresh)))
                     if again.shape == fresh.shape else None))
    for name, (fn, want) in table.items():
        got = fn(T if rank else comps[0])
        if got.shape != want.shape:
            raise PropertyFailure(f"{name}:shape",
                                  dict(got=list(got.shape),
                                       want=list(want.shape)))
        if not np.array_equal(got, want):
            raise PropertyFailure(
                f"{name}:value",
                dict(maxdiff=float(np.max(np.abs(got - want)))))


@st.composite
def poly_case(draw):
    p = draw(st.sampled_from([2, 4, 6, 8]))
    b = draw(st.sampled_from(["no boundary", "periodic", "symmetric"]))
    lo = min_n(p, b)
    shape = [draw(st.integers(lo, lo + 5)) for _ in range(3)]
    dxs = [draw(spacing) for _ in range(3)]
    terms = draw(st.lists(
        st.tuples(st.floats(-1, 1, allow_nan=False), st.integers(0, p),
                  st.integers(0, p), st.integers(0, p)),
        min_size=1, max_size=4))
    return dict(order=p, boundary=b, shape=shape, dxs=dxs,
                terms=[list(t) for t in terms])


def test_poly_exact(case, note):
    """Exact on polynomials of degree <= p (per variable) at every point in
    'no boundary' mode; for periodic/symmetric modes only at the points whose
    stencil does not wrap/mirror (polynomials are neither periodic nor even)."""
    nontriv_grid(case, note)
    p, b, shape, dxs = (case["order"], case["boundary"], case["shape"],
                        case["dxs"])
    m = p // 2
    fd = mkfd(shape, [1.0, 1.0, 1.0], p, b)
    fd.inverse_dx, fd.inverse_dy, fd.inverse_dz = [1.0 / d for d in dxs]
    # coordinates centred to keep powers O(1)
    cs = [dxs[a] * (np.arange(shape[a]) - shape[a] // 2) for a in range(3)]
    X, Y, Z = np.meshgrid(*cs, indexing="ij")
    P = [X, Y, Z]
    f = np.zeros(shape)
    d = [np.zeros(shape) for _ in range(3)]
    mag = np.zeros(shape)
    for c, i, j, k in case["terms"]:
        e = (i, j, k)
        f += c * X**i * Y**j * Z**k
        mag += abs(c) * np.abs(X)**i * np.abs(Y)**j * np.abs(Z)**k
        for a in range(3):
            if e[a] > 0:
                ee = list(e)
                ee[a] -= 1
                d[a] += c * e[a] * X**ee[0] * Y**ee[1] * Z**ee[2]
    ops = [fd.d3x, fd.d3y, fd.d3z]
    for a in range(3):
        got = ops[a](f)
        sl = [slice(None)] * 3
        if b != "no boundary":
            if shape[a] <= 2 * m:
                continue
            sl[a] = slice(m, shape[a] - m)
        sl = tuple(sl)
        scale = np.max(mag) / dxs[a] * 40.0  # sum|w| <= ~40 for p=8 one-sided
        err = np.max(np.abs(got[sl] - d[a][sl]))
        if err > 64 * np.finfo(float).eps * scale + 1e-300:
            raise PropertyFailure(f"poly:axis{a}",
                                  dict(err=float(err), scale=float(scale)))


def test_symmetry_modes(case, note):
    """periodic mode differentiates a periodic field like the interior;
    symmetric mode differentiates an even field: compare with the one-sided
    operator applied to the explicitly extended field (differential)."""
    nontriv_grid(case, note)
    p, shape, dxs = case["order"], case["shape"], case["dxs"]
    m = p // 2
    for b in ("periodic", "symmetric"):
        if min(shape) < m + 1:
            return
        fd = mkfd(shape, [1.0, 1.0, 1.0], p, b)
        fd.inverse_dx, fd.inverse_dy, fd.inverse_dz = [1.0 / d for d in dxs]
        f, _ = field(shape, dxs, (0.3, -0.2, 0.1), case["modes"],
                     case["poly"])
        ops = [fd.d3x, fd.d3y, fd.d3z]
        for a in range(3):
            N = shape[a]
            fa = np.moveaxis(f, a, 0)
            if b == "periodic":
                ext = np.concatenate([fa[N - 2 * m:], fa, fa[:2 * m]]) \
                    if N >= 2 * m else None
            else:
                ext = np.concatenate([fa[1:1 + 2 * m][::-1], fa,
                                      fa[N - 1 - 2 * m:N - 1][::-1]]) \
                    if N >= 2 * m + 1 else None
            if ext is None:
                continue
            ext = np.moveaxis(ext, 0, a)
            shp2 = list(shape)
            shp2[a] = N + 4 * m
            if shp2[a] < 3 * p // 2:
                continue
            fd2 = mkfd(shp2, [1.0, 1.0, 1.0], p, "no boundary")
            fd2.inverse_dx, fd2.inverse_dy, fd2.inverse_dz = \
                [1.0 / d for d in dxs]
            want = [fd2.d3x, fd2.d3y, fd2.d3z][a](ext)
            sl = [slice(None)] * 3
            sl[a] = slice(2 * m, 2 * m + N)
            want = want[tuple(sl)]
            got = ops[a](f)
            if not np.array_equal(got, want):
                raise PropertyFailure(
                    f"{b}:axis{a}",
                    dict(maxdiff=float(np.max(np.abs(got - want)))))


def test_dtype(case, note):
    """A real field stored in an integer or single-precision array is
    differentiated like its float64 copy (integers exactly, float32 to single
    precision); the result is a floating-point array."""
    nontriv_grid(case, note)
    p, b, shape, dxs = (case["order"], case["boundary"], case["shape"],
                        case["dxs"])
    fd = mkfd(shape, [1.0, 1.0, 1.0], p, b)
    fd.inverse_dx, fd.inverse_dy, fd.inverse_dz = [1.0 / d for d in dxs]
    f, _ = field(shape, dxs, (0.3, -0.2, 0.1), case["modes"], case["poly"])
    # integer samples of the field, bounded by 1e6 so that no sum or
    # difference of a few of them leaves the int32 range (integer overflow
    # is numpy's arithmetic, not a property of the operators)
    fint = np.round(min(50.0, 1e6 / (float(np.max(np.abs(f))) + 1e-300))
                    * f).astype(np.int64)
    ops = [fd.d3x, fd.d3y, fd.d3z]
    for dt in (np.int64, np.int32, np.float32):
        a = fint.astype(dt) if dt != np.float32 else f.astype(np.float32)
        ref64 = a.astype(np.float64)
        keep = a.copy()
        for ax, op in enumerate(ops):
            got = op(a)
            want = op(ref64)
            name = np.dtype(dt).name
            if not np.issubdtype(np.asarray(got).dtype, np.floating):
                note.fail(f"dtype:{name}:result-not-floating",
                          dict(dtype=str(np.asarray(got).dtype)))
                continue
            if dt == np.float32:
                tol = 2e-5 * (np.max(np.abs(ref64)) + 1e-30) * 40.0 / dxs[ax]
                bad = np.max(np.abs(got - want)) > tol
            else:
                bad = not np.array_equal(got, want)
            if bad:
                note.fail(f"dtype:{name}:value", dict(
                    axis=ax, maxdiff=float(np.max(np.abs(got - want)))))
        if not np.array_equal(a, keep) or a.dtype != keep.dtype:
            note.fail(f"dtype:{np.dtype(dt).name}:input-modified", {})


def subchecks(tier):
    q = tier == "quick"
    nmax = 24 if q else 64
    hs = [1.0, 0.5, 0.1, 0.3, 1 / 3, 2.0]
    return [
        Sub("weights", None, test_weights, 0,
            generic=weight_cells(nmax, hs)),
        Sub("axis_exchange", grid_case(), test_axis_exchange,
            150 if q else 12000, shards=8),
        Sub("componentwise", grid_case(with_tensor=True), test_componentwise,
            100 if q else 6000, shards=8),
        Sub("poly_exact", poly_case(), test_poly_exact,
            200 if q else 16000, shards=8),
        Sub("dtype", grid_case(), test_dtype, 60 if q else 3000, shards=4),
        Sub("wrap_mirror", grid_case(), test_symmetry_modes,
            100 if q else 8000, shards=8),
    ]
