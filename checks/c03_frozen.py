"""C03 - frozen inputs are never evicted; cache clean-up keeps its
bookkeeping consistent.  DESIGN.md section 4, C03."""
import numpy as np
from hypothesis import strategies as st

from aurel.utils.memory import get_size
from checks.c01_cache import G, designed_histories
from harness import cachemachine as CM
from harness import selftest as _st
from harness.common import PropertyFailure, Sub

PROPERTY = "C03"
RULE = ("the C01 request-history state machine with aggressive cache settings "
        "(clean-up period 1..6, memory threshold from half a scalar field - "
        "i.e. smaller than the frozen inputs alone - upward), inputs frozen "
        "through freeze_data or load_data (and whatever a later, drawn "
        "freeze_data() call finds in the cache), optional var_importance "
        "overrides in {0, 0.002, 0.1, 1, 10}, constructor flags drawn "
        "independently of the data in a third of the histories, bracket "
        "requests for the 16 methods that take arguments. After EVERY request: every frozen input "
        "is still cached, is the same object with the same bytes and "
        "importance 0; last_accessed is a subset of data; no exception left "
        "clean-up (an exception a fresh instance raises too is not counted); "
        "calculation_count is monotone and bounds last_accessed; algebraic "
        "keys equal the fresh value (no silent fall-back to Minkowski "
        "defaults). Non-trivial = a clean-up removed >= 1 entry while frozen "
        "inputs were present. get_size is compared with a recursive "
        "reference on generated nested structures.")
ASSUMPTIONS = [
    "termination is observed through the check finishing (each request is "
    "milliseconds; the runner's wall-clock budget turns a hang into a harness "
    "error, never a silent pass)",
]


def selftest():
    _st.run()


def factory(stats, excluded, last, ctl):
    return CM.make_machine("bookkeeping",
                           dict(aggressive=True, with_importance=True),
                           stats, excluded, last, ctl)


def factory_mild(stats, excluded, last, ctl):
    return CM.make_machine("bookkeeping", dict(with_importance=True), stats,
                           excluded, last, ctl)


def test(case, note):
    CM.replay("bookkeeping", case, note)


# ----------------------------------------------------------- get_size
leaf = st.one_of(
    st.tuples(st.just("arr"), st.sampled_from(["f8", "f4", "i8", "c16"]),
              st.lists(st.integers(0, 5), min_size=0, max_size=3)),
    st.tuples(st.just("obj"), st.sampled_from([0, 1.5, "abc", None, True])))
nested = st.recursive(
    leaf, lambda ch: st.one_of(
        st.tuples(st.just("list"), st.lists(ch, max_size=4)),
        st.tuples(st.just("tuple"), st.lists(ch, max_size=4)),
        st.tuples(st.just("dict"), st.lists(ch, max_size=4))),
    max_leaves=12)


def build(spec):
    import sys
    kind = spec[0]
    if kind == "arr":
        a = np.zeros(tuple(spec[2]), dtype=spec[1])
        return a, a.nbytes
    if kind == "obj":
        return spec[1], sys.getsizeof(spec[1])
    items = [build(s) for s in spec[1]]
    if kind == "list":
        return [i[0] for i in items], sum(i[1] for i in items)
    if kind == "tuple":
        return tuple(i[0] for i in items), sum(i[1] for i in items)
    keys = [f"k{i}" for i in range(len(items))]
    return ({k: i[0] for k, i in zip(keys, items)},
            sum(sys.getsizeof(k) + i[1] for k, i in zip(keys, items)))


def test_get_size(case, note):
    obj, want = build(case)
    got = get_size(obj)
    note.nt(case[0] in ("list", "tuple", "dict") and len(case[1]) >= 2)
    note.cls(case[0])
    if got != want:
        raise PropertyFailure("get_size:value", dict(got=got, want=want))
    # views report the bytes they expose
    a = np.zeros((4, 5, 6))
    if get_size(a[1]) != a[1].nbytes or get_size([a, a[0]]) != \
            a.nbytes + a[0].nbytes:
        raise PropertyFailure("get_size:view", {})


# ------------------------------------------------- time-series driver path
HEAVY = ["Kretschmann", "st_Weyl_down4", "Hamiltonian", "Momentumup3",
         "dtKtrace", "s_RicciS", "Weyl_Psi", "dtAdown3_bssnok", "theta",
         "st_Ricci_down4", "eweyl_n_down3", "s_Ricci_down3_bssnok"]


def driver_case():
    S = CM.strategies()

    @st.composite
    def s(draw):
        cfg = draw(S["config"](aggressive=True))
        cfg["t2"] = cfg["t"] + draw(st.sampled_from([0.125, -0.25, 0.5]))
        return dict(cfg=cfg,
                    heavy=draw(st.lists(st.sampled_from(HEAVY), min_size=1,
                                        max_size=4, unique=True)),
                    after=draw(st.lists(st.sampled_from(
                        ["gammadet", "Ktrace", "betamag", "A2", "gdet"]),
                        min_size=1, max_size=3, unique=True)),
                    nsteps=draw(st.integers(1, 2)))
    return s()


def test_driver(case, note):
    """over_time freezes the per-step inputs (and custom variables): while
    custom functions and built-in variables are computed under aggressive
    cache settings, every input stays cached, is the caller's array, keeps
    importance 0, and later results are those of the inputs (not of the
    Minkowski defaults)."""
    import contextlib
    import io

    import aurel
    cfg = case["cfg"]
    world = CM.World(cfg)
    fd = world.fd()
    steps = []
    for i in range(case["nsteps"]):
        w = CM.World(dict(cfg, t=cfg["t"] if i == 0 else cfg["t2"]))
        d, _ = w.inputs(fd)
        steps.append((w, d))
    keys = sorted(steps[0][1])
    table = {k: [d[k] for _, d in steps] for k in keys}
    table["it"] = list(range(len(steps)))
    audit_log = []

    def audit(rel):
        # over_time first validates custom functions on a dummy instance
        # that holds no inputs: nothing to audit there
        real = all(k in rel.data for k in keys)
        for k in case["heavy"]:
            rel[k]
        bad = []
        if not real:
            return np.zeros(rel.data_shape)
        for k in keys:
            if k not in rel.data:
                bad.append(("input-evicted", k))
            elif not any(rel.data[k] is d[k] for _, d in steps):
                bad.append(("input-replaced", k))
            elif rel.var_importance.get(k, 1.0) != 0:
                bad.append(("input-not-frozen", k))
        if set(rel.last_accessed) - set(rel.data):
            bad.append(("last_accessed-not-subset", ""))
        audit_log.append(bad)
        return np.full(rel.data_shape, float(len(bad)))

    def second(rel):
        # the first custom variable must itself have been frozen in
        bad = []
        if not all(k in rel.data for k in keys):
            for k in case["heavy"][::-1]:
                rel[k]
            return np.zeros(rel.data_shape)
        if "audit" not in rel.data:
            bad.append(("custom-variable-evicted", "audit"))
        elif rel.var_importance.get("audit", 1.0) != 0:
            bad.append(("custom-variable-not-frozen", "audit"))
        for k in case["heavy"][::-1]:
            rel[k]
        for k in keys:
            if k not in rel.data:
                bad.append(("input-evicted", k))
        audit_log.append(bad)
        return np.full(rel.data_shape, float(len(bad)))
    # a custom dictionary with two entries, one of which carries the name
    # of an input column: names already in the data are not recomputed, so
    # the frozen input keeps the caller's array (a function under that name
    # must never be run against a step's instance)
    clobbered = keys[len(case["heavy"]) % len(keys)]

    def clobber(rel):
        if all(k in rel.data for k in keys):
            audit_log.append([("custom-function-run-under-input-name",
                               clobbered)])
        return np.full(rel.data_shape, 123.0)

    def third(rel):
        bad = []
        if all(k in rel.data for k in keys):
            if not any(rel.data[clobbered] is d[clobbered]
                       for _, d in steps):
                bad.append(("input-replaced", clobbered))
            audit_log.append(bad)
        return np.full(rel.data_shape, float(len(bad)))
    kw = world.kwargs(cache=True)
    kw.pop("verbose", None)
    buf = io.StringIO()
    try:
        with contextlib.redirect_stdout(buf), contextlib.redirect_stderr(buf):
            out = aurel.over_time(
                dict(table), fd,
                vars=[{"audit": audit}, {"second": second},
                      {"third": third, clobbered: clobber}, {"fourth": third}]
                + case["after"],
                estimates=[], verbose=False, **kw)
    except Exception as e:  # noqa: BLE001
        note.fail(f"over_time:raises:{type(e).__name__}",
                  dict(error=str(e)[:200]))
        return
    note.nt(True)
    note.cls(cfg["spec"]["family"], f"steps={len(steps)}")
    for bad in audit_log:
        for what, k in bad:
            note.fail(f"driver:{what}", dict(key=k))
    for j in range(len(steps)):
        if clobbered in out and not any(
                np.array_equal(np.asarray(out[clobbered][j]), d[clobbered],
                               equal_nan=True) for _, d in steps):
            note.fail("driver:input-column-changed", dict(key=clobbered))
    # later built-in variables are those of the inputs
    order = list(out["it"])
    for j, i in enumerate(order):
        w = steps[int(i)][0]
        for k in case["after"]:
            b = w.fresh(dict(op="get", key=k))
            if b[0] != "ok":
                continue
            d, _ = CM.discrepancy(np.asarray(out[k][j]), b[1])
            if d > 1e-10:
                note.fail(f"driver:fallback-or-stale:{k}",
                          dict(discrepancy=d))


def subchecks(tier):
    q = tier == "quick"
    dh = []
    for i, h in enumerate(designed_histories()):
        cfg = dict(h["cfg"], freeze=("load_data" if i % 2 else
                                     "freeze_data"))
        if i % 3 == 0:
            n = cfg["N"]
            cfg["mem_gb"] = n[0] * n[1] * n[2] * 8 / 1024 ** 3 * (
                0.5 if i % 2 else 5.0)
        dh.append(dict(h, cfg=cfg))
    # computed entries frozen by a second freeze_data(), then used as
    # operands; bracket requests for methods that take arguments followed by
    # enough calculations for several clean-ups
    base = designed_histories()[0]["cfg"]
    for ce in (30, 2):
        for first in ("st_Riemann_down4", "st_Ricci_down4", "gdown4",
                      "s_Riemann_down3"):
            dh.append(dict(cfg=dict(base, clear_every=ce), ops=[
                G(first), dict(op="freeze"), G("st_Weyl_down4"),
                G("Kretschmann"), G("st_Ricci_down3"), G("s_Ricci_down3"),
                G("gdet"), G(first)]))
        dh.append(dict(cfg=dict(base, clear_every=ce), ops=[
            dict(op="getfunc", name="s_covd"), G("gammadet"),
            dict(op="getfunc", name="trace3"), G("Ktrace"), G("betamag"),
            G("A2"), dict(op="getfunc", name="null_ray_expansion"),
            G("psi_bssnok"), G("Kup3"), G("gammaup3")]))
    return [
        Sub("bookkeeping", None, test, 128 if q else 3000, kind="machine",
            machine=factory, steps=40, shards=8 if q else 16, max_rounds=3, shrink_quick=False,
            generic=dh),
        Sub("bookkeeping_mild", None, test, 64 if q else 1000,
            kind="machine", machine=factory_mild, steps=30,
            shards=8 if q else 16, max_rounds=3, shrink_quick=False),
        Sub("get_size", nested, test_get_size, 400 if q else 10000,
            shards=2),
        Sub("over_time_driver", driver_case(), test_driver,
            80 if q else 1500, shards=8 if q else 16, max_rounds=3,
            shrink_quick=False),
    ]
