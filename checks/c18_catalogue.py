"""C18 - simulation catalogues and name parsing are faithful and stable across
calls (aurel.reading: parameters, iterations, read_iterations,
collect_overall_iterations, get_content, parse_hdf5_key, parse_h5file).
DESIGN.md section 4, C18.

Sub-checks
----------
history   generated simulation directory (harness.simdir) + list of operations
          (add restart, grow last restart, iterations, read_iterations,
          get_content) interpreted against a model; ground truth, parse-back
          of iterations.txt / content.txt, idempotence, incremental == fresh
          scan of a copy, 'overall' is a function of the per-restart part.
overall   collect_overall_iterations on generated per-restart catalogues:
          per level the segments denote exactly the union of the per-restart
          iteration sets (set semantics).
names     dataset keys / file names / checkpoint names -> generating fields.
par       .par generator -> parameters() values, types, simpath/datapath.
fixtures  the four repository fixtures (copied): catalogue against an
          independent scan of the HDF5 keys, derived grid numbers against the
          stored array shapes.
"""
import contextlib
import copy
import io
import json
import math
import os
import re
import shutil

import h5py
import numpy as np
from hypothesis import strategies as st

import aurel.reading as R
from harness import simdir as sd
from harness.common import REPO, PropertyFailure, Sub, scratch_dir

PROPERTY = "C18"
# wall-clock safety net (cases after it are counted as inconclusive)
BUDGET_S = {"quick": 80, "thorough": 1100}
RULE = ("history: Hypothesis draws a simulation name and SIMLOC sub-path from "
        "[A-Za-z0-9_] segments that include the catalogue's own format words "
        "(restart, rl, it, arange, Checkpoints, 3D, output), 1-4 restarts "
        "(1-3 refinement levels, per-level arithmetic iteration ranges that "
        "continue/overlap/nest the previous restart, stride changes, "
        "singletons, one-file / per-process / multi-component layouts, "
        "single-variable, known-group and unknown-group files, checkpoints, "
        "checkpoint-only restarts) and 2-10 operations; non-trivial = at "
        "least two restarts on disk at the second or later catalogue call, "
        "or a name/path containing a format word. overall: 2-5 restarts of "
        "per-level ranges; non-trivial = >= 2 restarts on a level. names: "
        "every generated valid name is non-trivial. par: generated .par file "
        "+ SIMLOC list; non-trivial = a name with a format word or >= 2 "
        "SIMLOC entries. fixtures: 4 fixed cases.")
ASSUMPTIONS = [
    "a restart's 3D files all hold the same iterations (the catalogue format "
    "stores one range per level and restart), ranges are arithmetic and "
    "phase-aligned (multiples of the level stride), a restart starts inside "
    "[start, stop + stride] of the previous one; gaps between restarts and "
    "backward starts are generated only as non-asserted observation classes",
    "documented triple [itmin, itmax, dit] is read as the inclusive "
    "progression itmin, itmin+dit, ..., itmax",
    "order of 'var available', of dict keys and of file lists is not part "
    "of the contract (compared as sorted lists) except for parse-back of the "
    "same file, which is compared exactly",
    "aurel/data/var_mappings.yml (known_groups, aurel_to_ET_varnames) is "
    "taken as specification data",
    "history/overall: 'overall' inside a history is only checked to be the "
    "function collect_overall_iterations of the per-restart part; its set "
    "semantics are decided by the sub-check 'overall'",
    "dataset keys with m >= 1 (multi-patch), SIMLOC entries without trailing "
    "slash, uppercase-E exponents and unquoted number-like keywords are "
    "observation classes, not asserted",
    "yes/no parameters are expected back as the strings 'yes'/'no' (no "
    "boolean conversion is documented)",
]

KNOWN = R.known_groups
A2ET = R.aurel_to_ET_varnames
WORDS = ["restart", "rl", "it", "arange", "Checkpoints", "3D", "output"]
ATTRS = "Parameters and Global Attributes"
ALNUM = "abcdefghijklmnopqrstuvwxyzABCDEFGHIJKLMNOPQRSTUVWXYZ0123456789_"


@contextlib.contextmanager
def quiet():
    with contextlib.redirect_stdout(io.StringIO()):
        yield


def norm(o):
    """ints normalised, arrays/tuples -> lists (dict keys untouched)."""
    if isinstance(o, dict):
        return {k: norm(v) for k, v in o.items()}
    if isinstance(o, (list, tuple, np.ndarray)):
        return [norm(v) for v in o]
    if isinstance(o, (np.integer,)):
        return int(o)
    if isinstance(o, (np.floating,)):
        return float(o)
    return o


def aurel_groups(variables):
    """ET variable names -> aurel names as transform_vars_ET_to_aurel_groups
    documents: an aurel name replaces its ET components when all of them are
    available (mapping order of var_mappings.yml), the rest is kept."""
    left = list(variables)
    out = []
    for new, olds in A2ET.items():
        if all(o in left for o in olds):
            out.append(new)
            for o in olds:
                left.remove(o)
    return out + left


def words_in(*texts):
    return [w for w in WORDS if any(w in t for t in texts)]


# ---------------------------------------------------------------------------
# strategies shared by the sub-checks

ident = st.text(alphabet=ALNUM, min_size=1, max_size=6)
# (shrinks towards a plain identifier, 'restart' last)
_W = [w for w in WORDS if w != "restart"] + ["restart"]
segment = st.one_of(ident, st.sampled_from(_W), st.sampled_from(_W))


@st.composite
def fmt_name(draw, max_segments=3):
    segs = draw(st.lists(segment, min_size=1, max_size=max_segments))
    return draw(st.sampled_from(["", "_"])).join(segs)


STRIDES = [1, 2, 3, 4, 5, 8, 10, 16, 128]


@st.composite
def level_history(draw, nrest, nlev, gap_ok=False):
    """Per restart {str(rl): [a, b, d] | [a]}: phase-aligned arithmetic
    ranges; restart r+1 starts in [start_r, stop_r + d] (continue / overlap /
    nested), sometimes with another stride; with gap_ok rarely beyond."""
    out = [dict() for _ in range(nrest)]
    for k in range(nlev):
        d = draw(st.sampled_from(STRIDES))
        prev = None
        for r in range(nrest):
            if k > 0 and draw(st.integers(0, 9)) == 0:
                continue                      # level absent in this restart
            if prev is None:
                j0 = draw(st.integers(0, 12))
            else:
                if draw(st.integers(0, 7)) == 0:
                    d = draw(st.sampled_from(STRIDES))
                a, b = prev
                jmin, jmax = -(-a // d), b // d + 1
                if gap_ok and draw(st.integers(0, 9)) == 0:
                    j0 = jmax + draw(st.integers(1, 3))
                else:
                    j0 = draw(st.integers(jmin, jmax))
            n = draw(st.sampled_from([0, 1, 2, 3, 4, 5, 1, 2, 3]))
            a2, b2 = d * j0, d * (j0 + n)
            out[r][str(k)] = [a2] if n == 0 else [a2, b2, d]
            prev = (a2, b2)
    return out


SINGLE_VARS = ["alp", "betax", "betay", "betaz", "rho", "eps", "press",
               "vel[0]", "vel[1]", "vel[2]", "gxx", "kxx", "trK", "H", "M1",
               "phi", "W", "dens", "tau", "Psi4r", "w_lorentz", "dtalp",
               "r", "x", "A"]
SINGLE_THORN = {"alp": "ADMBASE", "betax": "ADMBASE", "betay": "ADMBASE",
                "betaz": "ADMBASE", "gxx": "ADMBASE", "kxx": "ADMBASE",
                "dtalp": "ADMBASE", "rho": "HYDROBASE", "eps": "HYDROBASE",
                "press": "HYDROBASE", "vel[0]": "HYDROBASE",
                "vel[1]": "HYDROBASE", "vel[2]": "HYDROBASE",
                "w_lorentz": "HYDROBASE", "r": "GRID", "x": "GRID"}
KNOWN_FILES = [("ADMBASE", "lapse"), ("ADMBASE", "shift"),
               ("ADMBASE", "metric"), ("ADMBASE", "curv"),
               ("HYDROBASE", "vel"), ("HYDROBASE", "rho"),
               ("ML_BSSN", "ml_ham"), ("ML_BSSN", "ml_mom"),
               ("WEYLSCAL4", "psi4r_group")]
UNKNOWN_FILES = [("GRID", "coordinates", ["x", "y", "z", "r"]),
                 ("ML_BSSN", "ML_curv", ["At11", "At12", "At13", "At22",
                                         "At23", "At33"]),
                 ("ML_BSSN", "ML_dtlapse", ["A"]),
                 ("ML_BSSN", "ML_log_confac", ["phi"]),
                 ("TMUNUBASE", "stress_energy_scalar", ["eTtt"]),
                 ("GRHYDRO", "scon", ["scon[0]", "scon[1]", "scon[2]"]),
                 ("MAXWELL", "fields", ["E", "Ex", "Ey"]),
                 # different thorns may use the same group name
                 ("SCALARFIELD", "evolved", ["sfphi", "sfKphi"]),
                 ("PROCA", "evolved", ["Aprx", "Apry", "Aprz"]),
                 ("PROCA", "fields", ["Xphi"])]


@st.composite
def file_spec(draw):
    kind = draw(st.sampled_from(["single", "single", "known", "unknown",
                                 "random"]))
    xyz = draw(st.sampled_from(["", "", "prefix", "suffix"]))
    if kind == "single":
        v = draw(st.sampled_from(SINGLE_VARS))
        return dict(thorn=SINGLE_THORN.get(v, "ML_BSSN"), name=v,
                    group=False, vars=[v], xyz=xyz)
    if kind == "known":
        t, g = draw(st.sampled_from(KNOWN_FILES))
        return dict(thorn=t, name=g, group=True,
                    vars=list(KNOWN[t.lower() + "-" + g]), xyz=xyz)
    if kind == "unknown":
        t, g, vs = draw(st.sampled_from(UNKNOWN_FILES))
        return dict(thorn=t, name=g, group=True, vars=list(vs), xyz=xyz)
    t = draw(st.text(alphabet=ALNUM[26:52] + "_", min_size=1, max_size=5))
    g = draw(st.text(alphabet=ALNUM[:26] + "_", min_size=1, max_size=5))
    vs = draw(st.lists(st.text(alphabet=ALNUM[:52], min_size=2, max_size=4),
                       min_size=1, max_size=3, unique=True))
    return dict(thorn=t, name=g, group=True, vars=vs, xyz=xyz)


def dedup_files(files):
    """keep file specs with pairwise disjoint variables and distinct names,
    and distinct from every known group unless they are that group."""
    out, used, names = [], set(), set()
    for f in files:
        base = (f["thorn"].lower() + "-" if f["group"] else "") + f["name"]
        if f["group"] and base in KNOWN and f["vars"] != list(KNOWN[base]):
            continue
        vs = KNOWN.get(base, f["vars"]) if f["group"] else [f["name"]]
        if base in names or used & set(vs) or used & set(f["vars"]):
            continue
        names.add(base)
        used |= set(vs) | set(f["vars"])
        out.append(f)
    return out


@st.composite
def restart_specs(draw, nrest):
    nlev = draw(st.integers(1, 3))
    levels = draw(level_history(nrest, nlev))
    specs = []
    for r in range(nrest):
        files = dedup_files(draw(st.lists(file_spec(), min_size=1,
                                          max_size=3)))
        chk = sorted(set(draw(st.lists(st.integers(0, 3000), max_size=3))))
        empty = draw(st.integers(0, 14)) == 0
        if empty:
            files, lev = [], {}
            chk = chk or [draw(st.integers(0, 3000))]
        else:
            lev = levels[r]
        layout = draw(st.sampled_from(["one", "one", "proc", "comp"]))
        specs.append(dict(
            files=files, levels=lev,
            nproc=draw(st.sampled_from([2, 3, 11])) if layout == "proc" else 0,
            ncomp=draw(st.sampled_from([2, 3, 12])) if layout == "comp" else 1,
            m0=draw(st.integers(0, 5)) == 0,
            checkpoints=chk,
            chk_nproc=draw(st.sampled_from([0, 0, 2])),
            decoys=draw(st.booleans())))
    return specs


@st.composite
def history_case(draw):
    nrest = draw(st.integers(1, 4))
    ops = draw(st.lists(st.one_of(
        st.just(["add"]),
        st.tuples(st.just("iterations"), st.booleans(),
                  st.booleans()).map(list),
        st.tuples(st.just("iterations"), st.booleans(),
                  st.just(False)).map(list),
        st.tuples(st.just("read_iterations"), st.booleans()).map(list),
        st.tuples(st.just("get_content"), st.integers(0, 3),
                  st.booleans()).map(list),
        st.just(["grow"])), min_size=2, max_size=10))
    steps = draw(st.lists(st.sampled_from([1, 1, 1, 1, 2, 5]),
                          min_size=nrest, max_size=nrest))
    ids = [sum(steps[1:i + 1]) for i in range(nrest)]   # gaps in numbering
    first = draw(st.sampled_from([0, 0, 0, 0, 1, 12]))
    return dict(sim=draw(fmt_name()),
                loc=draw(st.lists(fmt_name(2), max_size=2)),
                restarts=draw(restart_specs(nrest)),
                ids=[first + i for i in ids],
                simfactory=draw(st.booleans()),
                initial=draw(st.integers(1, nrest)), ops=ops)


# ---------------------------------------------------------------------------
# history: model + interpreter


def restart_truth(spec, content):
    """Documented per-restart catalogue entry for a restart whose variable
    catalogue is ``content`` ({vars tuple: files})."""
    t = sd.catalogue_truth(spec, KNOWN)
    d = {}
    allvars = [v for key in content for v in key]
    if allvars:
        d["var available"] = sorted(aurel_groups(allvars))
        lv = t["levels"]
        its = sorted({i for v in lv.values() for i in v})
        d["its available"] = [its[0], its[-1]]
        for rl, v in sorted(lv.items()):
            d[f"rl = {rl}"] = ([v[0]] if len(v) == 1
                               else [v[0], v[-1], v[1] - v[0]])
    elif t["checkpoints"]:
        d["its available"] = [t["checkpoints"][0], t["checkpoints"][-1]]
    d["checkpoints"] = t["checkpoints"]
    return d


def substr_var(spec):
    """some variable name is a substring of another dataset name of its file
    (another variable's key or Carpet's attribute group)."""
    for f in spec["files"]:
        for v in f["vars"]:
            if v in ATTRS:
                return True
            if len(f["vars"]) > 1 and any(
                    v in sd.dataset_key(f["thorn"], w, 0, 0, 0, 0, 0)
                    for w in f["vars"] if w != v):
                return True
    return False


def cmp_restart(got, want, where, tag, note):
    """got/want: normalised per-restart dicts."""
    ok = True
    if sorted(got) != sorted(want):
        note.fail(f"{where}:keys{tag}", dict(got=sorted(got),
                                              want=sorted(want)))
        ok = False
    for k in want:
        if k not in got:
            continue
        g, w = got[k], want[k]
        if k == "var available":
            g, w = sorted(g), sorted(w)
        if g != w:
            kk = "rl" if k.startswith("rl = ") else k.replace(" ", "-")
            note.fail(f"{where}:{kk}{tag}", dict(key=k, got=g, want=w))
            ok = False
    return ok


class Hist:
    def __init__(self, case, note, root):
        self.case, self.note, self.root = case, note, root
        self.sim = case["sim"]
        self.simloc = root + "/" + "".join(p + "/" for p in case["loc"])
        self.param = dict(simpath=self.simloc, simname=self.sim,
                          simulation="ET")
        self.pool = [json.loads(json.dumps(s)) for s in case["restarts"]]
        self.ids = [int(i) for i in case.get("ids",
                                             range(len(self.pool)))]
        self.cur = {}          # restart number -> current spec (on disk)
        self.cache = {}        # r -> content truth at caching time
        self.cat = {}          # r -> per-restart truth at cataloguing time
        self.file_exists = False
        self.returned = {}     # per-restart part of the last iterations()
        self.ncat_calls = 0
        self.grown = 0
        self.nontrivial = bool(words_in(self.sim, *case["loc"]))
        # discriminator tags naming the case feature a failure kind can
        # depend on (keeps independent root causes in separate buckets)
        self.tag_path = ("[path~restart]"
                         if "restart" in self.simloc + self.sim else "")
        self.tag = ""          # (value comparisons are tagged per restart)

    def vtag(self, r):
        return "[substr-var]" if substr_var(self.cur[r]) else ""

    def rtag(self, exc):
        if isinstance(exc, IndexError):
            return self.tag_path
        return ("[substr-var]" if any(substr_var(s)
                                      for s in self.cur.values()) else "")

    def present(self):
        return sorted(self.cur)

    # -- directory ---------------------------------------------------------
    def add(self):
        if len(self.cur) >= len(self.pool):
            return False
        r = self.ids[len(self.cur)]
        spec = self.pool[len(self.cur)]
        if not self.cur:
            sd.write_par(self.simloc, self.sim, r, sd.MINIMAL_PAR)
        sd.write_restart(self.simloc, self.sim, r, spec)
        self.cur[r] = spec
        if self.case.get("simfactory"):
            # what simfactory keeps next to the restarts
            top = self.simloc + self.sim + "/"
            os.makedirs(top + "SIMFACTORY/par", exist_ok=True)
            for old in os.listdir(top):
                if old.endswith("-active"):
                    os.remove(top + old)
            os.symlink(f"output-{r:04d}", top + f"output-{r:04d}-active")
        return True

    def grow(self):
        r = self.present()[-1]
        spec = self.cur[r]
        if not spec["files"]:
            return False
        self.grown += 1
        f = dict(thorn="GROWN", name=f"grown{self.grown}", group=False,
                 vars=[f"grown{self.grown}"], xyz="")
        sd.write_restart(self.simloc, self.sim, r,
                         dict(spec, files=[f], checkpoints=[], decoys=False))
        spec["files"] = spec["files"] + [f]
        return True

    def content_now(self, r):
        path = sd.restart_path(self.simloc, self.sim, r)
        return {k: [path + fn for fn in v]
                for k, v in sd.content_truth(self.cur[r], KNOWN).items()}

    # -- comparisons -------------------------------------------------------
    def check_catalogue(self, got, want_set, where, with_overall):
        note, tag = self.note, self.tag
        if not isinstance(got, dict):
            note.fail(f"{where}:type{tag}", dict(got=repr(got)[:200]))
            return None
        g = norm(got)
        rs = sorted(k for k in g if k != "overall")
        if rs != sorted(want_set):
            note.fail(f"{where}:restart-set{tag}",
                      dict(got=[str(k) for k in rs], want=sorted(want_set)))
            return None      # model and directory state have diverged
        if ("overall" in g) != with_overall:
            note.fail(f"{where}:overall-key{tag}",
                      dict(present="overall" in g, want=with_overall))
        for r in want_set:
            if r in g:
                cmp_restart(g[r], self.cat[r], where, self.vtag(r), note)
        return g

    def check_overall(self, got):
        """'overall' must be collect_overall_iterations(per-restart part)."""
        if "overall" not in got:
            return
        per = {k: copy.deepcopy(v) for k, v in got.items()
               if k != "overall"}
        try:
            with quiet():
                ref = norm(R.collect_overall_iterations(per, False))
        except Exception as e:  # noqa: BLE001
            self.note.fail(f"overall:raises:{type(e).__name__}{self.tag}",
                           dict(error=str(e)[:200]))
            return
        if ref["overall"] != got["overall"]:
            self.note.fail(f"overall:not-function-of-restarts{self.tag}",
                           dict(got=got["overall"], want=ref["overall"]))

    def fresh_scan(self, got, catalogued):
        pres = self.present()
        if catalogued == set(pres):
            skip = False
        elif catalogued == set(pres[:-1]):
            skip = True
        else:
            return
        if any(self.cat[r] != restart_truth(
                self.cur[r], sd.content_truth(self.cur[r], KNOWN))
               for r in catalogued):
            self.note.cls("fresh:skipped-stale-cache")
            return
        root2 = scratch_dir()
        try:
            loc2 = root2 + "/" + "".join(p + "/" for p in self.case["loc"])
            os.makedirs(loc2, exist_ok=True)
            shutil.copytree(self.simloc + self.sim, loc2 + self.sim,
                            symlinks=True)
            os.remove(loc2 + self.sim + "/iterations.txt")
            for r in pres:
                c = sd.restart_path(loc2, self.sim, r) + "content.txt"
                if os.path.exists(c):
                    os.remove(c)
            p2 = dict(simpath=loc2, simname=self.sim, simulation="ET")
            try:
                with quiet():
                    fresh = norm(R.iterations(p2, skip_last=skip,
                                              verbose=False))
            except Exception as e:  # noqa: BLE001
                self.note.fail(
                    f"fresh-scan:raises:{type(e).__name__}{self.rtag(e)}",
                    dict(error=str(e)[:200]))
                return
        finally:
            shutil.rmtree(root2, ignore_errors=True)
        self.note.cls("fresh:compared")
        if sorted(map(str, fresh)) != sorted(map(str, got)):
            self.note.fail(f"fresh-vs-incremental:keys{self.tag}",
                           dict(fresh=sorted(map(str, fresh)),
                                incremental=sorted(map(str, got))))
            return
        # (which file represents a restart depends on directory order, so a
        # restart with the substr-var feature may differ between the copies)
        for k in got:
            if k == "overall":
                if fresh[k] != got[k]:
                    self.note.fail(
                        "fresh-vs-incremental:overall"
                        + self.rtag(None),
                        dict(fresh=fresh[k], incremental=got[k]))
            else:
                cmp_restart(got[k], dict(fresh[k]), "fresh-vs-incremental",
                            self.vtag(k), self.note)

    # -- operations --------------------------------------------------------
    def catalogue_new(self, skip_last):
        """model of one iterations() call; returns expected restart set or
        None when 'Nothing to process' must be raised."""
        pres = self.present()
        target = set(pres[:-1] if skip_last else pres)
        new = sorted(target - set(self.cat))
        self.file_exists = True
        if not new and not self.cat:
            return None
        for r in new:
            if r not in self.cache:
                self.cache[r] = self.content_now(r)
            self.cat[r] = restart_truth(self.cur[r], self.cache[r])
        return set(self.cat)

    def op_iterations(self, skip_last, via_read=False, verbose=False):
        """returns False when the history has to stop."""
        note, tag = self.note, self.tag
        self.ncat_calls += 1
        if len(self.cur) >= 2 and self.ncat_calls >= 2:
            self.nontrivial = True
        want = self.catalogue_new(skip_last)
        where = "iterations"   # read_iterations delegates when no file

        def call():
            with quiet():
                if via_read:
                    return R.read_iterations(self.param, skip_last=skip_last)
                return R.iterations(self.param, skip_last=skip_last,
                                    verbose=verbose)
        try:
            got = call()
        except ImportError as e:
            if want is None and "Nothing to process" in str(e):
                note.cls("nothing-to-process")
                return True
            note.fail(f"{where}:raises:ImportError{tag}",
                      dict(error=str(e)[:200]))
            return False
        except Exception as e:  # noqa: BLE001
            note.fail(f"{where}:raises:{type(e).__name__}{self.rtag(e)}",
                      dict(error=str(e)[:200], skip_last=skip_last,
                           call=self.ncat_calls, via_read_iterations=via_read))
            return False
        if want is None:
            note.fail(f"{where}:nothing-to-process-not-raised{tag}",
                      dict(got=repr(got)[:200]))
            return False
        g = self.check_catalogue(got, want, where, True)
        if g is None:
            return False
        self.check_overall(g)
        # the text file parses back to what was returned in memory
        try:
            with quiet():
                back = norm(R.read_iterations(self.param))
        except Exception as e:  # noqa: BLE001
            note.fail(f"iterations.txt:parse-back:raises:"
                      f"{type(e).__name__}{self.rtag(e)}",
                      dict(error=str(e)[:200]))
            return False
        mem = {k: v for k, v in g.items() if k != "overall"}
        self.returned = mem
        if back != mem:
            bad = sorted({str(k) for k in set(back) | set(mem)
                          if back.get(k) != mem.get(k)})
            fields = sorted({f for k in set(back) & set(mem)
                             for f in set(back[k]) | set(mem[k])
                             if back[k].get(f) != mem[k].get(f)})
            f0 = fields[0] if fields else "restart-set"
            f0 = "rl" if f0.startswith("rl = ") else f0.replace(" ", "-")
            note.fail(f"iterations.txt:parse-back:{f0}{tag}",
                      dict(restarts=bad, file=back, memory=mem))
        # repeating the call changes nothing
        try:
            with quiet():
                again = norm(R.iterations(self.param, skip_last=skip_last,
                                          verbose=False))
        except Exception as e:  # noqa: BLE001
            note.fail(f"iterations:raises:{type(e).__name__}{self.rtag(e)}",
                      dict(error=str(e)[:200], skip_last=skip_last,
                           call="immediate repeat of the previous call"))
            return False
        if again != g:
            note.fail(f"iterations:repeat:differs{tag}",
                      dict(first=g, second=again))
        self.fresh_scan(g, set(self.cat))
        return True

    def op_read_iterations(self, skip_last):
        if not self.file_exists:
            self.note.cls("read_iterations:creates")
            return self.op_iterations(skip_last, via_read=True)
        try:
            with quiet():
                got = R.read_iterations(self.param, skip_last=skip_last)
        except Exception as e:  # noqa: BLE001
            self.note.fail(f"read_iterations:raises:{type(e).__name__}"
                           f"{self.rtag(e)}", dict(error=str(e)[:200]))
            return False
        # the text file parses back to what iterations() returned in memory
        g = norm(got) if isinstance(got, dict) else got
        if g != self.returned:
            fields = sorted({f for k in set(g) & set(self.returned)
                             for f in set(g[k]) | set(self.returned[k])
                             if g[k].get(f) != self.returned[k].get(f)}) \
                if isinstance(g, dict) else []
            f0 = fields[0] if fields else "restart-set"
            f0 = "rl" if f0.startswith("rl = ") else f0.replace(" ", "-")
            self.note.fail(f"read_iterations:parse-back:{f0}{self.tag}",
                           dict(file=g, memory=self.returned))
        return True

    def op_get_content(self, ridx, overwrite):
        note, tag = self.note, self.tag
        r = self.present()[ridx % len(self.cur)]
        if overwrite or r not in self.cache:
            self.cache[r] = self.content_now(r)
        want = self.cache[r]
        try:
            with quiet():
                got = R.get_content(self.param, restart=r,
                                    overwrite=overwrite, verbose=False)
                again = R.get_content(self.param, restart=r, verbose=False)
        except Exception as e:  # noqa: BLE001
            note.fail(f"get_content:raises:{type(e).__name__}{self.rtag(e)}",
                      dict(error=str(e)[:200]))
            return False
        if got != again:
            note.fail(f"content.txt:parse-back{tag}",
                      dict(first={",".join(k): v for k, v in got.items()},
                           cached={",".join(k): v for k, v in again.items()}))
        g = {k: sorted(v) for k, v in got.items()}
        w = {k: sorted(v) for k, v in want.items()}
        if any(not isinstance(k, tuple) for k in g):
            note.fail(f"get_content:key-type{tag}", dict(keys=repr(list(g))))
        elif sorted(g) != sorted(w):
            note.fail(f"get_content:variables{tag}",
                      dict(got=sorted(map(list, g)),
                           want=sorted(map(list, w)), overwrite=overwrite))
        elif g != w:
            note.fail(f"get_content:files{tag}",
                      dict(got={",".join(k): v for k, v in g.items()},
                           want={",".join(k): v for k, v in w.items()}))
        return True


def test_history(case, note):
    root = scratch_dir()
    try:
        h = Hist(case, note, root)
        os.makedirs(h.simloc, exist_ok=True)
        for _ in range(max(1, int(case.get("initial", 1)))):
            h.add()
        note.cls(f"restarts={len(h.pool)}")
        note.cls(*("word:" + w for w in words_in(h.sim, *case["loc"])))
        for s in h.pool:
            if not s["files"]:
                note.cls("restart:checkpoint-only")
            elif s.get("nproc"):
                note.cls("layout:proc")
            elif s.get("ncomp", 1) > 1:
                note.cls("layout:components")
            if any(len(v) == 1 for v in s["levels"].values()):
                note.cls("level:singleton")
        if any(substr_var(s) for s in h.pool):
            note.cls("substr-var")
        if h.ids != list(range(len(h.ids))):
            note.cls("restart-numbering:gaps")
        for op in case["ops"]:
            name = op[0]
            if name == "add":
                ok = True
                if h.add():
                    note.cls("op:add")
            elif name == "grow":
                ok = True
                if h.grow():
                    note.cls("op:grow")
            elif name == "iterations":
                note.cls("op:iterations")
                ok = h.op_iterations(bool(op[1]),
                                     verbose=len(op) > 2 and bool(op[2]))
            elif name == "read_iterations":
                note.cls("op:read_iterations")
                ok = h.op_read_iterations(bool(op[1]))
            elif name == "get_content":
                note.cls("op:get_content" + (":overwrite" if op[2] else ""))
                ok = h.op_get_content(int(op[1]), bool(op[2]))
            else:
                raise ValueError(f"unknown op {op}")
            if not ok:
                note.cls("history:stopped-after-raise")
                break
        note.nt(h.nontrivial)
    finally:
        shutil.rmtree(root, ignore_errors=True)


def _lev(*triples):
    return {str(k): list(t) for k, t in enumerate(triples)}


F_ALP = dict(thorn="ADMBASE", name="alp", group=False, vars=["alp"], xyz="")
F_RHO = dict(thorn="HYDROBASE", name="rho", group=False, vars=["rho"],
             xyz="prefix")
F_SHIFT = dict(thorn="ADMBASE", name="shift", group=True,
               vars=["betax", "betay", "betaz"], xyz="")
F_VEL = dict(thorn="HYDROBASE", name="vel", group=True,
             vars=["vel[0]", "vel[1]", "vel[2]"], xyz="suffix")
F_CURV = dict(thorn="ML_BSSN", name="ML_curv", group=True,
              vars=["At11", "At12", "At22"], xyz="")
F_SF = dict(thorn="SCALARFIELD", name="evolved", group=True,
            vars=["sfphi", "sfKphi"], xyz="")
F_PROCA = dict(thorn="PROCA", name="evolved", group=True,
               vars=["Aprx", "Apry", "Aprz"], xyz="")


def generic_history(sim, loc):
    """all flags on: 4 restarts, 3 layouts, 2-3 levels with different strides,
    overlap, stride change, singleton, checkpoints (plain and per-process),
    checkpoint-only restart, known + unknown groups, skip_last both ways,
    read_iterations before and after, cached / overwritten content, grow."""
    rs = [
        dict(files=[F_ALP, F_SHIFT, F_VEL], nproc=0, ncomp=1, m0=False,
             levels=_lev([0, 384, 128], [0, 384, 64]),
             checkpoints=[0, 354], chk_nproc=0),
        dict(files=[F_ALP, F_SHIFT, F_CURV, F_SF, F_PROCA], nproc=3,
             ncomp=1, m0=False,
             levels=_lev([384, 1024, 128], [384, 1024, 64], [512, 1024, 32]),
             checkpoints=[494, 990], chk_nproc=2),
        dict(files=[F_RHO, F_SHIFT], nproc=0, ncomp=12, m0=True,
             levels=_lev([1024, 1280, 256], [1088]),
             checkpoints=[], chk_nproc=0),
        dict(files=[], nproc=0, ncomp=1, m0=False, levels={},
             checkpoints=[1300, 1589], chk_nproc=0),
    ]
    ops = [["read_iterations", True], ["get_content", 0, False],
           ["iterations", True], ["add"], ["get_content", 2, False],
           ["grow"], ["iterations", True], ["iterations", False],
           ["get_content", 2, False], ["get_content", 2, True],
           ["read_iterations", True], ["add"], ["iterations", True],
           ["get_content", 1, True], ["iterations", False]]
    for r in rs:
        r["decoys"] = True
    ops[7] = ["iterations", False, True]
    return dict(sim=sim, loc=loc, restarts=rs, ids=[0, 1, 3, 12],
                simfactory=True, initial=2, ops=ops)


def generic_history_many(sim, loc):
    """two-digit numbers: 12 refinement levels (level labels 10, 11 next to
    1) and 12 components with the finer level living on components 1..11
    only (component labels 10, 11 next to 1); catalogue, parse-back and
    incremental update."""
    def lv(a, b):
        return _lev(*[[a, b, max(1, 64 >> k)] for k in range(12)])
    rs = [
        dict(files=[F_ALP, F_SHIFT], nproc=0, ncomp=1, m0=False,
             levels=lv(0, 64), checkpoints=[], chk_nproc=0, decoys=False),
        dict(files=[F_ALP, F_SHIFT], nproc=0, ncomp=1, m0=False,
             levels=lv(64, 128), checkpoints=[100], chk_nproc=0,
             decoys=False),
        dict(files=[F_ALP, F_RHO], nproc=0, ncomp=12, m0=False,
             levels=_lev([128, 160, 8], [128, 160, 4]),
             level_comps={"1": list(range(1, 12))},
             checkpoints=[], chk_nproc=0, decoys=False),
    ]
    ops = [["iterations", False], ["read_iterations", False],
           ["get_content", 0, False], ["add"], ["iterations", False],
           ["read_iterations", False], ["add"], ["iterations", False],
           ["get_content", 2, False], ["read_iterations", False]]
    return dict(sim=sim, loc=loc, restarts=rs, ids=[0, 1, 2],
                simfactory=False, initial=1, ops=ops)


# ---------------------------------------------------------------------------
# overall: collect_overall_iterations, set semantics


@st.composite
def overall_case(draw):
    nrest = draw(st.integers(2, 5))
    nlev = draw(st.integers(1, 3))
    levels = draw(level_history(nrest, nlev, gap_ok=True))
    if draw(st.integers(0, 5)) == 0:
        # output restricted to selected levels: the labels skip one
        skip = draw(st.integers(1, nlev))
        levels = [{str(int(k) + (1 if int(k) >= skip else 0)): v
                   for k, v in lv.items()} for lv in levels]
    return dict(levels=levels, numpy=draw(st.booleans()))


def level_class(seq):
    """seq: list of [a,b,d] | [a] of the restarts that have the level.
    Returns 'gap' / 'backward' when outside the asserted class."""
    for p, q in zip(seq, seq[1:]):
        if q[0] < p[0]:
            return "backward"
        ds = [t[2] for t in (q, p) if len(t) == 3]
        if ds and q[0] > p[-2 if len(p) == 3 else 0] + ds[0]:
            return "gap"
    return "asserted"


def denote(segments):
    s = set()
    for seg in segments:
        s |= set(sd.iteration_list(seg))
    return s


def merge_step(seq):
    """Which merge step first loses set equality: the level is fed alone,
    restart by restart; returns '<new entry>-after-<last segment>' with
    entries 'range' / 'singleton' (names the branch of the merge)."""
    last = None
    for i in range(1, len(seq) + 1):
        per = {r: {"rl = 0": list(t)} for r, t in enumerate(seq[:i])}
        with quiet():
            segs = norm(R.collect_overall_iterations(per, False))[
                "overall"]["rl = 0"]
        union = set()
        for t in seq[:i]:
            union |= set(sd.iteration_list(t))
        if denote(segs) != union:
            kind = lambda t: "singleton" if len(t) == 1 else "range"  # noqa
            return f"{kind(seq[i - 1])}-after-{kind(last[-1])}" if last \
                else "first"
        last = segs
    return "only-with-other-levels"


def test_overall(case, note):
    levels = case["levels"]
    per = {}
    for r, lv in enumerate(levels):
        d = {"var available": ["alpha"], "checkpoints": []}
        its = sorted(i for t in lv.values() for i in sd.iteration_list(t))
        if its:
            d["its available"] = [its[0], its[-1]]
        for k, t in lv.items():
            if case.get("numpy"):
                d[f"rl = {k}"] = (np.array(t) if len(t) == 1
                                  else [np.int64(v) for v in t])
            else:
                d[f"rl = {k}"] = list(t)
        per[r] = d
    want_per = norm(per)
    try:
        with quiet():
            got = R.collect_overall_iterations(per, False)
    except Exception as e:  # noqa: BLE001
        raise PropertyFailure(f"overall:raises:{type(e).__name__}",
                              dict(error=str(e)[:200]))
    g = norm(got)
    if {k: v for k, v in g.items() if k != "overall"} != want_per:
        note.fail("overall:restart-data-changed",
                  dict(got={str(k): v for k, v in g.items()}))
    ov = g.get("overall")
    if not isinstance(ov, dict):
        raise PropertyFailure("overall:missing-key", dict(got=repr(ov)))
    all_levels = sorted({k for lv in levels for k in lv}, key=int)
    if sorted(ov, key=str) != sorted(f"rl = {k}" for k in all_levels):
        note.fail("overall:levels", dict(got=sorted(ov),
                                         want=all_levels))
    nt = False
    for k in all_levels:
        seq = [lv[k] for lv in levels if k in lv]
        nt = nt or len(seq) >= 2
        cl = level_class(seq)
        segs = ov.get(f"rl = {k}")
        if segs is None:
            continue
        if any(len(s) not in (1, 3) for s in segs):
            note.fail("overall:segment-shape", dict(level=k, got=segs))
            continue
        union = set()
        for t in seq:
            union |= set(sd.iteration_list(t))
        den = denote(segs)
        miss, phantom = sorted(union - den), sorted(den - union)
        if cl != "asserted":
            note.cls(f"obs:{cl}:" + ("exact" if not (miss or phantom) else
                                     "phantom" if phantom else "missing"))
            continue
        note.cls("level:asserted")
        if miss or phantom:
            step = merge_step(seq)
            if miss:
                note.fail(f"overall:missing[{step}]",
                          dict(level=k, restarts=seq, overall=segs,
                               missing=miss[:10]))
            if phantom:
                note.fail(f"overall:phantom[{step}]",
                          dict(level=k, restarts=seq, overall=segs,
                               phantom=phantom[:10]))
    note.nt(nt)


# ---------------------------------------------------------------------------
# names

thorn_name = st.one_of(
    st.sampled_from(["ADMBASE", "HYDROBASE", "ML_BSSN", "grid", "WeylScal4",
                     "admbase", "ml_admconstraints", "restart", "it", "rl"]),
    st.text(alphabet=ALNUM, min_size=1, max_size=8))
var_name = st.one_of(
    st.sampled_from(["gxx", "alp", "vel[0]", "vel[2]", "rho", "Psi4r", "H",
                     "w_lorentz", "scon[1]", "it", "rl", "tl", "c", "m", "r",
                     "xyz", "file_0", "h5", "checkpoint", "it_5"]),
    st.builds(lambda a, i: a + ("" if i is None else f"[{i}]"),
              st.text(alphabet=ALNUM, min_size=1, max_size=8),
              st.one_of(st.none(), st.integers(0, 12))))
nat = st.one_of(st.integers(0, 12), st.integers(0, 10**7))
dirs = st.sampled_from(["", "", "a/b/", "/abs/sim/output-0003/sim/",
                        "rho.xyz.file_3.h5/", "./", "x-y.h5/",
                        "checkpoint.chkpt.it_7.h5/"])


@st.composite
def name_case(draw):
    kind = draw(st.sampled_from(["key", "key", "file", "file", "chk"]))
    if kind == "key":
        return dict(kind=kind, thorn=draw(thorn_name), var=draw(var_name),
                    it=draw(nat), tl=draw(st.integers(0, 3)),
                    m=draw(st.sampled_from([None, None, 0, 0, 1, 2])),
                    rl=draw(st.one_of(st.none(), st.integers(0, 11))),
                    c=draw(st.one_of(st.none(), nat)))
    if kind == "file":
        return dict(kind=kind,
                    thorn=draw(st.one_of(st.none(), thorn_name)),
                    name=draw(var_name),
                    xyz=draw(st.sampled_from(["", "prefix", "suffix"])),
                    chunk=draw(st.one_of(st.none(), nat)), dir=draw(dirs))
    return dict(kind=kind, it=draw(nat),
                chunk=draw(st.one_of(st.none(), nat)), dir=draw(dirs))


def test_names(case, note):
    note.nt()
    kind = case["kind"]
    note.cls("name:" + kind)
    if kind == "key":
        key = sd.dataset_key(case["thorn"], case["var"], case["it"],
                             case["tl"], case["m"], case["rl"], case["c"])
        try:
            got = R.parse_hdf5_key(key)
        except Exception as e:  # noqa: BLE001
            raise PropertyFailure(f"key:raises:{type(e).__name__}",
                                  dict(key=key, error=str(e)[:200]))
        if case["m"] not in (None, 0):
            # multi-patch maps: aurel documents/supports "m=0" only
            note.cls("obs:key-m>0:" + ("None" if got is None else
                                       "rl-lost" if got["rl"] != case["rl"]
                                       else "parsed"))
            return
        want = dict(thorn=case["thorn"], variable=case["var"], it=case["it"],
                    tl=case["tl"], m=case["m"], rl=case["rl"], c=case["c"])
        want["combined variable name"] = case["thorn"] + "::" + case["var"]
        if got is None:
            raise PropertyFailure("key:none", dict(key=key))
        for f, w in want.items():
            if f not in got:
                note.fail(f"key:no-field:{f}", dict(key=key, got=got))
            elif got[f] != w or type(got[f]) is not type(w):
                note.fail(f"key:{f}", dict(key=key, got=got[f], want=w))
        return
    if kind == "chk":
        fn = case["dir"] + sd.checkpoint_filename(case["it"], case["chunk"])
        try:
            got = R.parse_h5file(fn)
        except Exception as e:  # noqa: BLE001
            raise PropertyFailure(f"checkpoint:raises:{type(e).__name__}",
                                  dict(file=fn, error=str(e)[:200]))
        want = dict(iteration=case["it"], chunk_number=case["chunk"])
        if got != want:
            raise PropertyFailure("checkpoint:fields",
                                  dict(file=fn, got=got, want=want))
        return
    xyz, chunk, thorn = case["xyz"], case["chunk"], case["thorn"]
    fn = case["dir"] + sd.h5_filename(case["name"], thorn, xyz == "prefix",
                                      chunk, xyz == "suffix")
    if chunk is None and xyz == "suffix":
        xyz = "prefix"      # "name.xyz.h5": the two spellings coincide
    try:
        got = R.parse_h5file(fn)
    except Exception as e:  # noqa: BLE001
        raise PropertyFailure(f"file:raises:{type(e).__name__}",
                              dict(file=fn, error=str(e)[:200]))
    if got is None:
        raise PropertyFailure("file:none", dict(file=fn))
    want = dict(
        thorn_with_dash=None if thorn is None else thorn + "-", thorn=thorn,
        variable_or_group=case["name"],
        base_name=None if thorn is None else thorn + "-" + case["name"],
        xyz_prefix=".xyz" if xyz == "prefix" else None, chunk_number=chunk,
        xyz_suffix=".xyz" if xyz == "suffix" else None,
        group_file=thorn is not None)
    for f, w in want.items():
        if f not in got:
            note.fail(f"file:no-field:{f}", dict(file=fn, got=got))
        elif got[f] != w or type(got[f]) is not type(w):
            note.fail(f"file:{f}", dict(file=fn, got=got[f], want=w))


GENERIC_NAMES = [
    dict(kind="key", thorn="ADMBASE", var="betax", it=1024, tl=1, m=0, rl=2,
         c=13),
    dict(kind="key", thorn="HYDROBASE", var="vel[2]", it=7, tl=0, m=None,
         rl=1, c=None),
    dict(kind="key", thorn="rl", var="it", it=30, tl=2, m=None, rl=None,
         c=4),
    dict(kind="file", thorn="hydrobase", name="vel", xyz="prefix", chunk=12,
         dir="/abs/sim/output-0003/sim/"),
    dict(kind="file", thorn=None, name="vel[1]", xyz="suffix", chunk=3,
         dir=""),
    dict(kind="file", thorn="ml_bssn", name="ml_ham", xyz="", chunk=None,
         dir="a/b/"),
    dict(kind="chk", it=1589, chunk=21, dir="rho.xyz.file_3.h5/"),
    dict(kind="chk", it=0, chunk=None, dir=""),
]


# ---------------------------------------------------------------------------
# par

SPECIAL = ["verbose", "timelevels", "evolution_method", "out_every",
           "one_file_per_group"]
digits = st.text(alphabet="0123456789", min_size=1, max_size=3)
str_body = st.text(
    alphabet=st.sampled_from(list(ALNUM + " =:.,-+/()[]_$*<>!%&;'")),
    max_size=12)


@st.composite
def number_text(draw):
    """-> (class, text)."""
    sign = draw(st.sampled_from(["", "", "-", "+"]))
    kind = draw(st.sampled_from(["int", "float", "exp", "exp", "expE"]))
    if kind == "int":
        return "int", sign + str(int(draw(digits)))
    mant = draw(st.sampled_from(["d.d", "d.d", "d.", ".d"]
                                + (["d"] if kind != "float" else [])))
    mant = "".join(draw(digits) if ch == "d" else ch for ch in mant)
    if kind == "float":
        return "float", sign + mant
    esign = draw(st.sampled_from(["", "-", "+"]))
    e = "e" if kind == "exp" else "E"
    text = sign + mant + e + esign + str(int(draw(digits)) % 100)
    if kind == "expE":
        return "float-uppercaseE", text
    return ("float-exp-2sign" if sign and esign else "float-exp"), text


@st.composite
def par_case(draw):
    thorns = draw(st.lists(
        st.text(alphabet=ALNUM[:52], min_size=2, max_size=7),
        min_size=2, max_size=5, unique_by=lambda s: s.lower()))
    thorns = [t for t in thorns if t.lower() != "coordbase"] + ["CoordBase"]
    entries = []
    n = draw(st.integers(1, 8))
    for i in range(n):
        vk = draw(st.sampled_from(["num", "num", "num", "str", "str", "bool",
                                   "kw"]))
        e = dict(k="param", thorn=draw(st.sampled_from(thorns)),
                 name=f"p{i}_" + draw(st.text(alphabet=ALNUM, max_size=5))
                 + draw(st.sampled_from(["", "", "[1]"])))
        if vk == "num":
            e["vk"], e["text"] = draw(number_text())
        elif vk == "str":
            e["vk"] = "str"
            body = draw(st.one_of(
                str_body, st.sampled_from(["a=b+c", "ADMBase::lapse x::y",
                                           "42", "1.5e-3", "yes", "", " a "]),
                st.builds(lambda a, b, c: a + b + c, str_body,
                          st.sampled_from(["::", "=", " = ", "==", "::="]),
                          str_body)))
            e["text"] = '"' + body + '"'
        elif vk == "bool":
            e["vk"] = "bool"
            b = draw(st.sampled_from(["yes", "no"]))
            e["text"] = draw(st.sampled_from([b, '"' + b + '"']))
        else:
            e["vk"] = "kw"
            e["text"] = draw(st.sampled_from(
                ["none", "time", "physical", "RK4", "$parfile", "divisor",
                 "ML_BSSN", "static"]))
        entries.append(e)
    # thorn-qualified duplicates
    for name in draw(st.lists(st.sampled_from(SPECIAL), max_size=2,
                              unique=True)):
        for t in draw(st.lists(st.sampled_from(thorns), min_size=2,
                               max_size=3, unique=True)):
            if name in ("verbose", "one_file_per_group"):
                vk, text = "bool", draw(st.sampled_from(["yes", "no",
                                                         '"yes"']))
            elif name == "evolution_method":
                vk, text = "str", '"' + draw(st.sampled_from(
                    ["ML_BSSN", "GRHydro", "static"])) + '"'
            else:
                vk, text = "int", str(draw(st.integers(0, 512)))
            entries.append(dict(k="param", thorn=t, name=name, vk=vk,
                                text=text))
    for e in entries:
        e["indent"] = draw(st.sampled_from(["", "", " ", "    ", "\t"]))
        e["sp1"] = draw(st.sampled_from(["", " ", "   ", "\t"]))
        e["sp2"] = draw(st.sampled_from(["", " ", "  "]))
        e["comment"] = draw(st.sampled_from(
            [None, None, " # note", "# x = 1", " # Thorn::p = 2 \"q\""]))
    # ActiveThorns lines: every thorn at least once, repeats allowed
    nlines = draw(st.integers(1, 3))
    lines = [[] for _ in range(nlines)]
    for t in thorns:
        lines[draw(st.integers(0, nlines - 1))].append(t)
    for t in draw(st.lists(st.sampled_from(thorns), max_size=2)):
        ln = lines[draw(st.integers(0, nlines - 1))]
        if t not in ln:
            ln.append(t)
    for ln in lines:
        if ln:
            entries.append(dict(k="active", thorns=ln))
    for c in draw(st.lists(st.sampled_from(
            ["# comment", "", "#### Grid ::: = ###", "   ",
             "# ActiveThorns = \"Ghost\"", "# Fake::param = 3"]),
            max_size=3)):
        entries.append(dict(k="raw", text=c))
    order = draw(st.permutations(list(range(len(entries)))))
    entries = [entries[i] for i in order]
    nloc = draw(st.integers(1, 3))
    locs = draw(st.lists(st.lists(fmt_name(2), min_size=1, max_size=2),
                         min_size=nloc, max_size=nloc,
                         unique_by=lambda p: "/".join(p)))
    nrest = draw(st.integers(1, 3))
    return dict(
        sim=draw(fmt_name()), locs=locs,
        where=draw(st.integers(0, nloc - 1)),
        missing_dirs=draw(st.lists(st.integers(0, nloc - 1), max_size=1)),
        decoys=draw(st.booleans()), nrest=nrest,
        par_restarts=sorted(set(draw(st.lists(
            st.integers(0, nrest - 1), min_size=1, max_size=2)))),
        shiftout=draw(st.booleans()),
        grid=draw(st.sampled_from([[-10.0, 0.5, 40], [0.0, 75.375, 8],
                                   [-1.0, 0.25, 8], [0.0, 1.0, 16]])),
        entries=entries, noslash=draw(st.integers(0, 7)) == 0)


def render_par(case):
    x0, dx, n = case["grid"]
    out = []
    for c in "xyz":
        out += [f"CoordBase::{c}min = {x0!r}",
                f"CoordBase::{c}max = {x0 + n * dx!r}",
                f"CoordBase::d{c} = {dx!r}"]
        if case.get("shiftout"):
            out += [f"CoordBase::boundary_shiftout_{c}_lower = 1",
                    f"CoordBase::boundary_shiftout_{c}_upper = 0"]
    for e in case["entries"]:
        if e["k"] == "active":
            out.append('ActiveThorns = "' + " ".join(e["thorns"]) + '"')
        elif e["k"] == "raw":
            out.append(e["text"])
        else:
            out.append(f"{e.get('indent', '')}{e['thorn']}::{e['name']}"
                       f"{e.get('sp1', ' ')}={e.get('sp2', ' ')}{e['text']}"
                       f"{e.get('comment') or ''}")
    return "\n".join(out) + "\n"


def test_par(case, note):
    root = scratch_dir()
    saved = os.environ.get("SIMLOC")
    try:
        sim = case["sim"]
        locs = [root + "/" + "".join(p + "/" for p in loc)
                for loc in case["locs"]]
        j = case["where"]
        for i, loc in enumerate(locs):
            if i in case["missing_dirs"] and i != j:
                continue
            os.makedirs(loc, exist_ok=True)
            if case["decoys"] and i != j:
                # other simulations, and a directory of the right name
                # without any parameter file
                sd.write_par(loc, sim + "x", 0, sd.MINIMAL_PAR)
                os.makedirs(loc + sim + "/output-0000/" + sim, exist_ok=True)
        text = render_par(case)
        for r in range(case["nrest"]):
            os.makedirs(sd.restart_path(locs[j], sim, r), exist_ok=True)
        for r in case["par_restarts"]:
            sd.write_par(locs[j], sim, r, text)
        words = words_in(sim, *[s for p in case["locs"] for s in p])
        note.nt(bool(words) or len(locs) >= 2)
        note.cls(f"simloc-entries={len(locs)}", *("word:" + w for w in words))
        if case["noslash"]:
            # observation only: the module docstring shows a SIMLOC list
            # without trailing slashes, the code concatenates simloc+simname
            os.environ["SIMLOC"] = os.pathsep.join(p.rstrip("/")
                                                   for p in locs)
            try:
                with quiet():
                    p = R.parameters(sim)
                note.cls("obs:simloc-no-trailing-slash:found:"
                         + str(p.get("simpath", "")
                               == locs[j].rstrip("/")))
            except Exception as e:  # noqa: BLE001
                note.cls("obs:simloc-no-trailing-slash:raises:"
                         + type(e).__name__)
        os.environ["SIMLOC"] = os.pathsep.join(locs)
        asserted = [e for e in case["entries"] if e["k"] == "param"]
        obs = [e for e in asserted if e["vk"] == "float-uppercaseE"]
        try:
            with quiet():
                p = R.parameters(sim)
        except Exception as e:  # noqa: BLE001
            raise PropertyFailure(
                f"parameters:raises:{type(e).__name__}",
                dict(error=str(e)[:200], par=text))
        want_core = dict(simname=sim, simulation="ET", simpath=locs[j],
                         datapath=sd.restart_path(locs[j], sim, 0))
        for k, w in want_core.items():
            if p.get(k) != w:
                note.fail(f"par:{k}", dict(got=p.get(k), want=w,
                                           simloc=os.environ["SIMLOC"]))
        for e in asserted:
            key = (e["thorn"] + "::" + e["name"] if e["name"] in SPECIAL
                   else e["name"])
            vk, text = e["vk"], e["text"]
            note.cls("value:" + vk)
            if vk == "int":
                want = int(text)
            elif vk.startswith("float"):
                want = float(text)
            elif text.startswith('"'):
                want = text[1:-1]
            else:
                want = text
            if e in obs:
                got = p.get(key)
                note.cls("obs:uppercaseE:" + type(got).__name__)
                continue
            if key not in p:
                note.fail(f"par:missing-key[{vk}]",
                          dict(key=key, line=text, keys=sorted(p)[:40]))
                continue
            got = p[key]
            if type(got) is not type(want):
                note.fail(f"par:type[{vk}]",
                          dict(key=key, text=text, got=repr(got),
                               got_type=type(got).__name__,
                               want_type=type(want).__name__))
            elif got != want:
                note.fail(f"par:value[{vk}]",
                          dict(key=key, text=text, got=got, want=want))
        active = {t for e in case["entries"] if e["k"] == "active"
                  for t in e["thorns"]}
        prefixes = {e["thorn"] for e in asserted} | {"CoordBase"}
        lot = p.get("list_of_thorns")
        if not isinstance(lot, list):
            note.fail("par:list_of_thorns:type", dict(got=repr(lot)))
        else:
            if len(lot) != len(set(lot)):
                note.fail("par:list_of_thorns:duplicates",
                          dict(got=sorted(lot)))
            if not active <= set(lot):
                note.fail("par:list_of_thorns:missing",
                          dict(missing=sorted(active - set(lot))))
            if not set(lot) <= active | prefixes:
                note.fail("par:list_of_thorns:extra",
                          dict(extra=sorted(set(lot) - active - prefixes)))
    finally:
        if saved is None:
            os.environ.pop("SIMLOC", None)
        else:
            os.environ["SIMLOC"] = saved
        shutil.rmtree(root, ignore_errors=True)


def _e(thorn, name, vk, text, **kw):
    return dict(k="param", thorn=thorn, name=name, vk=vk, text=text,
                indent=kw.get("indent", ""), sp1=kw.get("sp1", " "),
                sp2=kw.get("sp2", " "), comment=kw.get("comment"))


def generic_par(sim, exp2sign):
    es = [
        dict(k="active", thorns=["Carpet", "CoordBase", "IOUtil"]),
        dict(k="raw", text="#### Output ::: = ###"),
        _e("Carpet", "p0_levels", "int", "-12", sp1="   "),
        _e("Carpet", "p1_ghost[1]", "int", "+3", indent="\t", sp2=""),
        _e("MoL", "p2_tol", "float", "-0.25", comment=" # tolerance = 1"),
        _e("MoL", "p3_k", "float-exp", "1.e-50"),
        _e("MoL", "p4_big", "float-exp", "+2.5e3", sp1="", sp2=""),
        _e("MoL", "p4_small", "float-exp", "2.5e-3"),
        _e("MoL", "p4_neg", "float-exp", "-2e5"),
        _e("IOUtil", "p5_vars", "str", '"ADMBase::lapse x=y::z = 1"'),
        _e("IOUtil", "p6_num", "str", '"42"', comment="# Fake::q = 1"),
        _e("Carpet", "p7_poison", "bool", "yes"),
        _e("Carpet", "p8_fill", "bool", '"no"'),
        _e("IOUtil", "p9_dir", "kw", "$parfile"),
        _e("IOHDF5", "out_every", "int", "128"),
        _e("IOBasic", "out_every", "int", "64"),
        _e("ML_BSSN", "evolution_method", "str", '"ML_BSSN"'),
        _e("HydroBase", "evolution_method", "str", '"GRHydro"'),
        dict(k="active", thorns=["MoL", "ML_BSSN", "HydroBase", "Carpet",
                                 "IOHDF5", "IOBasic"]),
        dict(k="raw", text='# ActiveThorns = "Ghost"'),
    ]
    if exp2sign:
        es.append(_e("MoL", "p10_neg", "float-exp-2sign", "-1.5e-3"))
    return dict(sim=sim, locs=[["first"], ["rl_it", "3D_output"], ["last"]],
                where=1, missing_dirs=[2], decoys=True, nrest=3,
                par_restarts=[1, 2], shiftout=True, grid=[0.0, 75.375, 8],
                entries=es, noslash=False)


# ---------------------------------------------------------------------------
# fixtures

FIXTURES = ["test_onefile_ungrouped", "test_onefile_grouped",
            "test_proc_ungrouped", "test_proc_grouped"]
MY_KEY = re.compile(r"^([A-Za-z0-9_]+)::(\S+) it=(\d+) tl=(\d+)( m=(\d+))?"
                    r"( rl=(\d+))?( c=(\d+))?$")


def scan_restart(path):
    """independent scan of one restart directory -> (content, levels, chk,
    shapes) using this module's own name grammar."""
    var_files, levels, shapes, chk = {}, {}, {}, set()
    for fn in sorted(os.listdir(path)):
        if not fn.endswith(".h5"):
            continue
        if fn.startswith("checkpoint.chkpt.it_"):
            chk.add(int(fn.split("it_")[1].split(".")[0]))
            continue
        per_var = {}
        with h5py.File(path + fn, "r") as h:
            for k in h.keys():
                m = MY_KEY.match(k)
                if not m:
                    continue
                rl = int(m.group(8) or 0)
                per_var.setdefault(m.group(2), {}).setdefault(
                    rl, set()).add(int(m.group(3)))
                if m.group(10) is None and rl == 0:
                    shapes[m.group(2)] = (
                        tuple(h[k].shape),
                        [int(g) for g in h[k].attrs["cctk_nghostzones"]])
        for v, lv in per_var.items():
            var_files.setdefault(v, set()).add(path + fn)
            for rl, its in lv.items():
                if levels.setdefault(rl, its) != its:
                    raise RuntimeError("fixture: iteration sets differ "
                                       "between variables")
    groups = {}
    for v, fs in var_files.items():
        groups.setdefault(tuple(sorted(fs)), []).append(v)
    content = {tuple(sorted(vs)): list(fs) for fs, vs in groups.items()}
    return content, levels, sorted(chk), shapes


def test_fixture(case, note):
    note.nt()
    name = case["fixture"]
    src = os.path.join(REPO, "tests", "fixtures", name)
    if not os.path.isdir(src):
        src = os.path.join("/repo/tests/fixtures", name)
    root = scratch_dir()
    saved = os.environ.get("SIMLOC")
    try:
        simloc = root + "/"
        shutil.copytree(src, simloc + name, ignore=shutil.ignore_patterns(
            "iterations.txt", "content.txt", "all_iterations"))
        os.environ["SIMLOC"] = simloc
        try:
            with quiet():
                p = R.parameters(name)
        except Exception as e:  # noqa: BLE001
            raise PropertyFailure(f"fixture:parameters:raises:"
                                  f"{type(e).__name__}", dict(error=str(e)))
        nrest = len([d for d in os.listdir(simloc + name)
                     if d.startswith("output-")])
        truth = {}
        for r in range(nrest):
            content, levels, chk, shapes = scan_restart(
                sd.restart_path(simloc, name, r))
            d = {"var available": sorted(aurel_groups(
                [v for k in content for v in k]))}
            its = sorted({i for s in levels.values() for i in s})
            d["its available"] = [its[0], its[-1]]
            for rl, s in sorted(levels.items()):
                s = sorted(s)
                steps = {b - a for a, b in zip(s, s[1:])}
                if len(steps) > 1:
                    raise RuntimeError("fixture: non-uniform iterations")
                d[f"rl = {rl}"] = ([s[0]] if len(s) == 1
                                   else [s[0], s[-1], steps.pop()])
            d["checkpoints"] = chk
            truth[r] = (d, content, shapes)
        # derived grid numbers against the stored (unchunked, rl=0) arrays:
        # N + 2 * ghost zones = array extent (axes z, y, x)
        for r in range(nrest):
            for v, (shape, ghost) in truth[r][2].items():
                note.cls("grid-shape-compared")
                for ax, c in zip((2, 1, 0), "xyz"):
                    if p["N" + c] + 2 * ghost["xyz".index(c)] != shape[ax]:
                        note.fail(f"fixture:N{c}",
                                  dict(param=p["N" + c], ghost=ghost,
                                       shape=list(shape), restart=r, var=v))
                break
        try:
            with quiet():
                first = norm(R.iterations(p, skip_last=True, verbose=False))
                got = norm(R.iterations(p, skip_last=False, verbose=False))
                again = norm(R.iterations(p, skip_last=False, verbose=False))
                back = norm(R.read_iterations(p))
                contents = [(R.get_content(p, restart=r, verbose=False),
                             R.get_content(p, restart=r, overwrite=True,
                                           verbose=False))
                            for r in range(nrest)]
        except Exception as e:  # noqa: BLE001
            raise PropertyFailure(f"fixture:raises:{type(e).__name__}",
                                  dict(error=str(e)[:300]))
        if sorted(k for k in first if k != "overall") != list(
                range(nrest - 1)):
            note.fail("fixture:skip_last", dict(got=sorted(map(str, first))))
        if sorted(k for k in got if k != "overall") != list(range(nrest)):
            note.fail("fixture:restart-set", dict(got=sorted(map(str, got))))
        for r in range(nrest):
            if r in got:
                cmp_restart(got[r], truth[r][0], "fixture", "", note)
        if again != got:
            note.fail("fixture:repeat", dict(first=got, second=again))
        if back != {k: v for k, v in got.items() if k != "overall"}:
            note.fail("fixture:parse-back", dict(file=back, memory=got))
        for k, segs in got.get("overall", {}).items():
            union = set()
            for r in range(nrest):
                if k in truth[r][0]:
                    union |= set(sd.iteration_list(truth[r][0][k]))
            if denote(segs) != union:
                note.fail("fixture:overall", dict(level=k, got=segs))
        for r in range(nrest):
            c1, c2 = contents[r]
            want = {k: sorted(v) for k, v in truth[r][1].items()}
            for c in (c1, c2):
                if {k: sorted(v) for k, v in c.items()} != want:
                    note.fail("fixture:get_content",
                              dict(restart=r, got=sorted(map(list, c)),
                                   want=sorted(map(list, want))))
    finally:
        if saved is None:
            os.environ.pop("SIMLOC", None)
        else:
            os.environ["SIMLOC"] = saved
        shutil.rmtree(root, ignore_errors=True)


# ---------------------------------------------------------------------------


def selftest():
    assert sd.iteration_list([0, 384, 128]) == [0, 128, 256, 384]
    assert denote([[0, 20, 10], [25]]) == {0, 10, 20, 25}
    assert level_class([[0, 100, 10], [200, 300, 10]]) == "gap"
    assert level_class([[0, 100, 10], [110, 300, 10]]) == "asserted"
    assert level_class([[0, 100, 10], [90]]) == "asserted"
    assert sorted(aurel_groups(["vel[0]", "vel[1]", "vel[2]", "alp", "rho",
                                "betax", "foo"])) == sorted(
        ["velup3", "alpha", "rho0", "betax", "foo"])
    spec = generic_history("s", [])["restarts"][1]
    t = restart_truth(spec, sd.content_truth(spec, KNOWN))
    assert t["rl = 2"] == [512, 1024, 32] and t["checkpoints"] == [494, 990]
    assert ("At11", "At12", "At22") in sd.content_truth(spec, KNOWN)
    assert len(sd.content_truth(spec, KNOWN)[("alp",)]) == 3
    # the writer's names obey this module's own (anchored) grammar
    k = sd.dataset_key("ADMBASE", "vel[0]", 12, 0, 0, 1, 3)
    assert MY_KEY.match(k).group(2, 3, 8, 10) == ("vel[0]", "12", "1", "3")
    txt = render_par(generic_par("s", True))
    assert 'IOUtil::p5_vars = "ADMBase::lapse x=y::z = 1"' in txt
    assert "MoL::p10_neg = -1.5e-3" in txt


def subchecks(tier):
    q = tier == "quick"
    return [
        Sub("history", history_case(), test_history, 240 if q else 6000,
            generic=[generic_history("rl_it_arange_Checkpoints_3D_output",
                                     ["output", "it3D_rl"]),
                     generic_history("my_restart_sim", ["restart"]),
                     generic_history_many("manylevels", ["box"])],
            shards=8 if q else 16, max_rounds=6, shrink_quick=False),
        Sub("overall", overall_case(), test_overall, 2000 if q else 60000,
            generic=[dict(levels=[_lev([0, 384, 128], [0, 384, 64]),
                                  _lev([256, 1024, 128], [384, 1024, 64],
                                       [512]),
                                  _lev([1024, 2048, 256], [1088], [544]),
                                  _lev([2304], [1152, 1280, 64])],
                          numpy=True),
                     # 3D output on selected levels only: level 1 is written
                     # by no restart, levels 2 and 3 are
                     dict(levels=[{"0": [0, 64, 8], "2": [0, 64, 2],
                                   "3": [0, 64, 1]},
                                  {"0": [64, 128, 8], "2": [64, 128, 2]}],
                          numpy=False)],
            shards=4 if q else 16, max_rounds=6),
        Sub("names", name_case(), test_names, 2000 if q else 100000,
            generic=GENERIC_NAMES, shards=2 if q else 16),
        Sub("par", par_case(), test_par, 400 if q else 12000,
            generic=[generic_par("rl_arange_3D", False),
                     generic_par("my_restart_it", True)],
            shards=6 if q else 16, max_rounds=6, shrink_quick=False),
        Sub("fixtures", None, test_fixture, 0,
            generic=[dict(fixture=f) for f in FIXTURES], shards=4),
    ]
