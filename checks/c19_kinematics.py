"""C19 - kinematics of the default (Eulerian) observers reduce to the 3+1
identities.  DESIGN.md section 4, C19."""
import numpy as np
from hypothesis import strategies as st

from harness import aurelside as A
from harness import cases, ref4d, spacetimes
from harness import selftest as _st
from harness.common import Sub

PROPERTY = "C19"
RULE = ("Hypothesis draws an exact spacetime (W periodic / non-periodic, KS, "
        "PP, F, FLRW) with generic time-dependent lapse, shift, gamma, K and "
        "NO fluid keys supplied (default fluid state), cache settings from "
        "'never clean' to 'memory limit below the inputs'; aurel at two "
        "resolutions (failures re-examined on the next finer pair); u = n exactly, theta -> -K, shear -> -A_ij, vorticity "
        "-> 0, acceleration -> D_i ln(alpha) with a.n -> 0, and the full "
        "4x4 gradient nabla_mu u_nu -> exact nabla_mu n_nu from the 4D "
        "reference, at order >= p-1.5 or round-off floor. Non-trivial = "
        "d_t alpha != 0, alpha != 1, >= 2 shift components.")
ASSUMPTIONS = [
    "convergent regime; no-boundary errors measured after trimming "
    "3*mask_len coarse points per side",
    "matter enters only through Tdown4 (supplied exactly) or the vacuum flag; "
    "no fluid variable is supplied, so rho0 = press = 0, W = 1, v = 0",
]


def selftest():
    _st.run()


@st.composite
def case_strategy(draw):
    c = draw(cases.spacetime_case(
        kinds=("Wp", "Wp", "Wp", "Wn", "KS", "PP", "F", "FLp", "Wt0", "KSin"),
        orders_p=(2, 4, 4, 6), orders_n=(2, 4), np_range=(10, 12)))
    fam = c["spec"]["family"]
    c["form"] = draw(st.sampled_from(["components", "tensors"]))
    c["Lambda"] = 0.0
    if fam in spacetimes.VACUUM:
        m = draw(st.sampled_from(["vacuum", "none"]))
        c["vacuum"] = m == "vacuum"
        c["matter"] = "none"
    else:
        c["vacuum"] = False
        c["matter"] = "Tdown4"
        if draw(st.booleans()):
            c["Lambda"] = draw(cases.f(-0.3, 0.3))
    # cache settings never change a value (C01/C03): mostly no clean-up
    # (fast), sometimes a clean-up every other calculation or a memory limit
    # below the size of the inputs (memory stage after every calculation)
    c["kw"] = draw(st.sampled_from(
        [dict(clear_cache_every_nbr_calc=10**6)] * 4
        + [dict(clear_cache_every_nbr_calc=2),
           dict(clear_cache_every_nbr_calc=10**6,
                memory_threshold_inGB=1e-7)]))
    c["first"] = draw(st.sampled_from(
        [None, "st_covd_udown4", "accelerationdown4", "theta", "sheardown4",
         "omega2", "s_RicciS_u", "dtconserved", "st_Gamma_udd4",
         "st_Gamma_udd4", "dtgammaup3", "Weyl_Psi"]))
    if c["first"] == "Weyl_Psi":
        # the Weyl scalars on the fluid-adapted tetrad (whose time leg is the
        # 4-velocity itself) before the kinematic quantities
        c["kw"] = dict(c["kw"], tetrad="fluid")
    return c


KEYS = ["uup4", "nup4", "udown4", "ndown4", "st_covd_udown4",
        "accelerationdown4", "accelerationup4", "s_covd_udown4",
        "thetadown4", "theta", "sheardown4", "shear2", "omegadown4",
        "omega2", "s_RicciS_u", "A2"]


def exact_kin(ex):
    a = ex["alpha"]
    n_d = ex["ndown"]
    n_u = ex["nup"]
    dn = np.zeros((4, 4) + a.shape)     # d_mu n_nu
    dn[0, 0] = -ex["dtalpha"]
    dn[1:, 0] = -ex["dalpha"]
    cov = dn - np.einsum('lmn...,l...->mn...', ex["Gu"], n_d)
    acc_d = np.einsum('m...,mn...->n...', n_u, cov)
    # textbook: a_mu = D_mu ln alpha (spatial), a_0 = beta^i a_i
    dln = ex["dalpha"] / a
    acc_tb = np.zeros((4,) + a.shape)
    acc_tb[1:] = dln
    acc_tb[0] = np.einsum('i...,i...->...', ex["betaup"], dln)
    K, gam = ex["K"], ex["gamma"]
    Ad = K - gam * ex["Ktrace"] / 3
    A2 = 0.5 * np.einsum('ia...,jb...,ij...,ab...->...', ex["gammaup"],
                         ex["gammaup"], Ad, Ad)
    b = ex["betaup"]
    sh = np.zeros((4, 4) + a.shape)
    sh[1:, 1:] = -Ad
    sh[0, 1:] = sh[1:, 0] = -np.einsum('i...,ij...->j...', b, Ad)
    sh[0, 0] = -np.einsum('i...,j...,ij...->...', b, b, Ad)
    return dict(cov=cov, acc_d=acc_d, acc_tb=acc_tb,
                acc_u=np.einsum('mn...,n...->m...', ex["gup"], acc_d),
                theta=-ex["Ktrace"], shear=sh, shear2=A2)


def test_case(case, note):
    su = A.Setup(case)
    p = su.order
    fam = case["spec"]["family"]
    res = []
    for lvl in (0, 1):
        rel, ex, fd, trim = su.build(lvl)
        out = {}
        for k in ([case["first"]] if case.get("first") else []) + KEYS:
            try:
                out[k] = rel[k]
            except Exception as e:  # noqa: BLE001
                note.fail(f"{k}:raises", dict(
                    error=f"{type(e).__name__}: {e}"))
        res.append((out, ex, exact_kin(ex), fd, trim))
    (o1, ex1, k1, fd1, tr1), (o2, ex2, k2, fd2, tr2) = res
    fl = cases.nontrivial_flags(ex1)
    note.nt(fl["dtlapse"] and fl["lapse"] and fl["nshift"] >= 2)
    note.cls(fam, case["boundary"], f"p={p}", f"mask={case.get('mask')}",
             f"nshift={fl['nshift']}", f"vac={case['vacuum']}",
             "dtlapse" if fl["dtlapse"] else "static-lapse",
             *A.extra_classes(case, ex1))
    if case.get("kw", {}).get("memory_threshold_inGB"):
        note.cls("memory-limit-below-inputs")
    if case.get("kw", {}).get("clear_cache_every_nbr_calc", 10**6) < 100:
        note.cls("clean-up-every-2")
    h2 = min(fd2.dx, fd2.dy, fd2.dz)
    S1 = float(np.max(np.abs(ex2["dg"]))) + 1e-30
    S2 = A.natural_scale(ex2)
    mg = []

    def cv(key, r1, r2, scale, nd, okey=None, sel=None):
        k = okey or key
        if k not in o1 or k not in o2:
            return
        a1, a2 = o1[k], o2[k]
        if sel is not None:
            a1, a2, r1, r2 = a1[sel], a2[sel], r1[sel], r2[sel]
        scale = max(scale, 1e-2)
        floor = 1e-9 * scale * A.cond(ex2) * max(1.0, (0.1 / h2) ** nd)
        e1, e2 = A.err(a1, r1, tr1), A.err(a2, r2, tr2)
        ok, q = A.order_ok(e1, e2, p, floor)
        if np.isfinite(q):
            mg.append(q - (p - max(1.5, 0.3 * p)))
        if not ok:
            note.fail(key, dict(e1=e1, e2=e2, q=q, scale=scale, floor=floor))
    # u = n exactly (algebraic)
    for (o, ex) in ((o1, ex1), (o2, ex2)):
        if "uup4" in o and "nup4" in o:
            if not np.array_equal(o["uup4"], o["nup4"]):
                note.fail("uup4!=nup4", dict(
                    err=float(np.max(np.abs(o["uup4"] - o["nup4"])))))
            e = A.err(o["nup4"], ex["nup"])
            if not e <= 1e-12:
                note.fail("nup4:value", dict(err=e))
        if "udown4" in o:
            e = A.err(o["udown4"], ex["ndown"])
            if not e <= 1e-12:
                note.fail("udown4!=ndown4", dict(err=e))
    s3 = (slice(1, 4),)
    cv("st_covd_udown4:tt", k1["cov"], k2["cov"], S1, 1, "st_covd_udown4",
       sel=(0, 0))
    cv("st_covd_udown4:ts", k1["cov"], k2["cov"], S1, 1, "st_covd_udown4",
       sel=(0, slice(1, 4)))
    cv("st_covd_udown4:st", k1["cov"], k2["cov"], S1, 1, "st_covd_udown4",
       sel=(slice(1, 4), 0))
    cv("st_covd_udown4:ss", k1["cov"], k2["cov"], S1, 1, "st_covd_udown4",
       sel=(slice(1, 4), slice(1, 4)))
    cv("accelerationdown4:spatial", k1["acc_tb"], k2["acc_tb"], S1, 1,
       "accelerationdown4", sel=s3)
    cv("accelerationdown4:time", k1["acc_tb"], k2["acc_tb"], S1, 1,
       "accelerationdown4", sel=(0,))
    cv("accelerationup4", k1["acc_u"], k2["acc_u"], S1, 1)
    for (o, ex, tr, nm) in ((o1, ex1, tr1, 1), (o2, ex2, tr2, 2)):
        pass
    if "accelerationdown4" in o1 and "accelerationdown4" in o2:
        an1 = np.einsum('m...,m...->...', o1["accelerationdown4"], ex1["nup"])
        an2 = np.einsum('m...,m...->...', o2["accelerationdown4"], ex2["nup"])
        o1["a.n"], o2["a.n"] = an1, an2
        cv("a.n", 0 * an1, 0 * an2, S1, 1)
    cv("theta", k1["theta"], k2["theta"], S1, 1)
    cv("sheardown4:spatial", k1["shear"], k2["shear"], S1, 1, "sheardown4",
       sel=(slice(1, 4), slice(1, 4)))
    cv("sheardown4:time", k1["shear"], k2["shear"], S1, 1, "sheardown4",
       sel=(0,))
    cv("shear2", k1["shear2"], k2["shear2"], S1 * S1, 1)
    if "A2" in o1 and "shear2" in o1:
        cv("shear2-vs-A2", o1["A2"], o2["A2"], S1 * S1, 1, "shear2")
    cv("omega2", 0 * k1["theta"], 0 * k2["theta"], S1 * S1, 1)
    cv("omegadown4", 0 * k1["cov"], 0 * k2["cov"], S1, 1)
    if fam in spacetimes.VACUUM:
        cv("s_RicciS_u", ex1["s_RS"], ex2["s_RS"], S2, 2)
    if mg:
        mm = min(mg)
        note.cls("qmargin<0.3" if mm < 0.3 else "qmargin<0.75" if mm < 0.75
                 else "qmargin>=0.75")


KW = dict(clear_cache_every_nbr_calc=10**6)


def generic_cases():
    out = []
    for o, Lam, form, first in ((4, 0.2, "components", "st_covd_udown4"),
                                (2, 0.0, "tensors", "accelerationdown4"),
                                (6, 0.0, "components", "sheardown4"),
                                (4, 0.0, "components", "st_Gamma_udd4")):
        out.append(dict(cases.generic_W(o), Lambda=Lam, form=form,
                        matter="Tdown4", vacuum=False, kw=KW, first=first))
    out.append(dict(cases.generic_KS(4), Lambda=0.0, form="components",
                    matter="none", vacuum=True, kw=KW))
    out.append(dict(cases.generic_PP(2), Lambda=0.0, form="tensors",
                    matter="none", vacuum=False, kw=KW))
    out.append(dict(cases.generic_Wt0(4), Lambda=0.0, form="components",
                    matter="Tdown4", vacuum=False, kw=KW))
    out.append(dict(cases.generic_KSin(4), Lambda=0.0, form="components",
                    matter="none", vacuum=False, kw=KW))
    out.append(dict(cases.generic_W(4), Lambda=0.0, form="components",
                    matter="Tdown4", vacuum=False,
                    kw=dict(KW, tetrad="fluid"), first="Weyl_Psi"))
    return out


def subchecks(tier):
    q = tier == "quick"
    return [Sub("eulerian", case_strategy(), A.asymptotic(test_case), 40 if q else 2500,
                generic=generic_cases(), shards=8 if q else 16, max_rounds=2,
                shrink_quick=False, pregenerate=True)]
