"""C16 - the grid object describes exactly the grid the parameters specify.
DESIGN.md section 4, C16.

Sub-checks
----------
axes       FiniteDifference(param) for drawn (N, min, spacing) per axis: number
           of points, point locations, size/extent attributes, meshgrid and
           derived-array shapes, spherical coordinates of the grid.
roundtrip  cartesian_to_spherical / spherical_to_cartesian on drawn points
           (axis, origin, negative-x half-line included): ranges, conventions,
           round trip.
trim       cutoffmask / cutoffmask2 on 1-, 2-, 3-D index-encoded arrays.
excision   excision / excision2 NaN pattern and input preservation.
consumers  AurelCore / over_time consumers that mix fd.x / fd.Nx with
           param['Nx']-shaped data produce data-shaped output.
"""
import contextlib
import io
import math
import warnings
from fractions import Fraction

import numpy as np
from hypothesis import strategies as st

import aurel
from harness.common import HarnessError, Sub

PROPERTY = "C16"
RULE = (
    "axes/consumers: Hypothesis draws fd_order{2,4,6,8}, boundary mode and, "
    "per axis, N in [minimum for the order, 200] (one long axis, two short "
    "ones) and (min, spacing) in one of the modes free (tables containing "
    "0.1, 0.3, 1/3, 0.7, 1e-3, 0.05, +-1e3 offsets, negative mins), mult "
    "(min = k*spacing), box (min=-L, d=2L/N), boxoff (-L+0.01), cell "
    "(-L+d/2), anyfloat (min in [-1e3,1e3], d in [1e-4,1e2]). A case is "
    "NON-TRIVIAL iff for at least one axis the naive numpy.arange(min, "
    "min+N*d, d) has a number of points different from N (class 'miscount'; "
    "computed by the harness with numpy, not with aurel; the share of such "
    "cases is classes['miscount']/evaluations, about 25 % of the grids, "
    "11-13 % per axis). consumers uses the same generator with the long axis "
    "<= 28 points. When the axis arrays have the wrong length the derived-"
    "shape oracles of that case are skipped (class 'derived-skipped': same "
    "root cause) and the case is reported once as 'count'. roundtrip: "
    "non-trivial iff the drawn points contain a z-axis/origin/negative-x "
    "half-line point and a generic point. trim: non-trivial iff every length "
    "exceeds 4*mask_len (something is left after cutoffmask2). excision: "
    "non-trivial iff non-cubic grid (every case has a checked NaN pattern); "
    "classes interior / high-clipped / low-wrap say where the window lies.")
ASSUMPTIONS = [
    "minimum supported N is 3p/2 ('no boundary') and p/2+1 (periodic, "
    "symmetric), as in C07",
    "point location tolerance: |x_i - (min + i d)| <= 4 eps max(|min|, |i d|) "
    "where the reference is the exact rational min + i d of the two float "
    "parameters, correctly rounded; min + d*arange(N) or linspace achieve "
    "<= 1 eps max(..)",
    "Cartesian <-> spherical round trip tolerance (K = 16, eps = 2^-52): "
    "|dz| <= K eps r; E_rho = min(2 K eps r^2/rho, sqrt(2 K eps) r) + K eps r;"
    " |dx| <= E_rho + K eps rho; |dy| <= E_rho + min(2 K eps rho^2/|y|, "
    "sqrt(2 K eps) rho) + K eps rho.  The square-root terms are the intrinsic"
    " conditioning of theta = arccos(z/r), phi = sign(y) arccos(x/rho) next "
    "to the z axis / the x axis and are not charged to aurel",
    "coordinates with 0 < |v| < 1e-100 are snapped to 0 and |v| <= 1e3: "
    "squares neither under- nor overflow (grid-like magnitudes)",
    "angle conventions asserted: theta in [0, pi] with cos(theta) = z/r; phi "
    "in [-pi, pi] with cos(phi) = x/rho, phi*sign(y) >= 0, phi = 0 on the "
    "positive x half-line, |phi| = pi on the negative one; theta at r = 0 and"
    " phi at rho = 0 only have to lie in range",
    "spherical_coords: the class docstring is ambiguous about the order of "
    "the two angles (code stores [r, phi, theta]); only 'index 0 is r and the"
    " other two are {theta, phi}' is asserted",
    "excision: isingularity entries that are None are undocumented and not "
    "exercised; explicit centres are valid in-grid indices.  Upper bound of "
    "the touched cells = the windows written in the source (half-widths "
    "mask_len+1 resp. 2*mask_len+1, buffer b = 1), lower bound = the cells "
    "whose once (twice) applied centred stencil contains the singular cell "
    "(no buffer), both clipped to the grid; when the window is not cut by "
    "the low edge of the grid the NaN pattern must equal the upper bound",
    "consumers run on Minkowski defaults with the sphere centre at the box "
    "centre (the default centre (0,0,0) need not lie inside a drawn box)",
]

EPS = float(np.finfo(float).eps)
K = 16.0
ORDERS = [2, 4, 6, 8]
BOUNDARIES = ["no boundary", "periodic", "symmetric"]


def min_n(p, boundary):
    return 3 * p // 2 if boundary == "no boundary" else p // 2 + 1


# ---------------------------------------------------------------------------
# generator

SPACINGS = [0.1, 0.3, 1 / 3, 0.7, 1e-3, 0.05, 0.2, 0.6, 2 / 3, 0.01, 1.1,
            0.15, 0.9, 0.07, 1e-2 / 3, 0.25, 0.5, 1.0, 3.3, 12.8]
MINS = [0.0, 0.1, 0.3, 1 / 3, 0.7, 1e-3, 0.05, -0.1, -0.3, -1 / 3, -0.7,
        -1.0, -0.35, -2.5, -10.0, 1e3, 1000.1, -1e3, -999.9, 12345.678,
        -3.2, 0.9]
BOXL = [1.0, 10.0, 0.5, 3.0, 20.0, 100.0, 0.6, 2 * math.pi, 1e3, 7.5]
MODES = ["free", "free", "mult", "mult", "box", "boxoff", "cell", "anyfloat"]


@st.composite
def axis_params(draw, lo, hi):
    n = draw(st.integers(lo, hi))
    mode = draw(st.sampled_from(MODES))
    if mode == "free":
        d = draw(st.sampled_from(SPACINGS))
        mn = draw(st.sampled_from(MINS))
    elif mode == "mult":
        d = draw(st.sampled_from(SPACINGS))
        k = draw(st.integers(-n, 6))
        mn = k * d
    elif mode in ("box", "boxoff", "cell"):
        L = draw(st.sampled_from(BOXL))
        d = 2 * L / n
        mn = -L if mode == "box" else (-L + 0.01 if mode == "boxoff"
                                       else -L + d / 2)
    else:
        d = draw(st.floats(1e-4, 1e2, allow_nan=False))
        mn = draw(st.floats(-1e3, 1e3, allow_nan=False))
        if abs(mn) < 1e-6:      # map (not filter): no sub-1e-100 coordinates
            mn = 0.0
    return dict(N=int(n), min=float(mn), d=float(d), mode=mode)


@st.composite
def grid_case(draw, long_hi=200, short_extra=5, consumers=False):
    p = draw(st.sampled_from(ORDERS))
    b = draw(st.sampled_from(BOUNDARIES))
    lo = min_n(p, b)
    long_axis = draw(st.integers(0, 2))
    axes = []
    for a in range(3):
        hi = max(lo, long_hi) if a == long_axis else lo + short_extra
        axes.append(draw(axis_params(lo, hi)))
    c = dict(order=p, boundary=b, axes=axes,
             extra_keys=draw(st.booleans()))
    if consumers:
        c["psi4"] = draw(st.integers(0, 2)) == 0
        c["est"] = sorted(draw(st.sets(st.integers(0, 25), min_size=2,
                                       max_size=4)))
    return c


def mkaxis(n, mn, d, mode="fixed"):
    return dict(N=n, min=mn, d=d, mode=mode)


GENERIC_GRIDS = [
    # all three axes miscount with naive arange (0.1+6*0.1, 0.3+12*0.1, ...)
    dict(order=4, boundary="no boundary",
         axes=[mkaxis(6, 0.1, 0.1), mkaxis(12, 0.3, 0.1),
               mkaxis(7, 1 / 3, 1 / 3)]),
    dict(order=2, boundary="no boundary", extra_keys=True,
         axes=[mkaxis(3, 0.1, 0.1), mkaxis(24, 0.1, 0.1),
               mkaxis(5, -1.0, 0.25)]),
    # notebook-style box, large offset with small spacing, negative min
    dict(order=8, boundary="no boundary",
         axes=[mkaxis(64, -9.99, 20 / 64), mkaxis(13, 1000.0, 1e-3),
               mkaxis(12, -1.0, 0.01)]),
    dict(order=6, boundary="periodic",
         axes=[mkaxis(5, -0.35, 0.7), mkaxis(200, -1e3, 0.3),
               mkaxis(9, 0.05, 0.05)]),
]


def param_of(case):
    prm = {}
    for a, ax in zip("xyz", case["axes"]):
        prm["N" + a] = int(ax["N"])
        prm[a + "min"] = float(ax["min"])
        prm["d" + a] = float(ax["d"])
    if case.get("extra_keys"):
        # dictionaries from reading.parameters() carry more than the nine
        # documented keys (domain edges, the simulation name, ...); the grid
        # is defined by N, min and spacing only
        for a, ax in zip("xyz", case["axes"]):
            prm[a + "max"] = float(ax["min"]) + int(ax["N"]) * float(ax["d"])
        prm["simname"] = "sim"
        prm["max_refinement_levels"] = 1
    return prm


def exact_axis(mn, d, n):
    """Correctly rounded min + i*d for the two float parameters."""
    fm, fd_ = Fraction(mn), Fraction(d)
    return np.array([float(fm + i * fd_) for i in range(n)])


def axis_tol(mn, d, n):
    i = np.arange(n)
    return 4 * EPS * np.maximum(abs(mn), np.abs(i * d))


def naive_count(mn, d, n):
    """Number of points of the naive construction (classification only)."""
    return len(np.arange(mn, mn + n * d, d))


def classify(case, note):
    mis = 0
    for ax in case["axes"]:
        k = naive_count(ax["min"], ax["d"], ax["N"])
        if k != ax["N"]:
            mis += 1
            note.cls(f"miscount:{'+' if k > ax['N'] else '-'}"
                     f"{abs(k - ax['N'])}")
        note.cls("mode=" + ax["mode"])
    note.nt(mis > 0)
    note.cls("miscount" if mis else "count-ok-naive", f"p={case['order']}")
    return mis


def build_fd(case, note):
    try:
        return aurel.FiniteDifference(param_of(case),
                                      boundary=case["boundary"],
                                      fd_order=case["order"], verbose=False)
    except Exception as e:  # noqa: BLE001
        note.fail("init:raises", dict(error=f"{type(e).__name__}: {e}"))
        return None


# ---------------------------------------------------------------------------
# spherical-coordinate oracles


def _div(a, b):
    """a / b with +inf where b == 0 (a >= 0)."""
    a = np.asarray(a, float)
    b = np.asarray(b, float)
    out = np.full(np.broadcast(a, b).shape, np.inf)
    with np.errstate(all="ignore"):
        np.divide(a, b, out=out, where=(b != 0))
    return out


def check_c2s(x, y, z, r, th, ph, note, tag):
    """(r, th, ph) must be the documented spherical coordinates of x, y, z."""
    x, y, z = (np.asarray(v, float) for v in (x, y, z))
    shp = x.shape
    for nm, v in (("r", r), ("theta", th), ("phi", ph)):
        if np.shape(v) != shp:
            note.fail(f"{tag}:shape", dict(which=nm, got=list(np.shape(v)),
                                           want=list(shp)))
            return
    rho0 = np.hypot(x, y)
    r0 = np.hypot(rho0, z)
    with np.errstate(all="ignore"):
        bad = ~(np.abs(r - r0) <= 8 * EPS * r0)
        if bad.any():
            i = np.argmax(bad)
            note.fail(f"{tag}:r", _pt(x, y, z, i, got=np.ravel(r)[i],
                                      want=np.ravel(r0)[i]))
        bad = ~((th >= 0) & (th <= np.pi))
        if bad.any():
            i = np.argmax(bad)
            note.fail(f"{tag}:theta-range", _pt(x, y, z, i,
                                                got=np.ravel(th)[i]))
        bad = ~((ph >= -np.pi) & (ph <= np.pi))
        if bad.any():
            i = np.argmax(bad)
            note.fail(f"{tag}:phi-range", _pt(x, y, z, i,
                                              got=np.ravel(ph)[i]))
        # inclination from +z
        m = r0 > 0
        bad = m & ~(np.abs(np.cos(th) - _div(z, r0)) <= K * EPS)
        if bad.any():
            i = np.argmax(bad)
            note.fail(f"{tag}:theta-convention",
                      _pt(x, y, z, i, got=np.ravel(th)[i],
                          want=math.atan2(np.ravel(rho0)[i], np.ravel(z)[i])))
        # azimuth from +x towards +y
        m = rho0 > 0
        bad = m & ~(np.abs(np.cos(ph) - _div(x, rho0)) <= K * EPS)
        bad |= m & (ph * np.sign(y) < 0)
        bad |= m & (y == 0) & (x > 0) & (ph != 0)
        bad |= m & (y == 0) & (x < 0) & ~(np.abs(np.abs(ph) - np.pi)
                                          <= 2 * EPS * np.pi)
        if bad.any():
            i = np.argmax(bad)
            note.fail(f"{tag}:phi-convention",
                      _pt(x, y, z, i, got=np.ravel(ph)[i],
                          want=math.atan2(np.ravel(y)[i], np.ravel(x)[i])))


def _pt(x, y, z, i, **kw):
    d = dict(x=float(np.ravel(x)[i]), y=float(np.ravel(y)[i]),
             z=float(np.ravel(z)[i]))
    d.update({k: float(v) for k, v in kw.items()})
    return d


def roundtrip_tol(x, y, z):
    rho0 = np.hypot(x, y)
    r0 = np.hypot(rho0, z)
    s = math.sqrt(2 * K * EPS)
    e_rho = np.minimum(_div(2 * K * EPS * r0 * r0, rho0), s * r0) \
        + K * EPS * r0
    tz = K * EPS * r0
    tx = e_rho + K * EPS * rho0
    ty = e_rho + np.minimum(_div(2 * K * EPS * rho0 * rho0, np.abs(y)),
                            s * rho0) + K * EPS * rho0
    return tx, ty, tz


def check_roundtrip(x, y, z, x2, y2, z2, note, tag):
    x, y, z = (np.asarray(v, float) for v in (x, y, z))
    for nm, v in (("x", x2), ("y", y2), ("z", z2)):
        if np.shape(v) != x.shape:
            note.fail(f"{tag}:shape", dict(which=nm, got=list(np.shape(v)),
                                           want=list(x.shape)))
            return
    tx, ty, tz = roundtrip_tol(x, y, z)
    for nm, a, b, t in (("x", x, x2, tx), ("y", y, y2, ty), ("z", z, z2, tz)):
        bad = ~(np.abs(a - b) <= t)
        if bad.any():
            i = np.argmax(np.where(bad, np.abs(a - b) - t, -np.inf))
            note.fail(f"{tag}:{nm}", _pt(x, y, z, i, got=np.ravel(b)[i],
                                         tol=np.ravel(t)[i]))


# ---------------------------------------------------------------------------
# sub-check: axes


def test_axes(case, note):
    classify(case, note)
    fd = build_fd(case, note)
    if fd is None:
        return
    if fd.mask_len != case["order"] // 2:
        note.fail("mask_len", dict(got=fd.mask_len, order=case["order"]))
    consistent = True
    exact = []
    for a, ax in zip("xyz", case["axes"]):
        n, mn, d = ax["N"], ax["min"], ax["d"]
        ex = exact_axis(mn, d, n)
        exact.append(ex)
        arr = getattr(fd, a + "array")
        if not isinstance(arr, np.ndarray) or arr.ndim != 1 or \
                arr.dtype != np.float64:
            note.fail("axis:type", dict(axis=a, type=str(type(arr)),
                                        dtype=str(getattr(arr, "dtype", ""))))
            consistent = False
            continue
        nattr = getattr(fd, "N" + a)
        if len(arr) != n or nattr != n:
            consistent = False
            if len(arr) != n:
                note.fail("count", dict(
                    axis=a, N=n, min=mn, d=d, len_array=len(arr),
                    fd_N=int(nattr), fd_max=float(getattr(fd, a + "max")),
                    last_point_expected=float(ex[-1])))
            else:
                note.fail("N-attr", dict(axis=a, N=n, fd_N=int(nattr)))
        k = min(len(arr), n)
        err = np.abs(arr[:k] - ex[:k])
        tol = axis_tol(mn, d, k)
        loc_ok = not (err > tol).any()
        if not loc_ok:
            i = int(np.argmax(err - tol))
            note.fail("location", dict(
                axis=a, N=n, min=mn, d=d, i=i, got=float(arr[i]),
                want=float(ex[i]), err=float(err[i]), tol=float(tol[i]),
                err_in_eps_scale=float(err[i] / (tol[i] / 4))))
        if getattr(fd, a + "min") != mn:
            note.fail("min-attr", dict(axis=a, got=float(getattr(fd, a + "min")),
                                       want=mn))
        if getattr(fd, "d" + a) != d:
            note.fail("d-attr", dict(axis=a, got=float(getattr(fd, "d" + a)),
                                     want=d))
        amax = getattr(fd, a + "max")
        if amax != arr[-1]:
            note.fail("max-attr", dict(axis=a, got=float(amax),
                                       last=float(arr[-1])))
        elif len(arr) == n and loc_ok and abs(amax - ex[-1]) > tol[-1]:
            note.fail("max-value", dict(axis=a, N=n, min=mn, d=d,
                                        got=float(amax), want=float(ex[-1])))
        ic = getattr(fd, f"i{a}center")
        ok = isinstance(ic, (int, np.integer)) and 0 <= ic < len(arr)
        if ok:
            ok = abs(arr[ic]) == np.min(np.abs(arr))
            if len(arr) == n and loc_ok:
                # same statement on the exact grid (ties / near ties within
                # the location tolerance may resolve either way)
                ok = ok and abs(ex[ic]) <= np.min(np.abs(ex)) + 2 * tol.max()
        if not ok:
            note.fail("center-index", dict(axis=a, got=repr(ic)))
    if not consistent:
        # every derived array inherits the wrong axis length: same root cause
        note.cls("derived-skipped")
        return
    shape = tuple(ax["N"] for ax in case["axes"])
    for nm in ("x", "y", "z", "r", "theta", "phi"):
        if np.shape(getattr(fd, nm)) != shape:
            note.fail("shape:" + nm, dict(got=list(np.shape(getattr(fd, nm))),
                                          want=list(shape)))
            return
    for nm in ("cartesian_coords", "spherical_coords"):
        if np.shape(getattr(fd, nm)) != (3,) + shape:
            note.fail("shape:" + nm, dict(got=list(np.shape(getattr(fd, nm))),
                                          want=[3] + list(shape)))
            return
    I, J, L = np.indices(shape)
    for nm, idx, arr in (("x", I, fd.xarray), ("y", J, fd.yarray),
                         ("z", L, fd.zarray)):
        if not np.array_equal(getattr(fd, nm), arr[idx]):
            note.fail("meshgrid", dict(which=nm))
    for i, nm in enumerate("xyz"):
        if not np.array_equal(fd.cartesian_coords[i], getattr(fd, nm)):
            note.fail("cartesian_coords", dict(component=i))
    sc = fd.spherical_coords
    eq = lambda u, v: np.array_equal(u, v, equal_nan=True)  # noqa: E731
    if not (eq(sc[0], fd.r)
            and ((eq(sc[1], fd.theta) and eq(sc[2], fd.phi))
                 or (eq(sc[1], fd.phi) and eq(sc[2], fd.theta)))):
        note.fail("spherical_coords", dict(
            what="not a stack of r and the two angles"))
    # spherical coordinates of the exact grid points
    X, Y, Z = exact[0][I], exact[1][J], exact[2][L]
    X, Y, Z = _snap(X), _snap(Y), _snap(Z)
    if np.array_equal(X, fd.x) and np.array_equal(Y, fd.y) and \
            np.array_equal(Z, fd.z):
        note.cls("grid-bitexact")
    check_c2s(fd.x, fd.y, fd.z, fd.r, fd.theta, fd.phi, note,
              "grid-spherical")
    try:
        x2, y2, z2 = fd.spherical_to_cartesian(fd.r, fd.theta, fd.phi)
    except Exception as e:  # noqa: BLE001
        note.fail("grid-roundtrip:raises", dict(error=str(e)))
        return
    check_roundtrip(fd.x, fd.y, fd.z, x2, y2, z2, note, "grid-roundtrip")
    if ((X == 0) & (Y == 0)).any():
        note.cls("grid-has-axis-point")
    if ((X == 0) & (Y == 0) & (Z == 0)).any():
        note.cls("grid-has-origin")


def _snap(v):
    v = np.array(v, float)
    v[np.abs(v) < 1e-100] = 0.0
    return v


# ---------------------------------------------------------------------------
# sub-check: roundtrip

COORD = st.one_of(
    st.sampled_from([0.0, 0.0, 0.0, -0.0, 1.0, -1.0, 0.5, -0.3, 1e-3, 1e3,
                     -1e3, 1e-9, -2e-8, 0.1, 1 / 3, -0.7, 2.5e-5, 3e-14]),
    st.floats(-1e3, 1e3, allow_nan=False))
ANGLE_T = st.one_of(st.sampled_from([0.0, math.pi / 2, math.pi, math.pi / 4,
                                     1e-8, math.pi - 1e-8]),
                    st.floats(0, math.pi, allow_nan=False))
ANGLE_P = st.one_of(st.sampled_from([0.0, math.pi / 2, -math.pi / 2, math.pi,
                                     -math.pi, 1e-8, -1e-8, 3.0, -3.0]),
                    st.floats(-math.pi, math.pi, allow_nan=False))
RADIUS = st.one_of(st.sampled_from([0.0, 1.0, 0.1, 1e3, 1e-3, 0.9 * 0.35]),
                   st.floats(0, 1e3, allow_nan=False))


@st.composite
def roundtrip_case(draw):
    pts = draw(st.lists(st.tuples(COORD, COORD, COORD), min_size=1,
                        max_size=12))
    sph = draw(st.lists(st.tuples(RADIUS, ANGLE_T, ANGLE_P), min_size=1,
                        max_size=8))
    return dict(order=draw(st.sampled_from(ORDERS)),
                points=[list(p) for p in pts], sph=[list(s) for s in sph],
                as3d=draw(st.booleans()))


GENERIC_RT = [dict(order=4, as3d=True, points=[
    [0.0, 0.0, 0.0], [0.0, 0.0, 2.0], [0.0, 0.0, -0.5], [-1.5, 0.0, 0.3],
    [2.0, 0.0, 0.0], [0.0, 1.0, 0.0], [0.0, -1.0, 0.0], [0.3, -0.4, 1.2],
    [-0.3, 0.4, -1.2], [-0.7, -0.1, 0.2], [1e-9, 1.0, 1.0], [1.0, 1e-9, 3e-14],
    [-1.0, -2e-8, 0.0], [1000.1, -999.9, 0.05], [0.1, 0.1, 0.1],
    [1 / 3, -1 / 3, 1e-3]],
    sph=[[1.0, 0.7, 0.3], [2.0, 0.0, 1.0], [0.5, math.pi, -2.0],
         [0.315, math.pi / 2, math.pi], [3.0, 2.0, -math.pi / 2],
         [0.0, 1.0, 1.0], [10.0, 1.1, -3.0]])]

_FD = {}


def small_fd(order):
    """A dyadic 12^3 grid (exact for any construction); the conversion and
    trimming helpers do not depend on the grid."""
    if order not in _FD:
        prm = dict(Nx=12, Ny=12, Nz=12, xmin=-1.5, ymin=-1.5, zmin=-1.5,
                   dx=0.25, dy=0.25, dz=0.25)
        _FD[order] = aurel.FiniteDifference(prm, fd_order=order,
                                            verbose=False)
    return _FD[order]


def test_roundtrip(case, note):
    fd = small_fd(case["order"])
    P = _snap(np.array(case["points"], float).reshape(-1, 3))
    if case.get("as3d"):
        # pad to a 3-D block (the documented use: arrays of coordinates)
        n = len(P)
        P = np.concatenate([P, P[::-1]], axis=0).reshape(2, n, 1, 3)
    x, y, z = (np.ascontiguousarray(P[..., i]) for i in range(3))
    rho = np.hypot(x, y)
    special = ((rho == 0) | ((y == 0) & (x < 0)))
    generic = (rho > 0) & (y != 0) & (z != 0)
    note.nt(bool(special.any() and generic.any()))
    if ((rho == 0) & (z == 0)).any():
        note.cls("origin")
    if ((rho == 0) & (z != 0)).any():
        note.cls("z-axis")
    if ((y == 0) & (x < 0)).any():
        note.cls("neg-x-halfline")
    if (generic & (np.minimum(np.abs(y), rho) < 1e-6 * np.hypot(rho, z))).any():
        note.cls("near-axis")
    keep = (x.copy(), y.copy(), z.copy())
    try:
        with np.errstate(all="ignore"), warnings.catch_warnings():
            warnings.simplefilter("ignore")
            r, th, ph = fd.cartesian_to_spherical(x, y, z)
            x2, y2, z2 = fd.spherical_to_cartesian(r, th, ph)
    except Exception as e:  # noqa: BLE001
        note.fail("raises", dict(error=f"{type(e).__name__}: {e}"))
        return
    if not all(np.array_equal(a, b) for a, b in zip(keep, (x, y, z))):
        note.fail("input-modified", {})
    check_c2s(x, y, z, r, th, ph, note, "c2s")
    check_roundtrip(x, y, z, x2, y2, z2, note, "roundtrip")
    # spherical -> cartesian against the textbook formula (math module)
    S = np.array(case["sph"], float).reshape(-1, 3)
    rr, tt, pp = (np.ascontiguousarray(S[:, i]) for i in range(3))
    try:
        xs, ys, zs = fd.spherical_to_cartesian(rr, tt, pp)
    except Exception as e:  # noqa: BLE001
        note.fail("s2c:raises", dict(error=f"{type(e).__name__}: {e}"))
        return
    for i in range(len(S)):
        want = (rr[i] * math.sin(tt[i]) * math.cos(pp[i]),
                rr[i] * math.sin(tt[i]) * math.sin(pp[i]),
                rr[i] * math.cos(tt[i]))
        got = (xs[i], ys[i], zs[i])
        for nm, g, w in zip("xyz", got, want):
            if not abs(g - w) <= 4 * EPS * rr[i]:
                note.fail("s2c:" + nm, dict(r=rr[i], theta=tt[i], phi=pp[i],
                                            got=float(g), want=float(w)))
    # scalar radius with 2-D angle arrays, as Psi4_lm calls it
    T2, P2 = np.meshgrid(tt, pp, indexing="ij")
    try:
        xs, ys, zs = fd.spherical_to_cartesian(float(rr[0]), T2, P2)
        if not (np.shape(xs) == np.shape(ys) == np.shape(zs) == T2.shape):
            note.fail("s2c:scalar-radius-shape",
                      dict(got=list(np.shape(xs)), want=list(T2.shape)))
    except Exception as e:  # noqa: BLE001
        note.fail("s2c:raises", dict(error=f"{type(e).__name__}: {e}"))


# ---------------------------------------------------------------------------
# sub-check: trim


@st.composite
def trim_case(draw):
    p = draw(st.sampled_from(ORDERS))
    nd = draw(st.integers(1, 3))
    m = p // 2
    shape = [draw(st.sampled_from([0, 2 * m, 4 * m, 4 * m]))
             + draw(st.integers(1, 12)) for _ in range(nd)]
    return dict(order=p, shape=shape,
                dtype=draw(st.sampled_from(["float", "complex", "int"])))


GENERIC_TRIM = [dict(order=p, shape=s, dtype="float") for p in ORDERS
                for s in ([4 * p + 3], [4 * p + 1, 4 * p + 5],
                          [4 * p + 1, 4 * p + 2, 4 * p + 4], [2 * p],
                          [p + 1, 2 * p + 1, p])]


def encoded(shape, dtype="float"):
    idx = np.indices(shape)
    f = np.zeros(shape)
    for a in range(len(shape)):
        f = f + idx[a] * 1000.0 ** a
    f = f + 0.5
    if dtype == "complex":
        return f + 1j * (f + 1)
    if dtype == "int":
        return f.astype(np.int64)
    return f


def test_trim(case, note):
    p, shape = case["order"], list(case["shape"])
    fd = small_fd(p)
    m = p // 2
    note.nt(all(s > 4 * m for s in shape))
    note.cls(f"{len(shape)}D", f"p={p}")
    if fd.mask_len != m:
        note.fail("mask_len", dict(got=fd.mask_len, want=m))
    f = encoded(shape, case.get("dtype", "float"))
    keep = f.copy()
    for name, w in (("cutoffmask", m), ("cutoffmask2", 2 * m)):
        tag = f"{name}:{len(shape)}D"
        try:
            got = getattr(fd, name)(f)
        except Exception as e:  # noqa: BLE001
            note.fail(tag + ":raises", dict(error=f"{type(e).__name__}: {e}",
                                            shape=shape))
            continue
        want = keep[np.ix_(*[np.arange(w, max(w, s - w)) for s in shape])]
        if not isinstance(got, np.ndarray) or got.shape != want.shape:
            note.fail(tag + ":shape", dict(
                got=list(np.shape(got)) if got is not None else None,
                want=list(want.shape), per_side=w))
        elif not np.array_equal(got, want):
            note.fail(tag + ":values", dict(shape=shape, per_side=w))
        if not np.array_equal(f, keep):
            note.fail(tag + ":input-modified", {})
        if want.size == 0:
            note.cls("nothing-left")


# ---------------------------------------------------------------------------
# sub-check: excision


@st.composite
def excision_case(draw):
    p = draw(st.sampled_from(ORDERS))
    lo = min_n(p, "no boundary")
    shape = [draw(st.integers(lo, lo + 24)) for _ in range(3)]
    if draw(st.booleans()):
        # centre near the middle of the box (the usual use), window inside
        # the grid when the grid is large enough
        center = [min(n - 1, max(0, n // 2 + draw(st.integers(-2, 2))))
                  for n in shape]
    else:
        center = [draw(st.one_of(st.integers(0, n - 1),
                                 st.sampled_from([0, 1, n // 2, n - 1])))
                  for n in shape]
    return dict(order=p, shape=shape, center=center,
                find=draw(st.booleans()))


GENERIC_EXC = [
    dict(order=4, shape=[15, 17, 19], center=[7, 8, 9], find=True),
    dict(order=2, shape=[9, 11, 8], center=[4, 6, 3], find=False),
    dict(order=8, shape=[26, 24, 25], center=[12, 11, 13], find=True),
    dict(order=6, shape=[12, 20, 9], center=[10, 9, 4], find=False),
]


def excision_sets(shape, c, m):
    I, J, L = np.indices(shape)
    a = [np.abs(I - c[0]), np.abs(J - c[1]), np.abs(L - c[2])]
    w1, w2 = m + 1, 2 * m + 1          # windows written in the source
    g1, g2 = w1 + 2, w2 + 2            # generous bound used for 'outside'

    def on_line(k):  # on the grid line through the centre along axis k
        o = [q for q in range(3) if q != k]
        return (a[o[0]] == 0) & (a[o[1]] == 0)

    up1 = np.zeros(shape, bool)
    lo1 = np.zeros(shape, bool)
    for k in range(3):
        up1 |= on_line(k) & (a[k] <= g1)
        lo1 |= on_line(k) & (a[k] <= m)
    up2 = (a[0] <= g1) & (a[1] <= g1) & (a[2] <= g1)
    for k in range(3):
        o = [q for q in range(3) if q != k]
        up2 |= (a[k] <= g2) & (a[o[0]] <= g1) & (a[o[1]] <= g1)
    # twice-applied centred stencils: offsets (u e_i + v e_j), |u|,|v| <= m
    # (i != j) or u e_i with |u| <= 2m
    lo2 = np.zeros(shape, bool)
    for k in range(3):
        o = [q for q in range(3) if q != k]
        lo2 |= (a[k] == 0) & (a[o[0]] <= m) & (a[o[1]] <= m)
        lo2 |= on_line(k) & (a[k] <= 2 * m)
    return dict(excision=(lo1, up1, w1), excision2=(lo2, up2, w2))


def test_excision(case, note):
    p, shape, c = case["order"], list(case["shape"]), list(case["center"])
    m = p // 2
    note.nt(len(set(shape)) > 1)
    note.cls(f"p={p}", "find" if case["find"] else "explicit")
    # dyadic grid whose point closest to zero is index c (exact arithmetic)
    prm = {}
    for a, n, ci in zip("xyz", shape, c):
        prm["N" + a] = n
        prm["d" + a] = 0.5
        prm[a + "min"] = -0.5 * ci
    try:
        fd = aurel.FiniteDifference(prm, fd_order=p, verbose=False)
    except Exception as e:  # noqa: BLE001
        note.fail("init:raises", dict(error=str(e)))
        return
    if (fd.Nx, fd.Ny, fd.Nz) != tuple(shape) or fd.x.shape != tuple(shape):
        # even a dyadic grid (exact arithmetic) has the wrong size
        note.fail("grid-size", dict(want=shape, got=list(fd.x.shape)))
        return
    if [int(fd.ixcenter), int(fd.iycenter), int(fd.izcenter)] != c:
        note.fail("center-index", dict(
            got=[int(fd.ixcenter), int(fd.iycenter), int(fd.izcenter)],
            want=c))
    sets = excision_sets(shape, c, m)
    f = encoded(shape)
    keep = f.copy()
    for name in ("excision", "excision2"):
        lo, up, w = sets[name]
        if all(ci - w >= 0 and ci + w <= n - 1 for ci, n in zip(c, shape)):
            where = "interior"
        elif any(ci - w < 0 for ci in c):
            where = "low-wrap"
        else:
            where = "high-clipped"
        note.cls(f"{name}:{where}")
        try:
            if case["find"]:
                got = getattr(fd, name)(f)
            else:
                got = getattr(fd, name)(f, isingularity=tuple(c))
        except Exception as e:  # noqa: BLE001
            note.fail(name + ":raises", dict(error=f"{type(e).__name__}: {e}"))
            continue
        if not np.array_equal(f, keep) or np.shares_memory(got, f):
            note.fail(name + ":input-modified", {})
            f = keep.copy()
        if np.shape(got) != tuple(shape):
            note.fail(name + ":shape", dict(got=list(np.shape(got))))
            continue
        nan = np.isnan(got)
        if not np.array_equal(got[~nan], keep[~nan]):
            note.fail(name + ":value-changed", {})
        if (nan & ~up).any():
            i = np.argwhere(nan & ~up)[0].tolist()
            note.fail(name + ":outside-window", dict(cell=i, center=c,
                                                     mask_len=m))
        if (lo & ~nan).any():
            cells = np.argwhere(lo & ~nan)
            note.fail(name + ":not-excised", dict(
                center=c, shape=shape, mask_len=m, where=where,
                kept_contaminated_cells=int(len(cells)),
                expected_at_least=int(lo.sum()), nan_cells=int(nan.sum()),
                singular_cell_kept=bool(not nan[tuple(c)])))
        # (the exact window incl. the size of the safety buffer is an
        # implementation detail the property does not state: not asserted)


# ---------------------------------------------------------------------------
# sub-check: consumers

EST_NAMES = ['max', 'mean', 'quartile1', 'median', 'quartile3', 'min', 'sum',
             'std', 'var', 'maxabs', 'minabs', 'meanabs', 'quartile1abs',
             'medianabs', 'quartile3abs', 'sumabs', 'stdabs', 'varabs',
             'x0y0z0', 'x0y0z1', 'x0y1z0', 'x0y1z1', 'x1y0z0', 'x1y0z1',
             'x1y1z0', 'x1y1z1']

GENERIC_CONS = [dict(c, psi4=True, est=[0, 6, 13]) for c in (
    dict(order=4, boundary="no boundary",
         axes=[mkaxis(6, 0.1, 0.1), mkaxis(7, -0.9, 0.3),
               mkaxis(8, -1.0, 0.25)]),
    dict(order=2, boundary="no boundary",
         axes=[mkaxis(5, -1.0, 0.5), mkaxis(3, 0.1, 0.1),
               mkaxis(24, 0.1, 0.1)]),
    dict(order=4, boundary="no boundary",
         axes=[mkaxis(9, -1.2, 0.3), mkaxis(6, 1 / 3, 1 / 3),
               mkaxis(7, 1 / 3, 1 / 3)]),
)]


def _quiet():
    st_ = contextlib.ExitStack()
    st_.enter_context(warnings.catch_warnings())
    warnings.simplefilter("ignore")
    st_.enter_context(np.errstate(all="ignore"))
    st_.enter_context(contextlib.redirect_stdout(io.StringIO()))
    st_.enter_context(contextlib.redirect_stderr(io.StringIO()))
    return st_


def test_consumers(case, note):
    classify(case, note)
    fd = build_fd(case, note)
    if fd is None:
        return
    shape = tuple(ax["N"] for ax in case["axes"])
    consistent = (np.shape(fd.x) == shape
                  and (fd.Nx, fd.Ny, fd.Nz) == shape)
    lasts = [float(Fraction(ax["min"]) + (ax["N"] - 1) * Fraction(ax["d"]))
             for ax in case["axes"]]
    center = tuple(0.5 * (ax["min"] + last)
                   for ax, last in zip(case["axes"], lasts))
    out = {}          # consumer -> 'ok' | 'shape ...' | 'raises ...'
    rel = None
    with _quiet():
        try:
            rel = aurel.AurelCore(fd, verbose=False, lmax=2, center=center)
        except Exception as e:  # noqa: BLE001
            out["AurelCore"] = f"raises {type(e).__name__}: {e}"
    if rel is not None:
        if tuple(rel.data_shape) != shape:
            out["data_shape"] = f"shape {tuple(rel.data_shape)}"
        # extraction radius = 0.9 * distance from the centre to the nearest
        # face, faces being the first and last grid points
        scale = max(max(abs(ax["min"]), abs(last))
                    for ax, last in zip(case["axes"], lasts))
        # (on a consistent grid the faces are taken from the axis arrays:
        # their location is the business of the 'axes' sub-check)
        faces = [(ax["min"], float(getattr(fd, a + "array")[-1])
                  if consistent else last)
                 for a, ax, last in zip("xyz", case["axes"], lasts)]
        want_r = 0.9 * min(min(abs(f0 - ce), abs(f1 - ce))
                           for (f0, f1), ce in zip(faces, center))
        try:
            got_r = float(rel.extract_radii[0])
            if not abs(got_r - want_r) <= 16 * EPS * scale:
                out["extract_radii"] = f"value {got_r!r} want {want_r!r}"
        except Exception as e:  # noqa: BLE001
            out["extract_radii"] = f"raises {type(e).__name__}: {e}"

        def run(name, fn, want_shape):
            with _quiet():
                try:
                    v = fn()
                except Exception as e:  # noqa: BLE001
                    out[name] = f"raises {type(e).__name__}: {str(e)[:160]}"
                    return None
            if want_shape is not None and np.shape(v) != want_shape:
                out[name] = f"shape {np.shape(v)} want {want_shape}"
            return v

        run("null_ray_exp_out", lambda: rel["null_ray_exp_out"], shape)
        run("null_ray_exp_in", lambda: rel["null_ray_exp_in"], shape)
        tb = run("tetrad_base", rel.tetrad_base, None)
        if tb is not None:
            shp = [np.shape(e) for e in tb]
            if len(tb) != 4 or any(s != (4,) + shape for s in shp):
                out["tetrad_base"] = f"shape {shp}"
        if case.get("psi4"):
            note.cls("psi4")
            ps = run("Psi4_lm", lambda: rel["Psi4_lm"], None)
            if ps is not None:
                try:
                    keys = list(ps.keys())
                    lm = sorted(ps[keys[0]].keys())
                    vals = [complex(ps[keys[0]][k]) for k in lm]
                    ok = (len(keys) == 1
                          and abs(float(keys[0]) - want_r) <= 16 * EPS * scale
                          and lm == sorted((ll, mm) for ll in range(3)
                                           for mm in range(-ll, ll + 1))
                          and all(np.isfinite(v) for v in vals))
                except Exception as e:  # noqa: BLE001
                    ok = False
                    keys = repr(e)
                if not ok:
                    out["Psi4_lm"] = f"shape keys={keys!r}"

    # time.py: a volume-weighted estimate written for data-shaped arrays
    w = np.arange(1.0, 1.0 + np.prod(shape)).reshape(shape)

    def wsum(array):
        return np.sum(array * w)

    with _quiet():
        try:
            ok = aurel.time.validate_estimation_function(wsum, "wsum", fd,
                                                         verbose=False)
            if ok is not True:
                out["validate_estimation_function"] = f"returned {ok!r}"
        except Exception as e:  # noqa: BLE001
            out["validate_estimation_function"] = \
                f"raises {type(e).__name__}: {str(e)[:160]}"
    ests = ["x0y0z0", "x1y1z1"] + [EST_NAMES[i] for i in case["est"]
                                   if EST_NAMES[i] not in ("x0y0z0",
                                                           "x1y1z1")]
    data = {"it": [3, 1], "alpha": [np.full(shape, 1.0),
                                    np.full(shape, 1.5)]}
    res = None
    with _quiet():
        try:
            res = aurel.over_time(
                data, fd,
                vars=["null_ray_exp_out",
                      {"xcoord": lambda r: r.fd.x * r["alpha"]}],
                estimates=ests + [{"wsum": wsum}], verbose=False,
                center=center)
        except Exception as e:  # noqa: BLE001
            out["over_time"] = f"raises {type(e).__name__}: {str(e)[:160]}"
    if res is not None:
        prob = []
        for k in ("alpha", "null_ray_exp_out", "xcoord"):
            if k not in res:
                prob.append(f"missing {k}")
            elif np.shape(res[k]) != (2,) + shape:
                prob.append(f"{k} shape {np.shape(res[k])}")
            for e in ests + ["wsum"]:
                kk = f"{k}_{e}"
                if kk not in res:
                    prob.append(f"missing {kk}")
                elif np.shape(res[kk]) != (2,):
                    prob.append(f"{kk} shape {np.shape(res[kk])}")
        if not prob:
            # sorted by iteration: index 0 is it=1 (alpha = 1.5)
            if list(res["it"]) != [1, 3]:
                prob.append(f"it {list(res['it'])}")
            elif not (res["xcoord_x1y1z1"][1] == fd.xmax
                      and res["xcoord_x0y0z0"][1] == fd.xmin):
                prob.append("corner estimates of x are not fd.xmin/fd.xmax:"
                            f" {res['xcoord_x0y0z0'][1]!r}, "
                            f"{res['xcoord_x1y1z1'][1]!r}")
        if prob:
            out["over_time"] = "shape " + "; ".join(prob[:6])

    if not out:
        return
    if not consistent:
        # one root cause: the grid object disagrees with param['N*']
        note.fail("fd-vs-param-shape", dict(
            param_shape=list(shape), fd_x_shape=list(np.shape(fd.x)),
            fd_N=[int(fd.Nx), int(fd.Ny), int(fd.Nz)], consumers=out))
    else:
        for name, what in out.items():
            note.fail(f"{name}:{what.split(' ')[0]}", dict(detail=what))


# ---------------------------------------------------------------------------


def selftest():
    # exact axis: dyadic parameters are reproduced bit for bit
    ex = exact_axis(-1.5, 0.25, 9)
    if not np.array_equal(ex, -1.5 + 0.25 * np.arange(9)):
        raise HarnessError("exact_axis")
    # 0.1 + 2*0.1 is 0.30000000000000004 in floats; the exact rational is
    # closer to 0.30000000000000004 than to 0.3 as well (0.1 > 1/10)
    if abs(exact_axis(0.1, 0.1, 3)[2] - 0.3) > 2 * EPS:
        raise HarnessError("exact_axis rounding")
    if naive_count(0.1, 0.1, 6) == 6 or naive_count(-1.0, 0.25, 8) != 8:
        raise HarnessError("naive_count reference cases")

    # conversion oracle accepts an atan2 reference and rejects wrong ones
    class N:
        def __init__(self):
            self.f = []

        def fail(self, d, o=None):
            self.f.append(d)
    rng = np.random.default_rng(7)
    P = rng.uniform(-2, 2, (200, 3))
    P[:20, 0] = 0
    P[10:30, 1] = 0
    P[25:40, 2] = 0
    x, y, z = P.T
    r = np.sqrt(x * x + y * y + z * z)
    th = np.arctan2(np.hypot(x, y), z)
    ph = np.arctan2(y, x)
    n = N()
    check_c2s(x, y, z, r, th, ph, n, "t")
    check_roundtrip(x, y, z, r * np.sin(th) * np.cos(ph),
                    r * np.sin(th) * np.sin(ph), r * np.cos(th), n, "t")
    if n.f:
        raise HarnessError(f"conversion oracle rejects atan2 reference: {n.f}")
    for bad in ((r, th, -ph), (r, np.pi - th, ph), (r, ph, th),
                (r, th, ph + 1e-9)):
        n = N()
        check_c2s(x, y, z, *bad, n, "t")
        if not n.f:
            raise HarnessError("conversion oracle accepts a wrong convention")
    # excision reference sets: interior sizes
    s = excision_sets([21, 21, 21], [10, 10, 10], 2)
    lo1, up1, _ = s["excision"]
    lo2, up2, _ = s["excision2"]
    if lo1.sum() != 3 * 5 - 2 or up1.sum() != 3 * 11 - 2:
        raise HarnessError("excision set size")
    if up2.sum() != 11 ** 3 + 3 * 4 * 121 or not (lo2 <= up2).all() \
            or not (lo1 <= up1).all() or lo2.sum() != 3 * 25 - 3 * 5 + 1 + 12:
        raise HarnessError(f"excision2 set size {up2.sum()} {lo2.sum()}")


def subchecks(tier):
    q = tier == "quick"
    return [
        Sub("axes", grid_case(), test_axes, 2400 if q else 60000,
            generic=GENERIC_GRIDS, shards=8 if q else 16),
        Sub("roundtrip", roundtrip_case(), test_roundtrip,
            1200 if q else 15000, generic=GENERIC_RT, shards=4 if q else 16),
        Sub("trim", trim_case(), test_trim, 800 if q else 8000,
            generic=GENERIC_TRIM, shards=2 if q else 8),
        Sub("excision", excision_case(), test_excision,
            600 if q else 10000, generic=GENERIC_EXC, shards=2 if q else 8),
        Sub("consumers", grid_case(long_hi=28, short_extra=3, consumers=True),
            test_consumers, 320 if q else 4000, generic=GENERIC_CONS,
            shards=8 if q else 16, shrink_quick=True),
    ]
