"""C20 - spin-weighted harmonics are orthonormal and sphere extraction inverts
synthesis.  DESIGN.md section 4, C20.

Oracles (all independent of aurel's loop over r):
  * exact quadrature on the sphere: Gauss-Legendre in cos(theta) x uniform phi
    (exact for products of two band-limited harmonics of equal spin weight);
  * spin-weighted harmonics from Wigner d-functions written with Jacobi
    polynomials,  sYlm = (-1)^m (-1)^s sqrt((2l+1)/4pi) d^l_{m,-s}(theta)
    e^{i m phi}; the leading (-1)^m converts the usual (Condon-Shortley)
    convention into the one of Goldberg et al. 1967 Eq. 3.1, which the aurel
    docstring cites.  selftest() ties this oracle to a literal high-precision
    transcription of Eq. 3.1 (cot form, exact integer binomials, mpmath);
  * scipy.special.sph_harm_y at s = 0;
  * closed-form trilinear fields for numerical.interpolate;
  * the convergence rule (harness.aurelside.order_ok) for Psi4_lm.
"""
import math

import numpy as np
from hypothesis import strategies as st
from scipy import special as sp

import aurel
from aurel import maths, numerical
from harness import aurelside as A
from harness.common import HarnessError, Sub

PROPERTY = "C20"
RULE = (
    "orthonormal: Gram matrix of all sYlm(s,l,m), |s|<=l<=lmax<=8, on a drawn "
    "exact quadrature grid (Gauss-Legendre n>=lmax+1 x uniform phi "
    "n>=2lmax+1, drawn surplus and phi offset), every s in [-2,2] as fixed "
    "cases. values: every (s,l<=8) as fixed cases plus drawn (s,l,points incl. "
    "poles), all m, against the Wigner-d oracle, scipy at s=0, conjugation "
    "and parity; non-trivial = l>|s| (sum over r has >= 2 terms for some m). "
    "undefined: l<|s| or |m|>l must not raise / give NaN. roundtrip: drawn "
    "sparse or dense coefficient sets (arbitrary junk in the l<|s| slots); "
    "non-trivial = s!=0, >= 2 modes with different l, some m!=0; real-dtype "
    "real and imaginary parts decomposed separately must add up. interpolate:"
    " drawn 1-3D grids, fields, target shapes, methods; each axis/side probed"
    " outside by 1 ulp .. 10 box lengths; non-trivial = 3D non-cubic grid. "
    "psi4lm: drawn non-cubic dyadic grid, off-node centre, 1-3 radii (scalar/"
    "int/list/default), lmax, (l0,m0), complex amplitude, radial profile; "
    "three resolutions h, h/2, h/4 on the same box; non-trivial = m0!=0, "
    "complex amplitude, f'(R)!=0, non-cubic grid.")
ASSUMPTIONS = [
    "the documented convention is the literal Eq. 3.1 of Goldberg et al. "
    "1967, i.e. (-1)^m times the Condon-Shortley convention of scipy "
    "(selftest checks the oracle against a 40-digit transcription of Eq 3.1)",
    "round-off of aurel's alternating sum is bounded by 64 eps times the sum "
    "of the absolute values of its terms (measured: <= 7 eps up to l=16)",
    "for l<|s| or |m|>l only 'no exception, finite' is asserted directly; "
    "that these terms contribute nothing is asserted through the round trip",
    "Psi4_lm: second-order scheme (linear interpolation + midpoint rule, "
    "Ntheta tied to min(N)); the error sequence over three resolutions must "
    "contain a halving step of observed order >= 1.2 and shrink overall by "
    ">= 2^0.5, or end below the round-off floor. A single pair is not used: "
    "for smooth modes the leading error terms of the two sources can cancel "
    "at one resolution (measured on correct code: single-pair order down to -1.4, "
    "best-pair order >= 1.53 and overall reduction >= 2^1.56 in 2700 "
    "configurations)",
    "Psi4_lm radii are drawn >= 3 coarse spacings: below that the coarse "
    "level is not in the convergent regime (m0=+-2 modes are discontinuous "
    "on the polar axis, as the real Psi4 is)",
    "convergence is checked for 'linear' and 'slinear' only (spline methods "
    "cost 10-90 s per case); the other methods are covered at nodes by the "
    "interpolate sub-check",
    "node exactness of 'cubic'/'quintic' is limited by scipy's iterative "
    "spline solver (gcrotmk, rtol 1e-5): tolerance 1e-4 x max|field|; "
    "'linear', 'nearest', 'slinear': 16 eps; 'pchip': 1e-12",
]

EPS = np.finfo(float).eps


# ---------------------------------------------------------------------------
# oracle: Wigner-d via Jacobi polynomials


def wigner_d(j, mp, m, beta):
    """d^j_{mp,m}(beta), standard (Wikipedia/Sakurai) convention."""
    sign = 1.0
    if m - mp < 0:                      # d_{mp m} = (-1)^{m-mp} d_{m mp}
        sign = (-1.0) ** (m - mp)
        mp, m = m, mp
    if m + mp < 0:                      # d_{mp m} = d_{-m,-mp}
        mp, m = -m, -mp
    a, b, k = m - mp, m + mp, j - m
    pref = math.sqrt(math.factorial(j + m) * math.factorial(j - m)
                     / (math.factorial(j + mp) * math.factorial(j - mp)))
    beta = np.asarray(beta, dtype=float)
    return (sign * pref * np.sin(beta / 2) ** a * np.cos(beta / 2) ** b
            * sp.eval_jacobi(k, a, b, np.cos(beta)))


def ref_sYlm(s, l, m, theta, phi):
    """Goldberg-convention spin-weighted harmonic (oracle)."""
    if l < abs(s) or abs(m) > l:
        raise HarnessError(f"oracle undefined for s={s} l={l} m={m}")
    return ((-1.0) ** (m + s) * math.sqrt((2 * l + 1) / (4 * math.pi))
            * wigner_d(l, m, -s, theta) * np.exp(1j * m * np.asarray(phi)))


def term_abs_sum(s, l, m, theta):
    """Sum of |terms| of Eq. 3.1 (conditioning of the alternating sum)."""
    theta = np.asarray(theta, dtype=float)
    fac = math.sqrt(math.factorial(l + m) * math.factorial(l - m)
                    * (2 * l + 1) / (math.factorial(l + s)
                                     * math.factorial(l - s) * 4 * math.pi))
    c, sn = np.abs(np.cos(theta / 2)), np.abs(np.sin(theta / 2))
    tot = np.zeros_like(theta)
    for r in range(0, l - s + 1):
        k = r + s - m
        if k < 0 or k > l + s:
            continue
        tot = tot + (math.comb(l - s, r) * math.comb(l + s, k)
                     * c ** (2 * r + s - m) * sn ** (2 * l - 2 * r - s + m))
    return fac * tot


def value_tol(s, l, m, theta):
    return 64 * EPS * term_abs_sum(s, l, m, theta) + 5e-14


def goldberg_mp(s, l, m, th, ph):
    """Literal Eq. 3.1 of Goldberg et al. 1967 at 40 digits (selftest)."""
    import mpmath as mp
    with mp.workdps(40):
        th, ph = mp.mpf(th), mp.mpf(ph)
        f = mp.factorial
        fac = mp.sqrt(f(l + m) * f(l - m) * (2 * l + 1)
                      / (f(l + s) * f(l - s) * 4 * mp.pi))
        cot = mp.cot(th / 2)
        tot = mp.mpf(0)
        for r in range(0, l - s + 1):
            k = r + s - m
            if k < 0 or k > l + s:
                continue
            tot += (math.comb(l - s, r) * math.comb(l + s, k)
                    * (-1) ** (l - r - s) * cot ** (2 * r + s - m))
        return complex(fac * mp.sin(th / 2) ** (2 * l) * tot
                       * mp.exp(1j * m * ph))


def selftest():
    pts = [(0.3, 0.5), (1.2, -2.0), (2.9, 4.0), (1.5707, 1.0)]
    for s in range(-2, 3):
        for l in range(abs(s), 9):
            for m in range(-l, l + 1):
                for th, ph in pts[:2] if l > 5 else pts:
                    g = goldberg_mp(s, l, m, th, ph)
                    r = complex(ref_sYlm(s, l, m, np.array(th),
                                         np.array(ph)))
                    if abs(g - r) > 5e-14:
                        raise HarnessError(
                            f"oracle != Goldberg 3.1 at s={s} l={l} m={m}: "
                            f"{abs(g - r):.2e}")
    th = np.array([0.0, 0.4, 1.3, 2.2, math.pi])
    ph = np.array([0.1, -1.0, 2.0, 5.0, 0.7])
    for l in range(0, 9):
        for m in range(-l, l + 1):
            d = np.max(np.abs(ref_sYlm(0, l, m, th, ph)
                              - (-1) ** m * sp.sph_harm_y(l, m, th, ph)))
            if d > 5e-14:
                raise HarnessError(f"oracle s=0 != (-1)^m scipy l={l} m={m}")
    # a few closed forms (Goldberg convention = (-1)^m x standard tables)
    t, p = 0.9, 0.4
    want = {(-2, 2, 2): math.sqrt(5 / (64 * math.pi))
            * (1 + math.cos(t)) ** 2 * np.exp(2j * p),
            (-2, 2, 1): -math.sqrt(5 / (16 * math.pi)) * math.sin(t)
            * (1 + math.cos(t)) * np.exp(1j * p),
            (-2, 2, 0): math.sqrt(15 / (32 * math.pi)) * math.sin(t) ** 2,
            (1, 1, 0): math.sqrt(3 / (8 * math.pi)) * math.sin(t)}
    for (s, l, m), w in want.items():
        if abs(complex(ref_sYlm(s, l, m, np.array(t), np.array(p))) - w) \
                > 1e-14:
            raise HarnessError(f"oracle closed form s={s} l={l} m={m}")
    x, w = np.polynomial.legendre.leggauss(5)
    for k in range(10):
        ex = 0.0 if k % 2 else 2.0 / (k + 1)
        if abs(np.sum(w * x ** k) - ex) > 1e-14:
            raise HarnessError("Gauss-Legendre rule not exact")


def sphere_grid(nth, nph, phi0):
    """Gauss-Legendre in cos(theta) x uniform phi; returns 2-D theta, phi,
    weights for d(cos theta) (no sin factor) and dphi."""
    x, w = np.polynomial.legendre.leggauss(nth)
    theta = np.arccos(x)
    phi = phi0 + 2 * np.pi * np.arange(nph) / nph
    TH, PH = np.meshgrid(theta, phi, indexing="ij")
    W = w[:, None] * np.ones_like(PH)
    return TH, PH, W, 2 * np.pi / nph


def lm_list(s, lmax):
    return [(l, m) for l in range(abs(s), lmax + 1) for m in range(-l, l + 1)]


# ---------------------------------------------------------------------------
# 1. orthonormality


def test_orthonormal(case, note):
    s, lmax = case["s"], case["lmax"]
    nth, nph = lmax + 1 + case["dth"], 2 * lmax + 1 + case["dph"]
    TH, PH, W, dphi = sphere_grid(nth, nph, case["phi0"])
    note.nt()
    note.cls(f"s={s}", f"lmax={lmax}",
             "minimal-grid" if case["dth"] == 0 and case["dph"] == 0
             else "surplus-grid")
    modes = lm_list(s, lmax)
    rows = []
    for l, m in modes:
        try:
            y = np.asarray(maths.sYlm(s, l, m, TH, PH))
        except Exception as e:  # noqa: BLE001
            note.fail(f"raises:sYlm:{type(e).__name__}",
                      dict(s=s, l=l, m=m, error=str(e)))
            return
        if y.shape != TH.shape:
            note.fail("shape:sYlm", dict(s=s, l=l, m=m, got=list(y.shape),
                                         want=list(TH.shape)))
            return
        rows.append(y.ravel())
    Y = np.array(rows)
    G = (Y.conj() * (W.ravel() * dphi)) @ Y.T
    E = np.abs(G - np.eye(len(modes)))
    tol = 1e-12
    dg = np.diag(E)
    if np.max(dg) > tol or not np.all(np.isfinite(dg)):
        i = int(np.argmax(dg))
        note.fail(f"orthonormal:norm:s={s}",
                  dict(lm=list(modes[i]), norm2=float(np.real(G[i, i])),
                       grid=[nth, nph]))
    Eo = E - np.diag(dg)
    if np.max(Eo) > tol or not np.all(np.isfinite(Eo)):
        i, j = np.unravel_index(int(np.argmax(Eo)), Eo.shape)
        note.fail(f"orthonormal:cross:s={s}",
                  dict(lm1=list(modes[i]), lm2=list(modes[j]),
                       inner=[float(G[i, j].real), float(G[i, j].imag)],
                       grid=[nth, nph]))


@st.composite
def ortho_case(draw):
    return dict(s=draw(st.integers(-2, 2)), lmax=draw(st.integers(2, 8)),
                dth=draw(st.integers(0, 5)), dph=draw(st.integers(0, 7)),
                phi0=draw(st.floats(-3.2, 3.2, allow_nan=False)))


def ortho_generic():
    g = []
    for s in range(-2, 3):
        g.append(dict(s=s, lmax=8, dth=0, dph=0, phi0=0.0))
        g.append(dict(s=s, lmax=8, dth=3, dph=4, phi0=0.37))
    # a non-default lmax (factorials beyond 20!)
    for s in (-2, 0, 1):
        g.append(dict(s=s, lmax=13, dth=1, dph=2, phi0=-0.21))
    return g


# ---------------------------------------------------------------------------
# 2. values, phase convention, symmetries


def _call_sYlm(note, s, l, m, th, ph, what):
    try:
        y = maths.sYlm(s, l, m, th, ph)
    except Exception as e:  # noqa: BLE001
        note.fail(f"raises:{what}:{type(e).__name__}",
                  dict(s=s, l=l, m=m, error=str(e)))
        return None
    return np.asarray(y)


def _mismatch(got, want, tol):
    d = np.abs(got - want)
    bad = ~(d <= tol)
    if not np.any(bad):
        return None
    i = int(np.argmax(np.where(np.isfinite(d), d / tol, np.inf)))
    return i


def test_values(case, note):
    s, l = case["s"], case["l"]
    pts = np.array(case["pts"], dtype=float)
    th, ph = pts[:, 0].copy(), pts[:, 1].copy()
    note.nt(l > abs(s))
    note.cls(f"s={s}", f"l={l}")
    if np.any((th == 0.0) | (th == math.pi)):
        note.cls("pole")
    for m in range(-l, l + 1):
        tol = value_tol(s, l, m, th)
        got = _call_sYlm(note, s, l, m, th, ph, "sYlm")
        if got is None:
            return
        if got.shape != th.shape:
            note.fail("shape:sYlm", dict(s=s, l=l, m=m, got=list(got.shape)))
            return
        want = ref_sYlm(s, l, m, th, ph)
        i = _mismatch(got, want, tol)
        if i is not None:
            # pure phase (unimodular factor) or a different magnitude?
            mag_ok = abs(abs(got[i]) - abs(want[i])) <= tol[i]
            kind = "phase" if mag_ok and np.isfinite(got[i]) else "value"
            note.fail(f"{kind}:s={s}",
                      dict(l=l, m=m, theta=float(th[i]), phi=float(ph[i]),
                           got=[float(got[i].real), float(got[i].imag)],
                           want=[float(want[i].real), float(want[i].imag)]))
        if s == 0:
            wsc = (-1) ** m * sp.sph_harm_y(l, m, th, ph)
            i = _mismatch(got, wsc, tol)
            if i is not None:
                mag_ok = abs(abs(got[i]) - abs(wsc[i])) <= tol[i]
                note.fail("phase:s0" if mag_ok else "value:s0",
                          dict(l=l, m=m, theta=float(th[i]),
                               phi=float(ph[i]),
                               got=[float(got[i].real), float(got[i].imag)],
                               scipy_times_m1m=[float(wsc[i].real),
                                                float(wsc[i].imag)]))
        # conjugation: conj(sYlm) = (-1)^(s+m) (-s)Y(l,-m)
        other = _call_sYlm(note, -s, l, -m, th, ph, "sYlm")
        if other is not None:
            i = _mismatch(np.conj(got), (-1.0) ** (s + m) * other, 2 * tol)
            if i is not None:
                note.fail("symmetry:conjugation",
                          dict(s=s, l=l, m=m, theta=float(th[i]),
                               phi=float(ph[i])))
        # parity: sYlm(pi-theta, phi+pi) = (-1)^l (-s)Ylm(theta, phi)
        anti = _call_sYlm(note, s, l, m, math.pi - th, ph + math.pi, "sYlm")
        oth2 = _call_sYlm(note, -s, l, m, th, ph, "sYlm")
        if anti is not None and oth2 is not None:
            # pi - theta and phi + pi are rounded: allow the derivative times
            # one ulp of pi (|dY| <= (l+1) |Y|max)
            slack = 8 * EPS * (l + 1 + abs(m)) * math.sqrt(
                (2 * l + 1) / (4 * math.pi)) * 4
            i = _mismatch(anti, (-1.0) ** l * oth2, 2 * tol + slack)
            if i is not None:
                note.fail("symmetry:parity",
                          dict(s=s, l=l, m=m, theta=float(th[i]),
                               phi=float(ph[i])))


angle_theta = st.one_of(
    st.floats(0.0, math.pi, allow_nan=False),
    st.sampled_from([0.0, math.pi, math.pi / 2, 1e-8, math.pi - 1e-8]))
angle_phi = st.floats(-2 * math.pi, 4 * math.pi, allow_nan=False)


@st.composite
def values_case(draw, lhi):
    s = draw(st.integers(-2, 2))
    l = draw(st.integers(abs(s), lhi))
    pts = draw(st.lists(st.tuples(angle_theta, angle_phi), min_size=1,
                        max_size=6))
    return dict(s=s, l=l, pts=[list(p) for p in pts])


def values_generic():
    pts = [[0.0, 0.3], [math.pi, -1.1], [0.37, 0.0], [1.1, 2.5],
           [math.pi / 2, -0.6], [2.6, 5.9], [3.0, 7.7]]
    return [dict(s=s, l=l, pts=pts) for s in range(-2, 3)
            for l in range(abs(s), 9)] + \
        [dict(s=s, l=l, pts=pts) for s in (-2, 0, 2) for l in (10, 11, 12,
                                                               14, 16)]


# ---------------------------------------------------------------------------
# 2b. l < |s| or |m| > l : no exception, no NaN


def test_undefined(case, note):
    s, l, m = case["s"], case["l"], case["m"]
    pts = np.array(case["pts"], dtype=float)
    th, ph = pts[:, 0].copy(), pts[:, 1].copy()
    note.nt(True)
    note.cls("l<|s|" if l < abs(s) else "|m|>l")
    y = _call_sYlm(note, s, l, m, th, ph, "undefined-mode")
    if y is not None and not np.all(np.isfinite(y)):
        note.fail("undefined-mode:nonfinite", dict(s=s, l=l, m=m))
    # the decomposition loops el from 0 whatever s is: must not raise / NaN
    if l < abs(s):
        TH, PH, W, dphi = sphere_grid(4, 7, 0.2)
        f = ref_sYlm(s, abs(s), 0, TH, PH)
        try:
            c = maths.sYlm_coefficients(s, abs(s), f, TH, PH, W, dphi)
        except Exception as e:  # noqa: BLE001
            note.fail(f"raises:coefficients-low-l:{type(e).__name__}",
                      dict(s=s, error=str(e)))
            return
        bad = [list(k) for k, v in c.items() if not np.isfinite(v)]
        if bad:
            note.fail("undefined-mode:coefficient-nonfinite",
                      dict(s=s, keys=bad))


@st.composite
def undefined_case(draw):
    s = draw(st.integers(-2, 2))
    if s != 0 and draw(st.booleans()):
        l = draw(st.integers(0, abs(s) - 1))
        m = draw(st.integers(-l - 1, l + 1))
    else:
        l = draw(st.integers(abs(s), 8))
        k = draw(st.integers(1, 3))
        m = draw(st.sampled_from([l + k, -l - k]))
    pts = draw(st.lists(st.tuples(angle_theta, angle_phi), min_size=1,
                        max_size=4))
    return dict(s=s, l=l, m=m, pts=[list(p) for p in pts])


def undefined_generic():
    pts = [[0.0, 0.3], [math.pi, -1.1], [0.37, 0.0], [1.1, 2.5]]
    g = []
    for s in (-2, -1, 1, 2):
        for l in range(0, abs(s)):
            for m in range(-l - 1, l + 2):
                g.append(dict(s=s, l=l, m=m, pts=pts))
    for s in range(-2, 3):
        for l in (abs(s), abs(s) + 1, 5):
            for m in (l + 1, -l - 1, l + 3):
                g.append(dict(s=s, l=l, m=m, pts=pts))
    return g


# ---------------------------------------------------------------------------
# 3. decomposition <-> synthesis


def coeff_set(case):
    """alm dictionary (every 0<=l<=lmax, |m|<=l; l<|s| slots hold junk)."""
    s, lmax = case["s"], case["lmax"]
    alm = {}
    jr, ji = case["junk"]
    for l in range(lmax + 1):
        for m in range(-l, l + 1):
            alm[l, m] = complex(jr, ji) if l < abs(s) else 0j
    if case["dense_seed"] is not None:
        rng = np.random.RandomState(case["dense_seed"])
        for l, m in lm_list(s, lmax):
            alm[l, m] = complex(rng.uniform(-1, 1), rng.uniform(-1, 1))
    for l, m, re, im in case["modes"]:
        alm[l, m] = complex(re, im)
    # overall amplitude: both maps are linear, so the round trip must hold at
    # every amplitude (the tolerance below scales with it)
    amp = 10.0 ** case.get("amp_exp", 0)
    if amp != 1.0:
        alm = {k: v * amp for k, v in alm.items()}
    return alm


def test_roundtrip(case, note):
    s, lmax = case["s"], case["lmax"]
    nth, nph = lmax + 1 + case["dth"], 2 * lmax + 1 + case["dph"]
    TH, PH, W, dphi = sphere_grid(nth, nph, case["phi0"])
    alm = coeff_set(case)
    valid = lm_list(s, lmax)
    nz = [k for k in valid if alm[k] != 0]
    note.nt(s != 0 and len({l for l, _ in nz}) >= 2
            and any(m != 0 for _, m in nz))
    note.cls(f"s={s}", f"lmax={lmax}",
             "dense" if case["dense_seed"] is not None else "sparse")
    if s != 0 and (case["junk"][0] or case["junk"][1]):
        note.cls("junk-in-low-l")
    scale = sum(abs(alm[k]) for k in valid) \
        + 10.0 ** case.get("amp_exp", 0)
    tol = 1e-12 * scale
    if case.get("amp_exp", 0):
        note.cls("amplitude=1e%d" % case["amp_exp"])
    f_ref = np.zeros(TH.shape, dtype=complex)
    for k in nz:
        f_ref += alm[k] * ref_sYlm(s, k[0], k[1], TH, PH)

    def recon(a, what):
        try:
            f = maths.sYlm_reconstruct(s, lmax, a, TH, PH)
        except Exception as e:  # noqa: BLE001
            note.fail(f"raises:{what}:{type(e).__name__}", dict(error=str(e)))
            return None
        f = np.asarray(f)
        if f.shape != TH.shape:
            note.fail(f"shape:{what}", dict(got=list(f.shape)))
            return None
        return f

    def coefs(f, what):
        try:
            c = maths.sYlm_coefficients(s, lmax, f, TH, PH, W, dphi)
        except Exception as e:  # noqa: BLE001
            note.fail(f"raises:{what}:{type(e).__name__}", dict(error=str(e)))
            return None
        want_keys = {(l, m) for l in range(lmax + 1)
                     for m in range(-l, l + 1)}
        try:
            keys = set(c.keys())
        except Exception:  # noqa: BLE001
            keys = None
        if keys != want_keys:
            note.fail("coefficients:keys",
                      dict(missing=sorted(want_keys - (keys or set()))[:5],
                           extra=[repr(k) for k in sorted(
                               (keys or set()) - want_keys, key=repr)[:5]]))
            return None
        return c

    def cmp_coef(c, disc):
        worst, wk = 0.0, None
        for k in valid:
            d = abs(complex(c[k]) - alm[k])
            if not d <= worst:
                worst, wk = d, k
        if not worst <= tol:
            note.fail(disc, dict(lm=list(wk), got=[complex(c[wk]).real,
                                                   complex(c[wk]).imag],
                                 want=[alm[wk].real, alm[wk].imag],
                                 s=s, lmax=lmax))

    def cmp_field(f, disc):
        d = np.abs(f - f_ref)
        if not np.all(d <= tol):
            note.fail(disc, dict(maxdiff=float(np.nanmax(d)), s=s,
                                 lmax=lmax, scale=float(scale)))

    # synthesis against the oracle field
    f_a = recon(alm, "reconstruct")
    if f_a is not None:
        cmp_field(f_a, "reconstruct:value")
    # analysis of the oracle field
    c_a = coefs(f_ref, "coefficients")
    if c_a is not None:
        cmp_coef(c_a, "coefficients:value")
    # real-dtype fields (what a user holding Re and Im parts separately
    # passes): the decomposition is linear, so the coefficients of the real
    # part plus i times those of the imaginary part are those of the field
    c_re = coefs(np.ascontiguousarray(f_ref.real), "coefficients-real-dtype")
    c_im = coefs(np.ascontiguousarray(f_ref.imag), "coefficients-real-dtype")
    if c_re is not None and c_im is not None:
        note.cls("real-dtype-field")
        cmp_coef({k: complex(c_re[k]) + 1j * complex(c_im[k])
                  for k in valid}, "coefficients:real-dtype-parts")
    # coefficients o reconstruct = id (on the defined modes)
    if f_a is not None:
        c2 = coefs(f_a, "coefficients")
        if c2 is not None:
            cmp_coef(c2, "roundtrip:coef-of-recon")
    # reconstruct o coefficients = id on band-limited fields (the l<|s|
    # entries produced by the decomposition must not corrupt the field)
    if c_a is not None:
        f2 = recon(c_a, "reconstruct-of-coefficients")
        if f2 is not None:
            cmp_field(f2, "roundtrip:recon-of-coef")


coef_f = st.floats(-2, 2, allow_nan=False, width=32)


@st.composite
def roundtrip_case(draw):
    s = draw(st.integers(-2, 2))
    lmax = draw(st.integers(max(abs(s), 1), 8))
    n = draw(st.integers(1, 5))
    modes = []
    for _ in range(n):
        l = draw(st.integers(abs(s), lmax))
        m = draw(st.integers(-l, l))
        modes.append([l, m, draw(coef_f), draw(coef_f)])
    dense = draw(st.one_of(st.none(), st.integers(0, 2**31 - 1)))
    return dict(s=s, lmax=lmax, modes=modes, dense_seed=dense,
                junk=[draw(coef_f), draw(coef_f)],
                dth=draw(st.integers(0, 4)), dph=draw(st.integers(0, 6)),
                phi0=draw(st.floats(-3.2, 3.2, allow_nan=False)),
                amp_exp=draw(st.sampled_from([0, 0, 0, -8, -16, -30, -100,
                                              8, 40])))


def roundtrip_generic():
    g = []
    for s in range(-2, 3):
        g.append(dict(s=s, lmax=6, modes=[[max(abs(s), 2), 1, 0.7, -0.4],
                                          [4, -3, -0.3, 0.9],
                                          [6, 6, 0.5, 0.25]],
                      dense_seed=None, junk=[1.5, -0.5], dth=0, dph=0,
                      phi0=0.0))
        g.append(dict(s=s, lmax=8, modes=[[8, -7, 1.0, 1.0]],
                      dense_seed=12345 + s, junk=[-1.0, 2.0], dth=2, dph=3,
                      phi0=0.41, amp_exp=[0, -16, -30, 8, -100][s + 2]))
    return g


# ---------------------------------------------------------------------------
# 4. numerical.interpolate

METHOD_MIN = {"linear": 2, "nearest": 2, "slinear": 2, "cubic": 4,
              "pchip": 4, "quintic": 6}


def multilinear(coef, X):
    """sum over subsets of axes of coef[mask] * prod x_i (i in mask)."""
    dim = len(X)
    out = np.zeros(np.broadcast(*X).shape)
    for mask in range(2 ** dim):
        term = coef[mask] * np.ones_like(out)
        for a in range(dim):
            if mask >> a & 1:
                term = term * X[a]
        out = out + term
    return out


def multilinear_mag(coef, lim):
    dim = len(lim)
    tot = 0.0
    for mask in range(2 ** dim):
        t = abs(coef[mask])
        for a in range(dim):
            if mask >> a & 1:
                t *= lim[a]
        tot += t
    return tot


def _interp(note, val, grid, tgt, method, disc):
    try:
        return np.asarray(numerical.interpolate(val, grid, tgt, method))
    except Exception as e:  # noqa: BLE001
        note.fail(f"{disc}:{type(e).__name__}", dict(method=method,
                                                      error=str(e)[:200]))
        return None


def test_interpolate(case, note):
    dim = case["dim"]
    N, x0, h = case["N"][:dim], case["x0"][:dim], case["h"][:dim]
    method = case["method"]
    grid = tuple(x0[a] + h[a] * np.arange(N[a]) for a in range(dim))
    lo = [g[0] for g in grid]
    hi = [g[-1] for g in grid]
    L = [hi[a] - lo[a] for a in range(dim)]
    coef = case["coef"][:2 ** dim]
    X = np.meshgrid(*grid, indexing="ij")
    lin = multilinear(coef, X)
    lim = [max(abs(lo[a]), abs(hi[a])) for a in range(dim)]
    mag = multilinear_mag(coef, lim) + 1e-300
    # a non-multilinear field for the node test
    wob = case["wobble"] * np.ones_like(lin)
    for a in range(dim):
        wob = wob * np.sin(1.3 * X[a] + 0.7 * a)
    note.nt(dim == 3 and len(set(N)) == 3)
    note.cls(f"dim={dim}", method)
    rng = np.random.RandomState(case["seed"])
    shape = tuple(case["shape"])
    npts = int(np.prod(shape)) if shape else 1
    note.cls(f"target-ndim={len(shape)}")

    # (a) exact at nodes, any method; target shape preserved
    idx = [rng.randint(0, N[a], size=npts) for a in range(dim)]
    for a in range(dim):          # make sure both end nodes occur
        idx[a][rng.randint(npts)] = 0
        idx[a][rng.randint(npts)] = N[a] - 1
    tgt = tuple(grid[a][idx[a]].reshape(shape) for a in range(dim))
    val = lin + wob
    got = _interp(note, val, grid, tgt, method, "interpolate:node-raises")
    if got is not None:
        if got.shape != shape:
            note.fail("interpolate:shape", dict(got=list(got.shape),
                                                want=list(shape),
                                                method=method))
        else:
            want = val[tuple(idx)].reshape(shape)
            vmag = float(np.max(np.abs(val))) + 1e-300
            # cubic/quintic: scipy solves for the tensor-product spline
            # coefficients iteratively (gcrotmk, default rtol 1e-5), so the
            # interpolant reproduces the nodes only to that tolerance
            ntol = (16 * EPS if method in ("linear", "nearest", "slinear")
                    else 1e-12 if method == "pchip" else 1e-4) * vmag
            if method in ("slinear", "cubic", "quintic"):
                # ... and with an absolute tolerance (scipy's make_ndbspl
                # sets atol=1e-6 on the residual norm): a field whose norm
                # is below it is "solved" by the zero initial guess
                ntol += 1e-5
            d = np.abs(got - want)
            if not np.all(d <= ntol):
                note.fail(f"interpolate:node:{method}",
                          dict(maxdiff=float(np.nanmax(d)), scale=vmag,
                               N=N))

    # (b) multilinear fields are reproduced by 'linear' anywhere inside,
    #     including targets on the boundary (faces, corners)
    u = [rng.uniform(0, 1, size=npts) for _ in range(dim)]
    for a in range(dim):
        for e in case["explicit_u"]:
            u[a][rng.randint(npts)] = e[a]
    tg = [np.clip(lo[a] + u[a] * L[a], lo[a], hi[a]) for a in range(dim)]
    on_edge = 0
    for a in range(dim):
        for side, v in ((0, lo[a]), (1, hi[a])):
            if case["edge"][a][side]:
                tg[a][rng.randint(npts)] = v
                on_edge += 1
    if case["corner"]:
        j = rng.randint(npts)
        for a in range(dim):
            tg[a][j] = hi[a] if case["corner"] >> a & 1 else lo[a]
        on_edge += 1
    if on_edge:
        note.cls("boundary-target")
    tgt = tuple(t.reshape(shape) for t in tg)
    got = _interp(note, lin, grid, tgt, "linear",
                  "interpolate:boundary-refused" if on_edge
                  else "interpolate:inside-raises")
    if got is not None:
        if got.shape != shape:
            note.fail("interpolate:shape", dict(got=list(got.shape),
                                                want=list(shape),
                                                method="linear"))
        else:
            want = multilinear(coef, tgt)
            d = np.abs(got - want)
            # weights are (x-x_i)/h: relative error ~ eps*|x|/h per axis
            amp = 1.0 + sum(lim[a] / h[a] for a in range(dim))
            if not np.all(d <= 32 * EPS * mag * amp):
                note.fail("interpolate:multilinear",
                          dict(maxdiff=float(np.nanmax(d)), scale=mag,
                               N=N, dim=dim))

    # (c) refuses any target outside the grid: each axis, each side
    for a in range(dim):
        for side in (0, 1):
            for kind in case["margins"]:
                edge = hi[a] if side else lo[a]
                sgn = 1.0 if side else -1.0
                if kind == "ulp":
                    bad = np.nextafter(edge, sgn * np.inf)
                elif kind == "tiny":
                    bad = edge + sgn * 1e-9 * max(L[a], abs(edge), 1e-300)
                elif kind == "half":
                    bad = edge + sgn * 0.5 * h[a]
                else:
                    bad = edge + sgn * 10 * (L[a] + h[a])
                if not (bad > hi[a] or bad < lo[a]):
                    raise HarnessError("outside target is not outside")
                t2 = [t.copy() for t in tg]
                t2[a][rng.randint(npts)] = bad
                t2 = tuple(t.reshape(shape) for t in t2)
                try:
                    r = numerical.interpolate(lin, grid, t2, method)
                except ValueError:
                    continue
                except Exception as e:  # noqa: BLE001
                    note.fail("interpolate:outside-wrong-exception",
                              dict(axis=a, side=side, margin=kind,
                                   error=f"{type(e).__name__}: {e}"[:200]))
                    continue
                note.fail("interpolate:outside-not-refused",
                          dict(axis=a, side=side, margin=kind,
                               target=float(bad), grid=[float(lo[a]),
                                                        float(hi[a])],
                               returned=repr(np.asarray(r).ravel()[:3])))


@st.composite
def interp_case(draw, tier):
    dim = draw(st.sampled_from([3, 3, 3, 2, 1]))
    methods = ["linear"] * 4 + ["nearest", "slinear", "cubic", "pchip"]
    if tier != "quick":
        methods.append("quintic")
    method = draw(st.sampled_from(methods))
    nlo = METHOD_MIN[method]
    N = [draw(st.integers(nlo, nlo + 5)) for _ in range(3)]
    x0 = [draw(st.floats(-5, 5, allow_nan=False)) for _ in range(3)]
    h = [draw(st.floats(0.05, 2.0, allow_nan=False)) for _ in range(3)]
    coef = [draw(st.floats(-2, 2, allow_nan=False)) for _ in range(8)]
    shape = draw(st.sampled_from([[], [1], [5], [2, 3], [3, 1, 2],
                                  [2, 2, 2, 2], [7]]))
    u01 = st.floats(0, 1, allow_nan=False)
    return dict(
        dim=dim, N=N, x0=x0, h=h, coef=coef, method=method, shape=shape,
        wobble=draw(st.floats(-1, 1, allow_nan=False)),
        seed=draw(st.integers(0, 2**31 - 1)),
        explicit_u=[[draw(u01) for _ in range(3)]
                    for _ in range(draw(st.integers(0, 2)))],
        edge=[[draw(st.booleans()), draw(st.booleans())] for _ in range(3)],
        corner=draw(st.integers(0, 7)),
        margins=draw(st.lists(st.sampled_from(["ulp", "tiny", "half", "far"]),
                              min_size=1, max_size=4, unique=True)))


def interp_generic():
    base = dict(dim=3, N=[5, 7, 6], x0=[-1.25, 0.3, -4.0], h=[0.5, 0.21, 0.9],
                coef=[0.7, -1.1, 0.4, 0.9, 1.3, -0.6, 0.8, -1.7],
                method="linear", shape=[3, 4], wobble=0.6, seed=7,
                explicit_u=[[0.5, 0.25, 0.999]], edge=[[True, True]] * 3,
                corner=5, margins=["ulp", "tiny", "half", "far"])
    g = [base]
    for meth in ("nearest", "slinear", "cubic", "pchip"):
        g.append(dict(base, method=meth, N=[6, 7, 8], shape=[5]))
    g.append(dict(base, dim=2, shape=[]))
    g.append(dict(base, dim=1, shape=[2, 2, 2, 2]))
    return g


# ---------------------------------------------------------------------------
# 5. Psi4_lm on an injected pure harmonic


def profile(p, r):
    kind = p["kind"]
    a, b, c = p["a"], p["b"], p["c"]
    if kind == "poly":
        return a + b * r + c * r * r
    if kind == "cos":
        return a * np.cos(b * r + c)
    if kind == "inv":
        return a / (abs(b) + 0.5 + r)
    raise HarnessError(kind)


def dprofile(p, r, d=1e-6):
    return (profile(p, r + d) - profile(p, r - d)) / (2 * d)


def psi4_levels(case):
    N1, h1 = case["N"], case["h"]
    for lev in range(3):
        f = 2 ** lev
        yield lev, [(n - 1) * f + 1 for n in N1], [x / f for x in h1]


def psi4_geometry(case):
    N1, h1, x0 = case["N"], case["h"], case["x0"]
    L = [(n - 1) * x for n, x in zip(N1, h1)]
    centre = [o + fr * l for o, fr, l in zip(x0, case["cfrac"], L)]
    rmax = min(min(c - o, o + l - c) for c, o, l in zip(centre, x0, L))
    lo = 3.0 * max(h1)
    if rmax < lo:
        raise HarnessError("psi4lm generator: box too small for 3 spacings")
    radii = [lo + v * (rmax - lo) for v in case["rfrac"]]
    form = case["radii_form"]
    if form == "int":
        k = int(math.floor(rmax))
        if k >= lo and k >= 1:
            radii = [k]
        else:
            form = "scalar"
    if form == "scalar":
        radii = radii[:1]
    if form == "default":
        radii = None
    return centre, rmax, radii, form


def test_psi4lm(case, note):
    l0, m0, lmax = case["l0"], case["m0"], case["lmax"]
    amp = complex(*case["amp"])
    prof = case["prof"]
    method = case["method"]
    centre, rmax, radii, form = psi4_geometry(case)
    note.cls(f"radii={form}", f"l0={l0}", f"lmax={lmax}", method,
             "axis-discontinuous" if abs(m0) == 2 else "axis-continuous",
             prof["kind"])
    errs, parts = [], []
    keys_checked = False
    for lev, N, h in psi4_levels(case):
        fd = A.make_fd(N, case["x0"], h, 4, "no boundary")
        X, Y, Z = fd.x - centre[0], fd.y - centre[1], fd.z - centre[2]
        r = np.sqrt(X * X + Y * Y + Z * Z)
        th = np.arccos(np.clip(np.divide(Z, r, out=np.ones_like(r),
                                         where=r > 0), -1.0, 1.0))
        ph = np.arctan2(Y, X)
        field = amp * profile(prof, r) * ref_sYlm(-2, l0, m0, th, ph)
        kw = dict(lmax=lmax, center=tuple(centre), interp_method=method)
        if form == "default":
            pass
        elif form in ("scalar", "int"):
            kw["extract_radii"] = radii[0]
        else:
            kw["extract_radii"] = list(radii)
        rel = aurel.AurelCore(fd, verbose=False, **kw)
        psi4r = np.ascontiguousarray(field.real)
        psi4i = np.ascontiguousarray(field.imag)
        rel.data["Weyl_Psi4r"] = psi4r.copy()
        rel.data["Weyl_Psi4i"] = psi4i.copy()
        rel.freeze_data()
        if lev == 0:
            try:
                wp = rel["Weyl_Psi"]
                ok = (len(wp) == 5 and np.array_equal(np.real(wp[4]), psi4r)
                      and np.array_equal(np.imag(wp[4]), psi4i))
            except Exception as e:  # noqa: BLE001
                note.fail(f"raises:Weyl_Psi:{type(e).__name__}",
                          dict(error=str(e)[:200]))
                return
            if not ok:
                note.fail("weylpsi:injected-not-returned", dict(N=N))
        try:
            out = rel["Psi4_lm"]
        except Exception as e:  # noqa: BLE001
            note.fail(f"raises:Psi4_lm:{type(e).__name__}",
                      dict(error=str(e)[:300], radii=radii, rmax=rmax,
                           centre=centre, N=N))
            return
        # keys of the result are the radii
        try:
            got_keys = sorted(float(k) for k in out.keys())
        except Exception:  # noqa: BLE001
            got_keys = None
        if form == "default":
            want_r = [0.9 * rmax]
            same = (got_keys is not None and len(got_keys) == 1
                    and abs(got_keys[0] - want_r[0]) <= 1e-12 * rmax)
            use = list(out.keys()) if same else []
        else:
            want_r = sorted(float(x) for x in radii)
            same = got_keys == sorted(set(want_r))
            use = radii if same else []
        if not same:
            note.fail("psi4lm:keys", dict(got=got_keys, want=want_r,
                                          form=form))
            return
        keys_checked = True
        e_amp, e_leak, sc = 0.0, 0.0, 0.0
        want_modes = {(l, m) for l in range(lmax + 1)
                      for m in range(-l, l + 1)}
        for R in use:
            try:
                modes = out[R]
                have = set(modes.keys())
            except Exception as e:  # noqa: BLE001
                note.fail("psi4lm:lookup", dict(error=str(e)[:200]))
                return
            if have != want_modes:
                note.fail("psi4lm:mode-keys",
                          dict(missing=sorted(want_modes - have)[:5]))
                return
            fR = amp * profile(prof, float(R))
            sc = max(sc, abs(fR))
            for k in want_modes:
                v = complex(modes[k])
                if k == (l0, m0):
                    d = abs(v - fR)
                    e_amp = d if not d <= e_amp else e_amp
                else:
                    d = abs(v)
                    e_leak = d if not d <= e_leak else e_leak
        errs.append(max(e_amp, e_leak) if np.isfinite(e_amp + e_leak)
                    else float("inf"))
        parts.append((e_amp, e_leak))
    if not keys_checked:
        return
    Rs = [float(x) for x in (radii if radii is not None else [0.9 * rmax])]
    note.nt(m0 != 0 and amp.imag != 0 and amp.real != 0
            and len(set(case["N"])) == 3
            and any(abs(dprofile(prof, R)) > 1e-3 for R in Rs))
    fscale = abs(amp) * max(abs(profile(prof, np.linspace(0, rmax, 64))))
    floor = 1e-10 * (fscale + 1e-300)
    ok01, q01 = A.order_ok(errs[0], errs[1], 2.0, floor, slack=0.8)
    ok12, q12 = A.order_ok(errs[1], errs[2], 2.0, floor, slack=0.8)
    if errs[2] <= floor:
        return
    finite = all(np.isfinite(e) for e in errs)
    overall = (finite and errs[0] > 0
               and math.log2(errs[0] / errs[2]) >= 0.5)
    if not (finite and (ok01 or ok12) and overall):
        which = "amplitude" if parts[2][0] >= parts[2][1] else "leakage"
        note.fail(f"psi4lm:{which}",
                  dict(errors=errs, amplitude_errors=[p[0] for p in parts],
                       leakage_errors=[p[1] for p in parts],
                       orders=[q01, q12], l0=l0, m0=m0, lmax=lmax,
                       radii=Rs, centre=centre, scale=fscale,
                       N=case["N"], h=case["h"]))


dy = A.dyadic_strategies()


@st.composite
def psi4_case(draw, tier):
    q = tier == "quick"
    N = [draw(st.integers(13, 18 if q else 20)) for _ in range(3)]
    h = [draw(dy(0.15, 0.25)) for _ in range(3)]
    # box roughly centred on a drawn dyadic offset
    x0 = [-(n - 1) * x / 2 + draw(dy(-0.5, 0.5, 64)) for n, x in zip(N, h)]
    cfrac = [draw(st.floats(0.42, 0.58, allow_nan=False)) for _ in range(3)]
    lmax = draw(st.integers(2, 4 if q else 6))
    l0 = draw(st.integers(2, lmax))
    m0 = draw(st.integers(-l0, l0))
    mod = draw(st.floats(0.5, 2.0, allow_nan=False))
    arg = draw(st.floats(-3.1, 3.1, allow_nan=False))
    kind = draw(st.sampled_from(["poly", "cos", "inv"]))
    if kind == "poly":
        p = dict(a=draw(st.floats(0.5, 1.5)), b=draw(st.floats(-0.4, 0.4)),
                 c=draw(st.floats(-0.2, 0.2)))
    elif kind == "cos":
        p = dict(a=draw(st.floats(0.5, 1.5)), b=draw(st.floats(0.3, 1.5)),
                 c=draw(st.floats(-3.0, 3.0)))
    else:
        p = dict(a=draw(st.floats(0.5, 2.0)), b=draw(st.floats(0.0, 1.0)),
                 c=0.0)
    p["kind"] = kind
    form = draw(st.sampled_from(["list", "list", "list", "scalar", "int",
                                 "default"]))
    nr = draw(st.integers(1, 3))
    rfrac = [draw(st.floats(0.0, 1.0, allow_nan=False)) for _ in range(nr)]
    rfrac = list(dict.fromkeys(rfrac))
    return dict(N=N, h=h, x0=x0, cfrac=cfrac, lmax=lmax, l0=l0, m0=m0,
                amp=[mod * math.cos(arg), mod * math.sin(arg)], prof=p,
                radii_form=form, rfrac=rfrac,
                method=draw(st.sampled_from(["linear"] * 5 + ["slinear"])))


def psi4_generic():
    base = dict(N=[14, 16, 15], h=[0.1875, 0.15625, 0.203125],
                x0=[-1.25, -1.109375, -1.5], cfrac=[0.47, 0.55, 0.52],
                lmax=3, amp=[0.8, -1.1],
                prof=dict(kind="poly", a=1.0, b=0.3, c=-0.15),
                radii_form="list", rfrac=[0.35, 0.9], method="linear")
    g = []
    for l0, m0 in ((2, 1), (2, 0), (2, 2), (2, -2), (3, -1), (3, 3)):
        g.append(dict(base, l0=l0, m0=m0))
    g.append(dict(base, l0=2, m0=-1, radii_form="scalar",
                  prof=dict(kind="cos", a=1.2, b=0.9, c=0.4)))
    g.append(dict(base, l0=3, m0=1, radii_form="default", lmax=4,
                  prof=dict(kind="inv", a=1.5, b=0.2, c=0.0)))
    g.append(dict(base, l0=2, m0=1, radii_form="int", N=[16, 18, 17],
                  x0=[-1.5, -1.25, -1.75]))
    g.append(dict(base, l0=4, m0=-3, lmax=4, rfrac=[0.0, 0.5, 1.0]))
    return g


# ---------------------------------------------------------------------------


# 7. azimuthal selection rule of Psi4_lm on any grid shape: a trilinear Psi4
#    is interpolated exactly by the default 'linear' method and contains the
#    orders |m| <= 2 only (x +- i y ~ e^{+-i phi}, x y ~ e^{+-2 i phi}, z ~ 1),
#    and the phi sampling of Psi4_lm resolves every |m - m'| <= 2 lmax exactly,
#    so every coefficient with |m| > 2 vanishes to round-off - also on slabs
#    with fewer points than lmax in one direction.


@st.composite
def selection_case(draw):
    N = [draw(st.integers(4, 14)) for _ in range(3)]
    h = [draw(st.sampled_from([0.25, 0.5, 0.125])) for _ in range(3)]
    return dict(N=N, h=h, lmax=draw(st.integers(3, 10)),
                coef=[draw(st.floats(-2, 2, allow_nan=False, width=32))
                      for _ in range(8)],
                off=[draw(st.floats(-0.25, 0.25, allow_nan=False, width=32))
                     for _ in range(3)],
                rfrac=draw(st.floats(0.25, 0.9375, allow_nan=False, width=32)))


def test_selection(case, note):
    N, h = case["N"], case["h"]
    x0 = [-(n - 1) * d / 2 for n, d in zip(N, h)]
    fd = A.make_fd(N, x0, h, 2, "no boundary")
    cen = [o * d for o, d in zip(case["off"], h)]
    rmin = min(min(abs(x0[i] - cen[i]), abs(x0[i] + (N[i] - 1) * h[i]
                                             - cen[i])) for i in range(3))
    R = float(case["rfrac"]) * rmin
    if R <= 0:
        return
    c = case["coef"]
    X, Y, Z = fd.x - cen[0], fd.y - cen[1], fd.z - cen[2]
    re = c[0] * X + c[1] * Y + c[2] * X * Y + c[3] * Z
    im = c[4] * Y + c[5] * X + c[6] * Z + c[7] * X * Y
    lmax = int(case["lmax"])
    note.nt(min(N) < lmax + 1)
    note.cls("slab(minN<=lmax)" if min(N) <= lmax else "minN>lmax",
             f"lmax={lmax}")
    rel = aurel.AurelCore(fd, verbose=False, lmax=lmax, center=tuple(cen),
                          extract_radii=[R])
    rel.data["Weyl_Psi4r"] = re
    rel.data["Weyl_Psi4i"] = im
    try:
        out = rel["Psi4_lm"]
    except Exception as e:  # noqa: BLE001
        note.fail(f"raises:Psi4_lm:{type(e).__name__}", dict(error=str(e)))
        return
    a = out[R] if R in out else list(out.values())[0]
    amp = (sum(abs(v) for v in c) + 1e-30) * max(R, R * R)
    worst, wk = 0.0, None
    for (l, m), v in a.items():
        if abs(m) > 2 and abs(v) > worst:
            worst, wk = abs(v), (l, m)
    if worst > 1e-10 * amp:
        note.fail("psi4lm:forbidden-order-leakage",
                  dict(lm=list(wk), value=worst, amplitude=amp, N=N,
                       lmax=lmax))


def subchecks(tier):
    q = tier == "quick"
    return [
        Sub("psi4lm_selection", selection_case(), test_selection,
            150 if q else 3000,
            generic=[dict(N=[16, 16, 4], h=[0.25, 0.25, 0.25], lmax=8,
                          coef=[1.0, 0.5, -0.7, 0.3, 1.0, -0.4, 0.6, 0.8],
                          off=[0.1, -0.15, 0.05], rfrac=0.9),
                     dict(N=[4, 4, 4], h=[0.5, 0.5, 0.5], lmax=8,
                          coef=[1.0, 0.5, -0.7, 0.3, 1.0, -0.4, 0.6, 0.8],
                          off=[0.0, 0.0, 0.0], rfrac=0.8),
                     dict(N=[12, 6, 12], h=[0.25, 0.5, 0.25], lmax=10,
                          coef=[0.3, 1.5, 0.7, -0.3, -1.0, 0.4, 0.6, -0.8],
                          off=[-0.1, 0.1, 0.12], rfrac=0.7)],
            shards=4),
        Sub("orthonormal", ortho_case(), test_orthonormal,
            80 if q else 1500, generic=ortho_generic(), shards=4),
        Sub("values", values_case(8 if q else 12), test_values,
            400 if q else 6000, generic=values_generic(), shards=4),
        Sub("undefined", undefined_case(), test_undefined,
            100 if q else 1500, generic=undefined_generic(), shards=2),
        Sub("roundtrip", roundtrip_case(), test_roundtrip,
            160 if q else 2500, generic=roundtrip_generic(), shards=4),
        Sub("interpolate", interp_case(tier), test_interpolate,
            320 if q else 5000, generic=interp_generic(), shards=4),
        Sub("psi4lm", psi4_case(tier), test_psi4lm,
            120 if q else 1600, generic=psi4_generic(),
            shards=8 if q else 16, shrink_quick=False),
    ]
