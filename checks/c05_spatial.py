"""C05 - spatial curvature, covariant / divergence / curl / Lie derivatives.
DESIGN.md section 4, C05."""
import numpy as np
from hypothesis import strategies as st

from harness import aurelside as A
from harness import cases, fields, ref4d
from harness import selftest as _st
from harness.common import Sub

PROPERTY = "C05"
RULE = ("Hypothesis draws an exact curved spatial metric + shift (families W "
        "periodic/non-periodic, KS, F, PP), grid, fd_order, boundary and smooth "
        "test fields (scalar, vectors, rank-2 tensors of every index "
        "pattern, 4-vectors) with analytic derivatives; aurel runs at two "
        "resolutions and every helper/key must converge at order >= p-1.5 to "
        "the exact value built from exact Christoffels (or reach the "
        "round-off floor); metamorphic identities must converge to 0. "
        "Non-trivial = non-diagonal curved gamma, >= 2 non-zero shift "
        "components.")
ASSUMPTIONS = [
    "convergent regime (k*h <= ~0.6 coarse); no-boundary errors measured "
    "after trimming 3*mask_len coarse points per side",
    "s_div of rank-2 'uu'/'dd' is asserted on symmetric tensors only (the "
    "docstring does not say which index is contracted)",
    "s_curl is the covariant curl eps_{cd(a} D^c T_{b)}^d with "
    "eps_ijk = sqrt(gamma)[ijk] (what 'curl along n' of a symmetric "
    "tensor means in the 1+3 literature aurel follows)",
    "st_covd labels: 'u' = upper-index vector, 'd' = lower-index vector, as "
    "its docstring states",
]


def selftest():
    _st.run()


@st.composite
def curv_case(draw):
    c = draw(cases.spacetime_case(
        kinds=("Wp", "Wp", "Wp", "Wn", "KS", "F"), orders_p=(2, 4, 4, 6, 8),
        orders_n=(2, 4)))
    c["form"] = draw(st.sampled_from(["components", "tensors"]))
    c["matter"] = "none"
    return c


def _conv(note, margins, key, a1, a2, r1, r2, tr1, tr2, p, scale, nd, h2):
    scale = max(scale, 1e-2)  # degenerate (flat/constant) data: round-off
    floor = 1e-9 * scale * max(1.0, (0.1 / h2) ** nd)
    e1, e2 = A.err(a1, r1, tr1), A.err(a2, r2, tr2)
    ok, q = A.order_ok(e1, e2, p, floor)
    if np.isfinite(q):
        margins.append(q - (p - max(1.5, 0.3 * p)))
    if not ok:
        note.fail(key, dict(e1=e1, e2=e2, q=q, scale=scale, floor=floor))


def _margin_cls(note, margins):
    if margins:
        mm = min(margins)
        note.cls("qmargin<0.3" if mm < 0.3 else "qmargin<0.75" if mm < 0.75
                 else "qmargin>=0.75")


def _nt(note, ex, case):
    fl = cases.nontrivial_flags(ex)
    curved = float(np.max(np.abs(ex["s_R"]))) > 1e-6
    note.nt(fl["offdiag_gamma"] and fl["nshift"] >= 2 and curved)
    note.cls(case["spec"]["family"], case["boundary"], f"p={case['order']}",
             f"mask={case.get('mask')}", f"nshift={fl['nshift']}")


def test_curv(case, note):
    su = A.Setup(case)
    p = su.order
    res = []
    for lvl in (0, 1):
        out = {}
        rel, ex, fd, trim = su.build(lvl)
        # instance A: Riemann first -> Ricci by contraction of Riemann
        for k in ("s_Gamma_udd3", "s_Riemann_uddd3", "s_Riemann_down3",
                  "s_Ricci_down3", "s_RicciS", "s_Gamma_udd3_bssnok",
                  "s_Gamma_bssnok", "s_Ricci_down3_bssnok",
                  "s_Ricci_down3_phi", "s_RicciS_bssnok", "phi_bssnok",
                  "gammadown3_bssnok"):
            out[k] = rel[k]
        # instance B: Ricci first -> direct branch
        relB, _, _, _ = su.build(lvl)
        out["s_Ricci_down3:direct"] = relB["s_Ricci_down3"]
        out["s_RicciS:direct"] = relB["s_RicciS"]
        res.append((out, ex, ref4d.bssn_exact(ex), fd, trim))
    (o1, ex1, b1, fd1, tr1), (o2, ex2, b2, fd2, tr2) = res
    _nt(note, ex1, case)
    h2 = min(fd2.dx, fd2.dy, fd2.dz)
    S1 = float(np.max(np.abs(ex2["dg"][1:, 1:, 1:]))) + 1e-30
    S2 = S1 ** 2 + float(np.max(np.abs(ex2["ddg"][1:, 1:, 1:, 1:]))) + 1e-30
    mg = []

    def cv(key, r1, r2, scale, nd, okey=None):
        _conv(note, mg, key, o1[okey or key], o2[okey or key], r1, r2, tr1,
              tr2, p, scale, nd, h2)
    cv("s_Gamma_udd3", ex1["G3"], ex2["G3"], S1, 1)
    cv("s_Riemann_uddd3", ex1["s_Ruddd"], ex2["s_Ruddd"], S2, 2)
    cv("s_Riemann_down3", ex1["s_R"], ex2["s_R"], S2, 2)
    cv("s_Ricci_down3:fromRiemann", ex1["s_Ric"], ex2["s_Ric"], S2, 2,
       "s_Ricci_down3")
    cv("s_Ricci_down3:direct", ex1["s_Ric"], ex2["s_Ric"], S2, 2)
    cv("s_RicciS:fromRiemann", ex1["s_RS"], ex2["s_RS"], S2, 2, "s_RicciS")
    cv("s_RicciS:direct", ex1["s_RS"], ex2["s_RS"], S2, 2)
    for k, sc, nd in (("s_Gamma_udd3_bssnok", S1, 1),
                      ("s_Gamma_bssnok", S1, 1),
                      ("s_Ricci_down3_bssnok", S2, 2),
                      ("s_Ricci_down3_phi", S2, 2),
                      ("s_RicciS_bssnok", S2, 2)):
        cv(k, b1[k], b2[k], sc, nd)
    # split adds up to the full Ricci tensor
    _conv(note, mg, "bssnok-split-sum",
          o1["s_Ricci_down3_bssnok"] + o1["s_Ricci_down3_phi"],
          o2["s_Ricci_down3_bssnok"] + o2["s_Ricci_down3_phi"],
          ex1["s_Ric"], ex2["s_Ric"], tr1, tr2, p, S2, 2, h2)
    # algebraic (round-off) conformal keys
    for (o, bb) in ((o1, b1), (o2, b2)):
        for k, ref in (("phi_bssnok", bb["phi"]),
                       ("gammadown3_bssnok", bb["gammadown3_bssnok"])):
            e = A.err(o[k], ref)
            if not e <= 1e-11:
                note.fail(f"{k}:value", dict(err=e))
    _margin_cls(note, mg)


# ---------------------------------------------------------------- helpers
FIELD_SHAPES = dict(phi=(), Vu=(3,), Wd=(3,), Tuu=(3, 3), Tdd=(3, 3),
                    Tud=(3, 3), Tdu=(3, 3), V4u=(4,), W4d=(4,))


@st.composite
def helper_case(draw):
    c = draw(cases.spacetime_case(
        kinds=("Wp", "Wp", "Wp", "Wn", "KS", "PP", "Wt0"), orders_p=(2, 4, 4, 6, 8),
        orders_n=(2, 4)))
    c["form"] = draw(st.sampled_from(["components", "tensors"]))
    c["matter"] = "none"
    per = c["L"] if c["boundary"] == "periodic" else None
    fs = {}
    for nm, shp in FIELD_SHAPES.items():
        fs[nm] = draw(fields.strategy(shp, symmetric=nm in ("Tuu", "Tdd"),
                                      periodic_L=per, kmax=1.2))
    c["fields"] = fs
    c["weight"] = draw(st.sampled_from([1.0, -2 / 3, 2 / 3, 1 / 6, 0.5]))
    return c


def _fields_on(case, fd, t):
    out = {}
    for nm, spec in case["fields"].items():
        out[nm] = fields.evaluate(spec, t, fd.x, fd.y, fd.z)
    return out


def exact_helpers(ex, F, w):
    """Exact values of every helper output (textbook formulas)."""
    G = ex["G3"]
    G4 = ex["Gu"]
    gu = ex["gammaup"]
    gd = ex["gamma"]
    b = ex["betaup"]
    db = ex["dbetaup"]          # [k,i] = d_k beta^i
    dtb = ex["dtbetaup"]
    divb = np.einsum('kk...->...', db)
    R = {}
    f, df = F["phi"]
    R["s_covd:"] = df[1:]
    V, dV = F["Vu"]
    dV = dV[1:]
    R["s_covd:u"] = dV + np.einsum('acb...,b...->ca...', G, V)
    W, dW = F["Wd"]
    dW = dW[1:]
    R["s_covd:d"] = dW - np.einsum('bca...,b...->ca...', G, W)
    T, dT = F["Tuu"]
    dT = dT[1:]
    R["s_covd:uu"] = (dT + np.einsum('acd...,db...->cab...', G, T)
                      + np.einsum('bcd...,ad...->cab...', G, T))
    Tuu, Duu = T, R["s_covd:uu"]
    T, dT = F["Tdd"]
    dT = dT[1:]
    R["s_covd:dd"] = (dT - np.einsum('dca...,db...->cab...', G, T)
                      - np.einsum('dcb...,ad...->cab...', G, T))
    Tdd, Ddd = T, R["s_covd:dd"]
    T, dT = F["Tud"]
    dT = dT[1:]
    R["s_covd:ud"] = (dT + np.einsum('acd...,db...->cab...', G, T)
                      - np.einsum('dcb...,ad...->cab...', G, T))
    Tud = T
    T, dT = F["Tdu"]
    dT = dT[1:]
    R["s_covd:du"] = (dT - np.einsum('dca...,db...->cab...', G, T)
                      + np.einsum('bcd...,ad...->cab...', G, T))
    Tdu = T
    R["s_div:u"] = np.einsum('aa...->...', R["s_covd:u"])
    R["s_div:d"] = np.einsum('ca...,ca...->...', gu, R["s_covd:d"])
    R["s_div:uu"] = np.einsum('aab...->b...', Duu)
    R["s_div:ud"] = np.einsum('aab...->b...', R["s_covd:ud"])
    R["s_div:du"] = np.einsum('aba...->b...', R["s_covd:du"])
    R["s_div:dd"] = np.einsum('ca...,cab...->b...', gu, Ddd)
    # curl: eps_{cd(a} D^c T_{b)}^d
    eps = ref4d.levi_civita_symbol(3).reshape((3, 3, 3) + (1,) * (gd.ndim - 2)) \
        * np.sqrt(ex["gammadet"])
    eps_uud = np.einsum('ce...,df...,efa...->cda...', gu, gu, eps)
    cur = np.einsum('cda...,cbd...->ab...', eps_uud, Ddd)
    R["s_curl:dd"] = 0.5 * (cur + np.einsum('ab...->ba...', cur))
    # Lie derivatives along beta
    f, df = F["phi"]
    R["Lie:"] = np.einsum('k...,k...->...', b, df[1:])
    R["Lie:+w"] = R["Lie:"] + w * divb * f
    V, dV = F["Vu"]
    R["Lie:s_u"] = (np.einsum('k...,ki...->i...', b, dV[1:])
                    - np.einsum('k...,ki...->i...', V, db))
    R["Lie:s_u+w"] = R["Lie:s_u"] + w * divb * V
    W, dW = F["Wd"]
    R["Lie:s_d"] = (np.einsum('k...,ki...->i...', b, dW[1:])
                    + np.einsum('k...,ik...->i...', W, db))
    V4, dV4 = F["V4u"]
    L = np.einsum('k...,km...->m...', b, dV4[1:])
    L[1:] -= dtb * V4[0] + np.einsum('k...,ki...->i...', V4[1:], db)
    R["Lie:st_u"] = L
    W4, dW4 = F["W4d"]
    L = np.einsum('k...,km...->m...', b, dW4[1:])
    L[0] += np.einsum('j...,j...->...', W4[1:], dtb)
    L[1:] += np.einsum('k...,ik...->i...', W4[1:], db)
    R["Lie:st_d"] = L

    def lie2(T, dT, up1, up2):
        out = np.einsum('k...,kij...->ij...', b, dT[1:])
        if up1:
            out = out - np.einsum('kj...,ki...->ij...', T, db)
        else:
            out = out + np.einsum('kj...,ik...->ij...', T, db)
        if up2:
            out = out - np.einsum('ik...,kj...->ij...', T, db)
        else:
            out = out + np.einsum('ik...,jk...->ij...', T, db)
        return out
    R["Lie:s_uu"] = lie2(*F["Tuu"], True, True)
    R["Lie:s_dd"] = lie2(*F["Tdd"], False, False)
    R["Lie:s_dd+w"] = R["Lie:s_dd"] + w * divb * F["Tdd"][0]
    R["Lie:s_ud"] = lie2(*F["Tud"], True, False)
    R["Lie:s_du"] = lie2(*F["Tdu"], False, True)
    # spacetime covariant derivative of vectors, [mu, nu]
    R["st_covd:u"] = dV4 + np.einsum('nml...,l...->mn...', G4, V4)
    R["st_covd:d"] = dW4 - np.einsum('lmn...,l...->mn...', G4, W4)
    f, df = F["phi"]
    R["st_covd:"] = df
    return R


def aurel_helpers(rel, F, w, note):
    O = {}

    def call(key, fn):
        try:
            O[key] = fn()
        except Exception as e:  # noqa: BLE001
            note.fail(f"{key}:raises", dict(error=f"{type(e).__name__}: {e}"))
    f, df = F["phi"]
    call("s_covd:", lambda: rel.s_covd(f, ''))
    for ix, nm in (("u", "Vu"), ("d", "Wd"), ("uu", "Tuu"), ("dd", "Tdd"),
                   ("ud", "Tud"), ("du", "Tdu")):
        call(f"s_covd:{ix}", lambda ix=ix, nm=nm: rel.s_covd(F[nm][0], ix))
        call(f"s_div:{ix}", lambda ix=ix, nm=nm: rel.s_div(F[nm][0], ix))
    call("s_curl:dd", lambda: rel.s_curl(F["Tdd"][0], 'dd'))
    call("Lie:", lambda: rel.Lie_beta(f.copy(), ''))
    call("Lie:+w", lambda: rel.Lie_beta(f.copy(), '', weight=w))
    for ix, nm in (("s_u", "Vu"), ("s_d", "Wd"), ("st_u", "V4u"),
                   ("st_d", "W4d"), ("s_uu", "Tuu"), ("s_dd", "Tdd"),
                   ("s_ud", "Tud"), ("s_du", "Tdu")):
        call(f"Lie:{ix}", lambda ix=ix, nm=nm: rel.Lie_beta(F[nm][0], ix))
    call("Lie:s_u+w", lambda: rel.Lie_beta(F["Vu"][0], 's_u', weight=w))
    call("Lie:s_dd+w", lambda: rel.Lie_beta(F["Tdd"][0], 's_dd', weight=w))
    call("st_covd:u", lambda: rel.st_covd(F["V4u"][0], F["V4u"][1][0], 'u'))
    call("st_covd:d", lambda: rel.st_covd(F["W4d"][0], F["W4d"][1][0], 'd'))
    call("st_covd:", lambda: rel.st_covd(f, df[0], ''))
    # metamorphic identities (all should vanish / agree)
    gd, gu = rel["gammadown3"], rel["gammaup3"]
    call("meta:D_gamma_dd", lambda: rel.s_covd(gd, 'dd'))
    call("meta:D_gamma_uu", lambda: rel.s_covd(gu, 'uu'))
    W = F["Wd"][0]
    call("meta:raise-commutes", lambda: (
        rel.s_covd(np.einsum('ij...,j...->i...', gu, W), 'u')
        - np.einsum('ij...,kj...->ki...', gu, rel.s_covd(W, 'd'))))
    V = F["Vu"][0]
    call("meta:div-u-vs-d", lambda: (
        rel.s_div(V, 'u')
        - rel.s_div(np.einsum('ij...,j...->i...', gd, V), 'd')))
    call("meta:Lie-gamma", lambda: (
        rel.Lie_beta(gd, 's_dd')
        - (lambda Db: Db + np.einsum('ij...->ji...', Db))(
            rel.s_covd(rel["betadown3"], 'd'))))
    call("meta:curl-trace", lambda: np.einsum(
        'ab...,ab...->...', gu, rel.s_curl(F["Tdd"][0], 'dd')))
    return O


# only index strings that can never become meaningful (letters other than
# u/d), plus s_curl's documented "only accepts 'dd'": ranks or patterns a
# future version might legitimately add (rank 3, 'st_uu', ...) are not asserted
BAD_INDEXINGS = [("s_covd", "x"), ("s_covd", "ux"), ("s_div", "x"),
                 ("s_curl", "uu"), ("Lie_beta", "s_x"), ("st_covd", "x")]


def test_helpers(case, note):
    su = A.Setup(case)
    p = su.order
    w = float(case["weight"])
    res = []
    for lvl in (0, 1):
        rel, ex, fd, trim = su.build(lvl)
        F = _fields_on(case, fd, su.t)
        snap = {k: (v[0].copy(), v[1].copy()) for k, v in F.items()}
        O = aurel_helpers(rel, F, w, note)
        for k in F:   # helpers must not modify their arguments (C02 overlap)
            if not (np.array_equal(F[k][0], snap[k][0])
                    and np.array_equal(F[k][1], snap[k][1])):
                note.fail(f"argument-modified:{k}", {})
        res.append((O, exact_helpers(ex, F, w), ex, fd, trim, rel))
    (O1, E1, ex1, fd1, tr1, rel1), (O2, E2, ex2, fd2, tr2, rel2) = res
    _nt(note, ex1, case)
    h2 = min(fd2.dx, fd2.dy, fd2.dz)
    S1 = float(np.max(np.abs(ex2["dg"]))) + 1.0   # fields are O(1)
    mg = []
    for key in E1:
        if key not in O1 or key not in O2:
            continue
        nd = 1
        _conv(note, mg, key, O1[key], O2[key], E1[key], E2[key], tr1, tr2, p,
              S1 * 2.0, nd, h2)
    for key in O1:
        if key.startswith("meta:") and key in O2:
            _conv(note, mg, key, O1[key], O2[key], 0 * O1[key], 0 * O2[key],
                  tr1, tr2, p, S1 * 2.0, 1, h2)
    _margin_cls(note, mg)
    # error paths: an unsupported indexing must raise, not return an array
    f = _fields_on(case, fd1, su.t)
    for fn, ix in BAD_INDEXINGS:
        try:
            if fn == "s_covd":
                arg = f["Tuu"][0] if len(ix) >= 2 else f["Vu"][0]
                r = rel1.s_covd(arg, ix)
            elif fn == "s_div":
                r = rel1.s_div(f["Vu"][0], ix)
            elif fn == "s_curl":
                r = rel1.s_curl(f["Tdd"][0], ix)
            elif fn == "Lie_beta":
                arg = f["Tuu"][0] if len(ix.split('_')[-1]) >= 2 \
                    else f["Vu"][0]
                r = rel1.Lie_beta(arg, ix)
            else:
                arg = f["V4u"]
                r = rel1.st_covd(arg[0], arg[1][0], ix)
        except Exception:  # noqa: BLE001  (type not asserted; see DESIGN)
            continue
        note.fail(f"bad-indexing-accepted:{fn}:{ix}",
                  dict(returned=str(type(r))))


def generic_curv():
    out = []
    for o, form in ((4, "components"), (2, "tensors"), (8, "components")):
        out.append(dict(cases.generic_W(o), form=form, matter="none"))
    out.append(dict(cases.generic_KS(4), form="components", matter="none"))
    return out


def _generic_fields(per):
    k = (lambda n: [2 * np.pi * a / b for a, b in zip(n, per)]) if per \
        else (lambda n: [0.9 * n[0], 0.8 * n[1], 1.1 * n[2]])
    fs = {}
    seedv = 0.0
    for nm, shp in FIELD_SHAPES.items():
        size = int(np.prod(shp)) if shp else 1
        modes = []
        for j, n in enumerate(([1, -1, 1], [-1, 0, 1])):
            vals = [0.3 + 0.13 * ((7 * i + 3 * j + seedv) % 5) *
                    (-1) ** (i + j) for i in range(size)]
            Aarr = np.array(vals).reshape(shp) if shp else np.array(vals[0])
            if nm in ("Tuu", "Tdd"):
                Aarr = 0.5 * (Aarr + Aarr.T)
            modes.append(dict(A=Aarr.tolist(), k=[0.6 - j] + k(n),
                              phi=0.3 + j + seedv))
        seedv += 1.0
        fs[nm] = dict(shape=list(shp), modes=modes, const=None)
    return fs


def generic_helpers():
    out = []
    for o, form, wgt in ((4, "components", 1 / 6), (2, "tensors", -2 / 3),
                         (6, "components", 2 / 3)):
        c = dict(cases.generic_W(o), form=form, matter="none", weight=wgt)
        c["fields"] = _generic_fields(c["L"])
        out.append(c)
    c = dict(cases.generic_KS(4), form="components", matter="none",
             weight=1.0)
    c["fields"] = _generic_fields(None)
    out.append(c)
    c = dict(cases.generic_Wt0(4), form="components", matter="none",
             weight=0.5)
    c["fields"] = _generic_fields(c["L"])
    out.append(c)
    return out


def subchecks(tier):
    q = tier == "quick"
    return [
        Sub("curvature3", curv_case(), A.asymptotic(test_curv), 20 if q else 1200,
            generic=generic_curv(), shards=8 if q else 16, max_rounds=2,
            shrink_quick=False, pregenerate=True),
        Sub("helpers", helper_case(), A.asymptotic(test_helpers), 20 if q else 1200,
            generic=generic_helpers(), shards=8 if q else 16, max_rounds=2,
            shrink_quick=False, pregenerate=True),
    ]
