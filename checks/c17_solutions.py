"""C17 - bundled analytic spacetimes are what they claim to be.
DESIGN.md section 4, C17.

One sub-check per module of aurel.solutions; discriminators name the
quantity ("metric-forms:gdown4", "Kdown3", "Einstein", "Kretschmann", ...).
A discriminator with the suffix ":precision" means that the relation holds
only to ~1e-6 (it fails the round-off level tolerance but not the gross
one): a truncated constant, not a wrong term.
"""
import contextlib
import importlib
import math

import mpmath
import numpy as np
import sympy as sp
from hypothesis import strategies as st

import aurel
from harness import ref4d
from harness.common import Sub

PROPERTY = "C17"
RULE = (
    "one sub-check per module of aurel.solutions. Hypothesis draws a "
    "coordinate time (log-uniform over 2.5-3.5 decades inside the module's "
    "domain; cosmological modules: 1 .. 3 t_today), 1-3 positions (x, y, z) "
    "(Schwarzschild: isotropic radius 0.05M..0.45M or 0.55M..50M, i.e. both "
    "sides of the horizon r=M/2 where the 4-metric is degenerate, and a "
    "direction; Non_diagonal: t*A(z) > sqrt(2)) and the "
    "module parameter where the module reads one at call time "
    "(Schwarzschild M, Conformally_flat eps, Szekeres Amp, LCDM/EdS "
    "a_today); a sixth of the cases use lattice positions held in int64 "
    "arrays; the first position is also passed as plain numbers (where the "
    "function accepts that, the value must be that of the array call). "
    "ICPertFLRW: "
    "background (EdS/LCDM), t, a periodic non-cubic grid (N 24/32, dyadic "
    "spacing chosen from drawn k/(aH) in 0.25..2.5 per axis), 1-2 "
    "wavelengths per box, amplitudes. Non-trivial = every drawn position "
    "has three distinct non-zero coordinates and t is not an endpoint of "
    "its range (ICPertFLRW: all three amplitudes non-zero and the three "
    "k/(aH) distinct).")
ASSUMPTIONS = [
    "units G = c = 1, kappa = 8 pi (each module's own `kappa`); field "
    "equations G_ab + Lambda g_ab = kappa T_ab with Lambda = 0 unless the "
    "module ships a cosmological constant (LCDM.Lambda, also used by "
    "Szekeres through `Szekeres.LCDM`; EdS.Lambda = 0). "
    "Non_diagonal.Lambda is documented as a wavelength and is not used as a "
    "cosmological constant",
    "rho/press modules (Collins_Stewart, EdS, LCDM (dust), Szekeres, "
    "Harvey_Tsoubelis) describe a perfect fluid at rest with respect to the "
    "slicing: T_ab = (rho+p) n_a n_b + p g_ab",
    "modules without lapse/shift functions have alpha = 1, beta = 0 as "
    "their own gdown4 states (g_tt = -1, g_ti = 0)",
    "K_ij = (D_i beta_j + D_j beta_i - d_t gamma_ij) / (2 alpha) (aurel's "
    "documented sign); compared in the form 2 alpha K_ij = ... so that the "
    "Schwarzschild horizon alpha = 0 needs no exclusion",
    "derivatives of the metric come from sympy differentiation of the "
    "module's own analytical=True metric, evaluated with mpmath at 30 "
    "digits and rounded to float64; curvature from them by "
    "harness.ref4d.curvature in float64. EdS (no symbolic form): tensor-"
    "product 8th-order central differences of the numeric form with "
    "proper step t/32 in every direction (h_t = t/32, h_i = t/32/sqrt(g_ii); "
    "truncation ~1e-12 relative for power laws, round-off ~1e-12)",
    "tolerances are relative to the curvature scale in diagonal-normalised "
    "components X_ab / sqrt(|g_aa g_bb|): S2 = max|dd g|, S1 = max|d g| "
    "(normalised); |Einstein residual| <= tol * cond(g_normalised) * "
    "(S2 + S1^2), |2 alpha K residual| <= tol * cond * S1 * max(1,|alpha|), "
    "metric forms <= tol. tol = 1e-11 (1e-9 for the finite-difference "
    "path); observed round-off on correct code <= 2e-14. Residuals between "
    "tol and 1e-6 are reported under '<quantity>:precision', above 1e-6 "
    "under '<quantity>'",
    "ICPertFLRW is first-order initial data (arXiv 2302.09033): the "
    "Hamiltonian constraint with rho = rho_bg (1 + delta1) and the momentum "
    "constraint with zero momentum density must be violated at second "
    "order only: residuals at amplitudes eps and eps/2 (eps in 2e-3..1e-2) "
    "show order q >= 1.5 (measured on correct code: 2.0-2.3; a first-order "
    "error gives q ~ 1). Spatial derivatives of the module output are "
    "spectral (FFT) on the periodic grid; the module gets a real "
    "aurel.FiniteDifference(periodic, fd_order=8) whose truncation error "
    "(<= 2e-5 relative) is below the second-order terms",
    "ICPertFLRW.Kdown3 = -1/2 d_t gammadown3 exactly for EdS (f = 1); for "
    "LCDM only up to the growth-index approximation f = Omega_m^(6/11): "
    "allowed mismatch 0.5 (1 - Omega_m(t)) of the perturbation part "
    "(measured: 4e-7 at t=300, 3e-3 at t=3000, 8e-2 at t=9000)",
    "fL (growth index) itself is not checked against the growth ODE: it is "
    "documented only as the usual approximation",
    "Schwarzschild: the horizon r = M/2 (alpha = 0, degenerate 4-metric) is "
    "a coordinate singularity of the slicing and is excluded together with "
    "r = 0; null_ray_exp_out is D_i s^i + K_ij s^i s^j - K for the unit "
    "normal of the coordinate spheres about the origin (aurel's "
    "null_ray_expansion with the default centre), computed from the exact "
    "gamma, d gamma",
    "Szekeres F and dtZ are proportional to Amp (1 - sin(k z)); their "
    "numeric/symbolic comparison allows the float64 condition number "
    "2 / (1 - sin(k z)) of that factor",
    "Rosquist_Jantzen's docstring claims a tilted gamma-law perfect fluid: "
    "T^a_b must satisfy (T - p)(T + rho) = 0 with p = (gamma - 1) rho",
    "module globals are modified only for the three call-time parameters "
    "and restored afterwards",
]

TOL = 1e-11
TOL_FD = 1e-9
GROSS = 1e-6
KAPPA = 8 * np.pi
DPS = 30

T_, X_, Y_, Z_ = sp.symbols("t x y z", real=True)
COORDS = (T_, X_, Y_, Z_)
PAR_ = sp.Symbol("par", positive=True)


def sol(name):
    return importlib.import_module("aurel.solutions." + name)


@contextlib.contextmanager
def setpar(mod, attr, value):
    """Temporarily set a call-time module parameter (restored on exit)."""
    if attr is None:
        yield
        return
    old = getattr(mod, attr)
    setattr(mod, attr, value)
    try:
        yield
    finally:
        setattr(mod, attr, old)


# ---------------------------------------------------------------------------
# per-module description

SPEC = {
    "Collins_Stewart": dict(lt=(-1.5, 2.0), box=5.0, matter="fluid"),
    "Conformally_flat": dict(lt=(-1.5, 2.0), box=3.0, matter="T",
                             par=("eps", 0.05, 5.0)),
    "Harvey_Tsoubelis": dict(lt=(-1.5, 2.0), box=3.0, matter="T"),
    "LCDM": dict(lt=(0.0, 4.0), box=50.0, matter="fluid",
                 par=("a_today", 0.05, 3.0)),
    "Non_diagonal": dict(lt=(-0.09, 2.0), box=12.0, matter="T"),
    "Rosquist_Jantzen": dict(lt=(-1.5, 2.0), box=3.0, matter="T"),
    "Schwarzschild_isotropic": dict(lt=(-1.5, 2.0), box=None, matter="T",
                                    par=("M", 0.2, 5.0)),
    "Szekeres": dict(lt=(0.0, 4.0), box=20.0, matter="fluid",
                     par=("Amp", 10.0, 3000.0)),
    "EdS": dict(lt=(0.0, 4.0), box=50.0, matter="fluid",
                par=("a_today", 0.05, 3.0)),
}

# functions offering analytical=True, with the coordinates they take
FORMS = {
    "Collins_Stewart": [("gdown4", "txyz"), ("gammadown3", "txyz")],
    "Conformally_flat": [("gdown4", "txyz"), ("gammadown3", "txyz")],
    "Harvey_Tsoubelis": [("gdown4", "txyz"), ("gammadown3", "txyz")],
    "LCDM": [("gammadown3", "txyz"), ("a", "t")],
    "Non_diagonal": [("gdown4", "txyz"), ("gammadown3", "txyz"), ("A", "z")],
    "Rosquist_Jantzen": [("gdown4", "txyz"), ("gammadown3", "txyz")],
    "Schwarzschild_isotropic": [("gdown4", "txyz"), ("gammadown3", "txyz"),
                                ("alpha", "txyz")],
    "Szekeres": [("gdown4", "txyz"), ("gammadown3", "txyz"),
                 ("Z_terms", "txyz")],
}


def lam_of(name):
    if name == "LCDM":
        return float(sol("LCDM").Lambda)
    if name == "Szekeres":
        return float(sol("Szekeres").LCDM.Lambda)
    if name == "EdS":
        return float(sol("EdS").Lambda)
    return 0.0


# ---------------------------------------------------------------------------
# symbolic side (cached per process)

_CACHE = {}


def _flat(obj):
    """Flatten a sympy Matrix / tuple / expression into a list of exprs."""
    if isinstance(obj, sp.MatrixBase):
        return [obj[i, j] for i in range(obj.shape[0])
                for j in range(obj.shape[1])], tuple(obj.shape)
    if isinstance(obj, (tuple, list)):
        return [sp.sympify(e) for e in obj], (len(obj),)
    return [sp.sympify(obj)], ()


def _lamb(exprs):
    return sp.lambdify(COORDS + (PAR_,), list(exprs), modules="mpmath",
                       cse=True)


def _mp_eval(f, p, par):
    with mpmath.workdps(DPS):
        vals = f(*[mpmath.mpf(float(v)) for v in p],
                 mpmath.mpf(float(par if par is not None else 1.0)))
        return [float(mpmath.re(v)) for v in vals]


def sym_metric(name):
    """The module's analytical 4-metric (sympy), with the call-time
    parameter replaced by the symbol PAR_."""
    mod = sol(name)
    par = SPEC[name].get("par")
    with setpar(mod, par[0] if par else None, PAR_):
        if hasattr(mod, "gdown4"):
            g = sp.Matrix(mod.gdown4(T_, X_, Y_, Z_, analytical=True))
        else:
            # LCDM: gammadown3 only; alpha = 1, beta = 0 (checked
            # numerically under "lapse-shift")
            gam = mod.gammadown3(T_, X_, Y_, Z_, analytical=True)
            g = sp.zeros(4, 4)
            g[0, 0] = -1
            for i in range(3):
                for j in range(3):
                    g[i + 1, j + 1] = gam[i, j]
    return g


def jets_lambda(g):
    """Lambdified non-zero entries of g, dg, ddg of a sympy 4-metric."""
    exprs, idx = [], []
    for a in range(4):
        for b in range(a, 4):
            e = g[a, b]
            if e == 0:
                continue
            exprs.append(e)
            idx.append(("g", a, b))
            d1 = {}
            for c in range(4):
                d = sp.diff(e, COORDS[c])
                if d == 0:
                    continue
                d1[c] = d
                exprs.append(d)
                idx.append(("d", c, a, b))
            for c, dc in d1.items():
                for d_ in range(c, 4):
                    dd = sp.diff(dc, COORDS[d_])
                    if dd == 0:
                        continue
                    exprs.append(dd)
                    idx.append(("dd", c, d_, a, b))
    return _lamb(exprs), idx


def build_jets(name):
    key = ("jets", name)
    if key not in _CACHE:
        _CACHE[key] = jets_lambda(sym_metric(name))
    return _CACHE[key]


def eval_jets(f, idx, p, par):
    vals = _mp_eval(f, p, par)
    g = np.zeros((4, 4))
    dg = np.zeros((4, 4, 4))
    ddg = np.zeros((4, 4, 4, 4))
    for k, v in zip(idx, vals):
        if k[0] == "g":
            g[k[1], k[2]] = g[k[2], k[1]] = v
        elif k[0] == "d":
            dg[k[1], k[2], k[3]] = dg[k[1], k[3], k[2]] = v
        else:
            _, c, d, a, b = k
            ddg[c, d, a, b] = ddg[c, d, b, a] = v
            ddg[d, c, a, b] = ddg[d, c, b, a] = v
    return g, dg, ddg


def sym_jets(name, p, par):
    f, idx = build_jets(name)
    return eval_jets(f, idx, p, par)


def build_form(name, fn, args):
    key = ("form", name, fn)
    if key in _CACHE:
        return _CACHE[key]
    mod = sol(name)
    par = SPEC[name].get("par")
    a = [dict(t=T_, x=X_, y=Y_, z=Z_)[c] for c in args]
    with setpar(mod, par[0] if par else None, PAR_):
        obj = getattr(mod, fn)(*a, analytical=True)
    exprs, shape = _flat(obj)
    _CACHE[key] = (_lamb(exprs), shape, exprs)
    return _CACHE[key]


def build_extra(name, what):
    """Oracle-side closed forms derived from the module's analytical metric
    / helper functions by sympy."""
    key = ("extra", name, what)
    if key in _CACHE:
        return _CACHE[key]
    mod = sol(name)
    par = SPEC[name].get("par")
    with setpar(mod, par[0] if par else None, PAR_):
        if what == "dOmega":
            Om = mod.Omega(X_)
            exprs = [Om, sp.diff(Om, X_), sp.diff(Om, X_, 2)]
        elif what == "dA":
            A = mod.A(Z_, analytical=True)
            exprs = [sp.diff(A, Z_), sp.diff(A, Z_, 2)]
        elif what == "dtZ":
            F, Zt, dtZ = mod.Z_terms(T_, X_, Y_, Z_, analytical=True)
            exprs = [sp.diff(Zt, T_)]
        elif what == "adot":
            a = mod.a(T_, analytical=True)
            exprs = [a, sp.diff(a, T_)]
        else:
            raise KeyError(what)
    _CACHE[key] = _lamb(exprs)
    return _CACHE[key]


# ---------------------------------------------------------------------------
# numeric finite-difference jets (EdS has no symbolic form)

_C1 = np.array([1 / 280, -4 / 105, 1 / 5, -4 / 5, 0, 4 / 5, -1 / 5, 4 / 105,
                -1 / 280])
_C2 = np.array([-1 / 560, 8 / 315, -1 / 5, 8 / 5, -205 / 72, 8 / 5, -1 / 5,
                8 / 315, -1 / 560])
_E0 = np.zeros(9)
_E0[4] = 1.0


def fd_jets(gfun, p, h):
    """g, dg, ddg at p from a 9^4 tensor-product stencil of the numeric
    metric gfun(t, X, Y, Z) -> (4, 4, 9, 9, 9); t scalar as the modules
    document."""
    k = np.arange(-4, 5)
    xs = [p[i + 1] + k * h[i + 1] for i in range(3)]
    Xg, Yg, Zg = np.meshgrid(*xs, indexing="ij")
    G = np.array([gfun(p[0] + kt * h[0], Xg, Yg, Zg) for kt in k])
    G = np.moveaxis(G, (1, 2), (-2, -1))      # [kt,kx,ky,kz,a,b]

    def contract(ws):
        out = G
        for w in ws:
            out = np.tensordot(w, out, axes=(0, 0))
        return out

    g = contract([_E0] * 4)
    dg = np.zeros((4, 4, 4))
    ddg = np.zeros((4, 4, 4, 4))
    for c in range(4):
        ws = [_E0] * 4
        ws[c] = _C1 / h[c]
        dg[c] = contract(ws)
        for d in range(c, 4):
            ws = [_E0] * 4
            if c == d:
                ws[c] = _C2 / h[c] ** 2
            else:
                ws[c] = _C1 / h[c]
                ws[d] = _C1 / h[d]
            ddg[c, d] = ddg[d, c] = contract(ws)
    return g, dg, ddg


def numeric_g4(mod):
    def gfun(t, x, y, z):
        gam = mod.gammadown3(t, x, y, z)
        al = mod.alpha(t, x, y, z)
        bu = mod.betaup3(t, x, y, z)
        bd = np.einsum('ij...,j...->i...', gam, bu)
        g = np.zeros((4, 4) + np.shape(x))
        g[0, 0] = -al ** 2 + np.einsum('i...,i...->...', bu, bd)
        g[0, 1:] = bd
        g[1:, 0] = bd
        g[1:, 1:] = gam
        return g
    return gfun


# ---------------------------------------------------------------------------
# geometry at a point


class Geo:
    """Curvature, 3+1 pieces and normalisation scales from g, dg, ddg."""

    def __init__(self, g, dg, ddg):
        self.g, self.dg, self.ddg = g, dg, ddg
        n = np.sqrt(np.abs(np.diag(g)))
        self.n = n
        self.n2 = np.outer(n, n)
        self.S2 = float(np.max(np.abs(ddg) / (self.n2[None, None]
                                              * self.n2[:, :, None, None])))
        self.S1 = float(np.max(np.abs(dg) / (self.n2[None]
                                             * n[:, None, None])))
        self.cond = float(np.linalg.cond(g / self.n2))
        self.c4 = ref4d.curvature(g, dg, ddg)
        gam = g[1:, 1:]
        gamu = np.linalg.inv(gam)
        bd = g[0, 1:]
        bu = gamu @ bd
        self.alpha2 = float(bu @ bd - g[0, 0])
        self.alpha = math.sqrt(max(self.alpha2, 0.0))
        dgam = dg[1:, 1:, 1:]
        G3d = 0.5 * (np.einsum('jik->ijk', dgam) + np.einsum('kij->ijk', dgam)
                     - dgam)
        G3 = np.einsum('il,ljk->ijk', gamu, G3d)
        dbd = dg[1:, 0, 1:]
        Dbd = dbd - np.einsum('kij,k->ij', G3, bd)
        # 2 alpha K_ij
        self.twoalphaK = Dbd + Dbd.T - dg[0, 1:, 1:]
        self.betaup = bu
        self.ndown = np.array([-self.alpha, 0.0, 0.0, 0.0])
        self.curv = self.S2 + self.S1 ** 2


def div_radial_normal(geo, xyz):
    """D_i s^i for the unit normal s^i = gamma^ij d_j r / |dr| of the
    coordinate spheres r = const about the origin, from gamma and its exact
    first derivatives (d r, dd r analytic)."""
    xv = np.array(xyz, float)
    r = math.sqrt(xv @ xv)
    gam = geo.g[1:, 1:]
    dgam = geo.dg[1:, 1:, 1:]                 # [k,a,b]
    gu = np.linalg.inv(gam)
    dgu = -np.einsum('ia,jb,kab->kij', gu, gu, dgam)
    r1 = xv / r
    r2 = np.eye(3) / r - np.outer(xv, xv) / r ** 3
    v = gu @ r1
    dv = np.einsum('kij,j->ki', dgu, r1) + np.einsum('ij,jk->ki', gu, r2)
    m2 = v @ r1
    dm2 = dv @ r1 + r2 @ v
    m = math.sqrt(m2)
    dm = dm2 / (2 * m)
    sup = v / m
    ds = dv / m - np.outer(dm, v) / m2        # [k,i] = d_k s^i
    Gtr = 0.5 * np.einsum('ab,kab->k', gu, dgam)
    return float(np.trace(ds) + Gtr @ sup), sup


def grade(note, disc, err, scale, observed, tol=TOL):
    """Two-level verdict: gross error -> disc, round-off level exceeded but
    below 1e-6 -> disc + ':precision'."""
    if not np.isfinite(err):
        note.fail(disc, dict(observed, err="non-finite"))
    elif err > GROSS * scale:
        note.fail(disc, dict(observed, err=float(err), scale=float(scale),
                             rel=float(err / scale)))
    elif err > tol * scale:
        note.fail(disc + ":precision",
                  dict(observed, err=float(err), scale=float(scale),
                       rel=float(err / scale), tol=tol))


def cloud(pts):
    P = np.array(pts, float)
    return [P[:, i].reshape(-1, 1, 1).copy() for i in range(3)]


def at(arr, i):
    """Value of a module output at cloud point i.  Cloud arrays have shape
    (..., n, 1, 1); homogeneous quantities may come back as plain scalars
    (Collins_Stewart.rho, EdS.rho(t), Conformally_flat.dxdxOmega)."""
    a = np.asarray(arr)
    if a.ndim >= 3 and a.shape[-2:] == (1, 1):
        return a[..., i if a.shape[-3] > 1 else 0, 0, 0]
    return a


# ---------------------------------------------------------------------------
# the per-module test


def make_test(name):
    def test(case, note):
        run_module(name, case, note)
    return test


def classify(name, case, note):
    spec = SPEC[name]
    t = case["t"]
    lo, hi = 10 ** spec["lt"][0], 10 ** spec["lt"][1]
    generic = lo * 1.0000001 < t < hi * 0.9999999
    for p in case["pts"]:
        generic = generic and len({abs(v) for v in p}) == 3 and \
            all(v != 0 for v in p)
    note.nt(generic)
    note.cls(f"pts={len(case['pts'])}", "t:1e%d" % math.floor(math.log10(t)))
    if case.get("par") is not None:
        note.cls("par:drawn")


def run_module(name, case, note):
    mod = sol(name)
    spec = SPEC[name]
    t = float(case["t"])
    pts = [[float(v) for v in p] for p in case["pts"]]
    par = case.get("par")
    parattr = spec["par"][0] if spec.get("par") else None
    classify(name, case, note)
    x, y, z = cloud(pts)
    if case.get("int_coords"):
        # lattice positions held in integer arrays (np.arange grids)
        note.cls("integer-dtype-coordinates")
        x, y, z = [a.astype(np.int64) for a in (x, y, z)]
    lam = lam_of(name)
    symbolic = name != "EdS"
    tol = TOL if symbolic else TOL_FD

    with setpar(mod, parattr, par):
        num = {}
        for fn in ("gdown4", "gammadown3", "Kdown3", "Tdown4", "alpha",
                   "betaup3", "uup4", "Kretschmann", "null_ray_exp_out"):
            if hasattr(mod, fn):
                num[fn] = getattr(mod, fn)(t, x, y, z)
        for fn in ("rho", "press"):
            if hasattr(mod, fn):
                try:
                    num[fn] = getattr(mod, fn)(t, x, y, z)
                except TypeError:          # homogeneous: rho(t)
                    num[fn] = getattr(mod, fn)(t)
        # the same functions at a single position given as plain numbers:
        # several of them need 3D arrays and raise (not asserted); those that
        # return a value must return the value of the array call
        if not case.get("int_coords"):
            for fn in ("gdown4", "gammadown3", "Kdown3", "Tdown4", "alpha",
                       "betaup3", "uup4", "Kretschmann"):
                if fn not in num:
                    continue
                try:
                    with np.errstate(all="ignore"):
                        sv = np.asarray(getattr(mod, fn)(
                            t, float(pts[0][0]), float(pts[0][1]),
                            float(pts[0][2])), float)
                except Exception:  # noqa: BLE001
                    note.cls("scalar-position-rejected")
                    continue
                ref = np.asarray(at(num[fn], 0), float)
                note.cls("scalar-position-accepted")
                try:
                    sv = sv.reshape(ref.shape)
                except ValueError:
                    note.fail(f"{fn}:scalar-position:shape",
                              dict(got=list(sv.shape), want=list(ref.shape)))
                    continue
                sc = float(np.max(np.abs(ref))) + 1e-300
                if not np.all(np.abs(sv - ref) <= 1e-12 * sc):
                    note.fail(f"{fn}:scalar-position:value", dict(
                        maxdiff=float(np.max(np.abs(sv - ref))), scale=sc,
                        point=[t] + list(pts[0]), par=par))
        if hasattr(mod, "data"):
            check_data(mod, t, x, y, z, num, note)
        if name == "Szekeres":
            num["Z_terms"] = mod.Z_terms(t, x, y, z)
        if name == "Non_diagonal":
            num["A"] = mod.A(z)
            num["dzA"] = mod.dzA(z)
            num["dzdzA"] = mod.dzdzA(z)
        if name == "Conformally_flat":
            num["st_RicciS"] = mod.st_RicciS(x)
            num["Omega"] = [mod.Omega(x), mod.dxOmega(x), mod.dxdxOmega(x)]
        if name in ("EdS", "LCDM"):
            friedmann(name, mod, t, note)

        for i, pt in enumerate(pts):
            p = (t,) + tuple(pt)
            if symbolic:
                g, dg, ddg = sym_jets(name, p, par)
            else:
                # scale-aware steps: proper length t/32 in every direction
                g0 = numeric_g4(mod)(t, x[i:i + 1], y[i:i + 1], z[i:i + 1])
                h = [t / 32.0] + [t / 32.0 / math.sqrt(g0[k, k, 0, 0, 0])
                                  for k in (1, 2, 3)]
                g, dg, ddg = fd_jets(numeric_g4(mod), p, h)
            geo = Geo(g, dg, ddg)
            obs = dict(point=list(p), par=par)
            if name == "Schwarzschild_isotropic":
                r = math.sqrt(sum(v * v for v in pt))
                note.cls("inside-horizon" if r < par / 2 else "outside")
            point_checks(name, mod, num, i, p, par, geo, lam, tol, obs, note)


def check_data(mod, t, x, y, z, num, note):
    d = mod.data(t, x, y, z)
    for k, v in d.items():
        if k not in num:
            continue
        if not np.array_equal(np.asarray(v), np.asarray(num[k]),
                              equal_nan=True):
            note.fail("data:" + k, dict(t=t))


def point_checks(name, mod, num, i, p, par, geo, lam, tol, obs, note):
    t = p[0]
    n2 = geo.n2
    # (a) numeric vs analytical forms -------------------------------------
    for fn, args in FORMS.get(name, []):
        f, shape, _ = build_form(name, fn, args)
        want = np.array(_mp_eval(f, p, par)).reshape(shape)
        if fn in ("a", "A"):
            got = (mod.a(t) if fn == "a" else at(num["A"], i))
            sc = abs(want)
        elif fn == "Z_terms":
            got = np.array([at(q, i) for q in num["Z_terms"]])
            # F and dtZ are proportional to betaP = Amp (1 - sin(k z)),
            # whose float64 evaluation has condition number 2/(1 - sin)
            cnd = 2.0 / max(1.0 - math.sin(float(mod.k) * p[3]), 1e-16)
            sc = np.maximum(np.abs(want), 1e-300)
            sc[0] *= cnd
            sc[1] = max(sc[1], sc[0])
            sc[2] = max(abs(want[2]) * cnd, abs(want[1]) / t)
        elif fn == "alpha":
            got = at(num["alpha"], i)
            sc = max(abs(want), 1.0)
        elif fn == "gdown4":
            got = at(num["gdown4"], i)
            sc = n2
        else:
            got = at(num["gammadown3"], i)
            sc = n2[1:, 1:]
        err = np.max(np.abs(np.asarray(got, float) - want) / sc)
        grade(note, "metric-forms:" + fn, err, 1.0, obs, tol=1e-12)
    # lapse / shift functions agree with the 4-metric ----------------------
    if "alpha" in num and name != "EdS":
        a = float(at(num["alpha"], i))
        grade(note, "lapse-shift:alpha", abs(a * a - geo.alpha2),
              max(1.0, geo.alpha2), dict(obs, alpha=a, alpha2=geo.alpha2),
              tol=1e-12)
        alpha_mod = a
    else:
        alpha_mod = geo.alpha
    if "betaup3" in num and name != "EdS":
        b = np.asarray(at(num["betaup3"], i), float)
        grade(note, "lapse-shift:betaup3",
              np.max(np.abs(b - geo.betaup) * geo.n[1:]), 1.0, obs, tol=1e-12)

    # (b) extrinsic curvature -----------------------------------------------
    K = np.asarray(at(num["Kdown3"], i), float)
    resK = 2.0 * alpha_mod * K - geo.twoalphaK
    errK = np.max(np.abs(resK) / n2[1:, 1:])
    # purely static case: S1 may vanish in t; scale with the first
    # derivatives of the whole metric
    scK = geo.cond * max(geo.S1, 1e-300) * max(1.0, abs(alpha_mod))
    ij = np.unravel_index(np.argmax(np.abs(resK) / n2[1:, 1:]), (3, 3))
    grade(note, "Kdown3", errK, scK,
          dict(obs, component=[int(ij[0]), int(ij[1])],
               K_module=float(K[ij]),
               K_from_metric=float(geo.twoalphaK[ij] / (2 * alpha_mod))
               if alpha_mod else None), tol=tol)

    # (c) Einstein's equations ------------------------------------------------
    E = geo.c4["Ein"] + lam * geo.g
    scE = geo.cond * max(geo.curv, 1e-300)
    if "Tdown4" in num:
        Tm = np.asarray(at(num["Tdown4"], i), float)
        resE = E - mod_kappa(mod) * Tm
        ab = np.unravel_index(np.argmax(np.abs(resE) / n2), (4, 4))
        grade(note, "Einstein", np.max(np.abs(resE) / n2), scE,
              dict(obs, component=[int(ab[0]), int(ab[1])],
                   kappaT_module=float(mod_kappa(mod) * Tm[ab]),
                   G_plus_Lambda_g=float(E[ab])), tol=tol)
    if "rho" in num:
        rho = float(at(num["rho"], i))
        pr = float(at(num["press"], i)) if "press" in num else 0.0
        u = geo.ndown
        Tm = (rho + pr) * np.outer(u, u) + pr * geo.g
        resE = E - mod_kappa(mod) * Tm
        ab = np.unravel_index(np.argmax(np.abs(resE) / n2), (4, 4))
        disc = "Einstein:fluid" if "Tdown4" in num else "Einstein"
        grade(note, disc, np.max(np.abs(resE) / n2), scE,
              dict(obs, component=[int(ab[0]), int(ab[1])], rho=rho,
                   press=pr, kappaT_module=float(mod_kappa(mod) * Tm[ab]),
                   G_plus_Lambda_g=float(E[ab]), Lambda=lam), tol=tol)
    if "uup4" in num:
        u = np.asarray(at(num["uup4"], i), float)
        grade(note, "uup4:norm", abs(u @ geo.g @ u + 1.0), 1.0, obs,
              tol=1e-12)

    # (d) closed-form extras ----------------------------------------------
    if name == "Schwarzschild_isotropic":
        kr = float(at(num["Kretschmann"], i))
        grade(note, "Kretschmann", abs(kr - float(geo.c4["Kr"])),
              (geo.cond * geo.curv) ** 2,
              dict(obs, module=kr, from_metric=float(geo.c4["Kr"])),
              tol=1e-10)
        div, sup = div_radial_normal(geo, p[1:])
        theta = div
        if abs(geo.alpha) > 1e-3:
            Kor = geo.twoalphaK / (2 * geo.alpha)
            theta += sup @ Kor @ sup - np.trace(
                np.linalg.inv(geo.g[1:, 1:]) @ Kor)
        got = float(at(num["null_ray_exp_out"], i))
        grade(note, "null_ray_exp_out", abs(got - theta),
              max(geo.S1, abs(theta)), dict(obs, module=got,
                                            from_metric=float(theta)),
              tol=1e-11)
    if name == "Conformally_flat":
        rs = float(at(num["st_RicciS"], i))
        grade(note, "st_RicciS", abs(rs - float(geo.c4["RS"])),
              geo.cond * geo.curv,
              dict(obs, module=rs, from_metric=float(geo.c4["RS"])))
        want = _mp_eval(build_extra(name, "dOmega"), p, par)
        for k, nm in enumerate(("Omega", "dxOmega", "dxdxOmega")):
            got = float(np.asarray(at(num["Omega"][k], i)))
            grade(note, "conformal-factor:" + nm, abs(got - want[k]),
                  max(1.0, abs(want[k])), dict(obs, module=got,
                                               want=want[k]), tol=1e-12)
    if name == "Non_diagonal":
        want = _mp_eval(build_extra(name, "dA"), p, par)
        fq = float(mod.fq)
        for k, nm in enumerate(("dzA", "dzdzA")):
            got = float(at(num[nm], i))
            grade(note, "conformal-factor:" + nm, abs(got - want[k]),
                  0.2 * fq ** (k + 1), dict(obs, module=got, want=want[k]),
                  tol=1e-12)
    if name == "Szekeres":
        want = _mp_eval(build_extra(name, "dtZ"), p, par)[0]
        got = float(at(num["Z_terms"][2], i))
        Zv = float(at(num["Z_terms"][1], i))
        cnd = 2.0 / max(1.0 - math.sin(float(mod.k) * p[3]), 1e-16)
        grade(note, "dtZ", abs(got - want),
              max(abs(want) * cnd, abs(Zv) / t),
              dict(obs, module=got, dZ_dt=want), tol=1e-11)
    if name == "Rosquist_Jantzen":
        Tm = np.asarray(at(num["Tdown4"], i), float)
        M = (np.linalg.inv(geo.g) @ Tm) * geo.n[:, None] / geo.n[None, :]
        gam1 = float(mod.gamma) - 1.0
        rho = np.trace(M) / (3 * gam1 - 1.0)
        pr = gam1 * rho
        Q = (M - pr * np.eye(4)) @ (M + rho * np.eye(4))
        grade(note, "perfect-fluid-gamma-law", np.max(np.abs(Q)),
              geo.cond ** 2 * max(rho * rho, 1e-300),
              dict(obs, rho_fluid=float(rho)), tol=1e-10)
    if name in ("EdS", "LCDM"):
        # Hubble function is the expansion rate of the metric
        Hm = geo.dg[0, 1, 1] / (2 * geo.g[1, 1])
        H = float(mod.Hprop(t))
        grade(note, "Friedmann:Hprop", abs(H - Hm), abs(Hm),
              dict(obs, Hprop=H, from_metric=float(Hm)), tol=tol)
        a = float(mod.a(t))
        grade(note, "Friedmann:a", abs(a * a - geo.g[1, 1]), geo.g[1, 1],
              dict(obs, a=a, gxx=float(geo.g[1, 1])), tol=1e-12)


def mod_kappa(mod):
    return float(getattr(mod, "kappa", KAPPA))


def friedmann(name, mod, t, note):
    """Relations between the closed-form background functions (no metric
    involved; the metric-derived ones are in point_checks)."""
    obs = dict(t=t)
    a, H, rho = float(mod.a(t)), float(mod.Hprop(t)), float(mod.rho(t))
    lam = float(mod.Lambda)
    kap = mod_kappa(mod)

    def rel(disc, got, want, tol=1e-12):
        grade(note, disc, abs(got - want), max(abs(want), 1e-300),
              dict(obs, got=float(got), want=float(want)), tol=tol)

    rel("Friedmann:3H2", 3 * H * H, kap * rho + lam)
    rel("Friedmann:Omega_m", float(mod.Omega_m(t)), kap * rho / (3 * H * H))
    rel("Friedmann:Hconf", float(mod.Hconf(t)), a * H)
    rel("Friedmann:an_today", float(mod.an_today(t)), a / mod.a_today)
    # 1 + z = a_today / a (compared as 1+z: z itself cancels near today)
    rel("Friedmann:redshift", 1.0 + float(mod.redshift(t)), mod.a_today / a)
    if name == "EdS":
        rel("Friedmann:press", float(mod.press(t)), mod.w * rho)
        rel("inverse:t_func_a", float(mod.t_func_a(a)), t)
        rel("inverse:t_func_Hprop", float(mod.t_func_Hprop(H)), t)
        zr = float(mod.redshift(t))
        # these go through 1+z; conditioning 1/(1+z) ~ a
        rel("inverse:a_func_z", float(mod.a_func_z(zr)), a,
            tol=1e-12 * max(1.0, a / mod.a_today))
        rel("inverse:t_func_z", float(mod.t_func_z(zr)), t,
            tol=1e-11 * max(1.0, a / mod.a_today))
        rel("today:a", float(mod.a(mod.t_today)), mod.a_today)
        rel("today:Hprop", float(mod.Hprop(mod.t_today)), mod.Hprop_today)
    else:
        # today = the time at which a = a_today (bisection on the module's
        # own a(t), which is increasing)
        lo, hi = 1.0, 1e5
        for _ in range(200):
            mid = 0.5 * (lo + hi)
            if mod.a(mid) < mod.a_today:
                lo = mid
            else:
                hi = mid
        t0 = 0.5 * (lo + hi)
        rel("today:Hprop", float(mod.Hprop(t0)), mod.Hprop_today, tol=1e-11)
        rel("today:Omega_m", float(mod.Omega_m(t0)), mod.Omega_m_today,
            tol=1e-11)
        want = _mp_eval(build_extra(name, "adot"), (t, 0, 0, 0), None)
        rel("Friedmann:Hprop-vs-a", H, want[1] / want[0], tol=1e-11)


# ---------------------------------------------------------------------------
# ICPertFLRW


def spec_d(f, axis, L):
    N = f.shape[axis]
    k = 2 * np.pi * np.fft.fftfreq(N, d=L / N)
    if N % 2 == 0:
        k[N // 2] = 0.0
    sh = [1] * f.ndim
    sh[axis] = N
    return np.real(np.fft.ifft(1j * k.reshape(sh)
                               * np.fft.fft(f, axis=axis), axis=axis))


def icpert_grid(case):
    bg = sol(case["sol"])
    t = float(case["t"])
    aH = float(bg.a(t) * bg.Hprop(t))
    N, dx, L, lamb = [], [], [], []
    for i in range(3):
        n = int(case["N"][i])
        want = 2 * np.pi * case["nwave"][i] / (case["ratio"][i] * aH)
        d = 2.0 ** round(math.log2(want / n))      # dyadic spacing (C16)
        N.append(n)
        dx.append(d)
        L.append(n * d)
        lamb.append(n * d / case["nwave"][i])
    prm = dict(Nx=N[0], Ny=N[1], Nz=N[2], xmin=0.0, ymin=0.0, zmin=0.0,
               dx=dx[0], dy=dx[1], dz=dx[2])
    fd = aurel.FiniteDifference(prm, boundary="periodic", fd_order=8,
                                verbose=False)
    if (fd.Nx, fd.Ny, fd.Nz) != tuple(N):
        raise RuntimeError("grid size differs (C16 territory)")
    return bg, t, fd, L, lamb


def icpert_residuals(IC, bg, t, fd, L, lamb, amp, couple=0.0):
    Rc = IC.Rc_func(fd.x, fd.y, fd.z, amp, lamb)
    if couple:
        # Rc is a user-supplied field; the module's own Rc_func is a sum of
        # one-dimensional sines whose mixed second derivatives all vanish, so
        # a term coupling the three directions is added (same small amplitude)
        a0 = max(abs(v) for v in amp)
        Rc = Rc + couple * a0 * (np.sin(2 * np.pi * fd.x / lamb[0])
                                 * np.cos(2 * np.pi * fd.y / lamb[1])
                                 * np.sin(2 * np.pi * fd.z / lamb[2]))
    gam = IC.gammadown3(bg, fd, t, Rc)
    K = IC.Kdown3(bg, fd, t, Rc)
    d1 = IC.delta1(bg, fd, t, Rc)
    ax = (-3, -2, -1)
    dg = np.array([spec_d(gam, ax[c], L[c]) for c in range(3)])
    ddg = np.array([[spec_d(dg[c], ax[d], L[d]) for d in range(3)]
                    for c in range(3)])
    c3 = ref4d.curvature(gam, dg, ddg)
    gu = c3["gup"]
    Kud = np.einsum('ik...,kj...->ij...', gu, K)
    Ktr = np.einsum('ii...->...', Kud)
    KK = np.einsum('ij...,ji...->...', Kud, Kud)
    lam = float(getattr(bg, "Lambda", 0.0))
    kap = mod_kappa(bg)
    rhoH = (c3["RS"] + Ktr ** 2 - KK - 2 * lam) / (2 * kap)
    dH = rhoH / bg.rho(t) - 1.0
    dK = np.array([spec_d(K, ax[c], L[c]) for c in range(3)])
    G = c3["Gu"]
    DK = (dK - np.einsum('lci...,lj...->cij...', G, K)
          - np.einsum('lcj...,il...->cij...', G, K))
    mom = (np.einsum('cj...,cij...->i...', gu, DK)
           - np.array([spec_d(Ktr, ax[c], L[c]) for c in range(3)]))
    a, H = float(bg.a(t)), float(bg.Hprop(t))
    return dict(ham=float(np.max(np.abs(dH - d1))),
                mom=float(np.max(np.abs(mom)) / (a * H * H)),
                d1=float(np.max(np.abs(d1))), Rc=Rc, K=K)


def test_icpert(case, note):
    IC = sol("ICPertFLRW")
    bg, t, fd, L, lamb = icpert_grid(case)
    eps = float(case["eps"])
    w = [float(v) for v in case["w"]]
    note.nt(all(v != 0 for v in w) and len(set(case["ratio"])) == 3)
    note.cls(case["sol"], "t:1e%d" % math.floor(math.log10(t)),
             "nwave=%s" % "".join(str(n) for n in case["nwave"]))
    obs = dict(sol=case["sol"], t=t, L=L, lamb=lamb)
    cpl = float(case.get("couple", 0.0))
    note.cls("coupled-Rc" if cpl else "separable-Rc")
    r1 = icpert_residuals(IC, bg, t, fd, L, lamb, [eps * v for v in w], cpl)
    if r1["d1"] > 0.05:
        # keep the density contrast perturbative (late LCDM: 1/F grows);
        # the amplitude stays a pure function of the case
        eps *= 0.05 / r1["d1"]
        note.cls("amplitude-capped")
        r1 = icpert_residuals(IC, bg, t, fd, L, lamb, [eps * v for v in w],
                              cpl)
    r2 = icpert_residuals(IC, bg, t, fd, L, lamb, [0.5 * eps * v for v in w],
                          cpl)
    note.cls("delta1<0.01" if r1["d1"] < 0.01 else "delta1>=0.01")
    for key, disc in (("ham", "Hamiltonian-1st-order"),
                      ("mom", "Momentum-1st-order")):
        e1, e2 = r1[key], r2[key]
        if not (np.isfinite(e1) and np.isfinite(e2)):
            note.fail(disc, dict(obs, e1=e1, e2=e2))
            continue
        if e1 <= 1e-9:
            continue
        q = math.log2(e1 / e2) if e2 > 0 else 99.0
        if q < 1.5:
            note.fail(disc, dict(obs, residual_eps=e1, residual_half_eps=e2,
                                 order=q, delta1=r1["d1"]))
    # K_ij = -1/2 d_t gamma_ij (same Rc, same fd: no truncation involved)
    Rc, K = r1["Rc"], r1["K"]
    dtg = ref4d.dt_exact(lambda tt: IC.gammadown3(bg, fd, tt, Rc), t,
                         t / 64.0)
    err = float(np.max(np.abs(K + 0.5 * dtg)))
    tot = float(np.max(np.abs(K)))
    K0 = IC.Kdown3(bg, fd, t, np.zeros_like(Rc))
    pert = float(np.max(np.abs(K - K0)))
    allow = 1e-8 * tot
    if case["sol"] == "LCDM":
        allow += 0.5 * (1.0 - float(bg.Omega_m(t))) * pert
    if not err <= allow:
        note.fail("Kdown3", dict(obs, err=err, allowed=allow, Kscale=tot,
                                 perturbation=pert))


@st.composite
def icpert_case(draw):
    s = draw(st.sampled_from(["EdS", "LCDM"]))
    lt = draw(st.floats(0.0, 3.95, allow_nan=False))
    return dict(
        sol=s, t=10 ** lt,
        N=[draw(st.sampled_from([24, 32])) for _ in range(3)],
        ratio=[draw(st.floats(0.25, 2.5, allow_nan=False)) for _ in range(3)],
        nwave=[draw(st.sampled_from([1, 1, 2])) for _ in range(3)],
        eps=draw(st.floats(2e-3, 1e-2, allow_nan=False)),
        w=[draw(st.sampled_from([1.0, 0.7, 0.4, 0.0, -0.6]))
           for _ in range(3)],
        couple=draw(st.sampled_from([0.0, 0.5, 0.8, -0.6])))


# ---------------------------------------------------------------------------
# strategies


@st.composite
def module_case(draw, name):
    spec = SPEC[name]
    lt = draw(st.floats(spec["lt"][0], spec["lt"][1], allow_nan=False))
    t = 10 ** lt
    par = None
    if spec.get("par"):
        _, lo, hi = spec["par"]
        par = draw(st.floats(lo, hi, allow_nan=False))
    npts = draw(st.integers(1, 3))
    pts = []
    for _ in range(npts):
        if name == "Schwarzschild_isotropic":
            # isotropic radius, log-uniform, any direction; the horizon
            # r = M/2 (alpha = 0: degenerate 4-metric, a coordinate
            # singularity of this slicing) is excluded by construction:
            # 0.05M..0.45M inside, 0.55M..50M outside (|alpha| >= 0.047)
            if draw(st.booleans()):
                lr = draw(st.floats(math.log10(0.55), math.log10(50.0),
                                    allow_nan=False))
            else:
                lr = draw(st.floats(math.log10(0.05), math.log10(0.45),
                                    allow_nan=False))
            r = par * 10 ** lr
            th = draw(st.floats(0.0, math.pi, allow_nan=False))
            ph = draw(st.floats(0.0, 2 * math.pi, allow_nan=False))
            pts.append([r * math.sin(th) * math.cos(ph),
                        r * math.sin(th) * math.sin(ph), r * math.cos(th)])
        else:
            b = spec["box"]
            pts.append([draw(st.floats(-b, b, allow_nan=False))
                        for _ in range(3)])
    case = dict(t=t, pts=pts, par=par)
    if name not in ("Schwarzschild_isotropic", "Non_diagonal") and \
            draw(st.integers(0, 5)) == 0:
        # integer lattice positions, stored in an integer array
        case["pts"] = [[float(round(v)) for v in p] for p in pts]
        case["int_coords"] = True
    return case


GENERIC = {
    "Collins_Stewart": dict(t=1.7, pts=[[0.3, -1.1, 2.3], [-2.0, 0.7, -0.4]],
                            par=None),
    "Conformally_flat": dict(t=0.6, pts=[[0.8, -0.3, 1.9], [-1.4, 2.2, 0.1]],
                             par=2.0),
    "Harvey_Tsoubelis": dict(t=2.4, pts=[[0.5, -0.9, 1.2], [-1.3, 0.4, 2.0]],
                             par=None),
    "LCDM": dict(t=2500.0, pts=[[3.0, -7.0, 11.0]], par=2.0),
    "Non_diagonal": dict(t=1.5, pts=[[0.4, 2.7, -3.1], [1.0, -2.0, 6.2]],
                         par=None),
    "Rosquist_Jantzen": dict(t=1.9, pts=[[0.6, -1.2, 0.3],
                                         [-0.8, 0.5, 1.4]], par=None),
    "Schwarzschild_isotropic": dict(t=0.3, pts=[[1.1, -0.7, 0.4],
                                                [0.2, 0.1, -0.25]], par=1.0),
    "Szekeres": dict(t=2900.0, pts=[[3.0, -7.0, 1.3], [-8.0, 2.0, 6.1]],
                     par=1000.0),
    "EdS": dict(t=2500.0, pts=[[3.0, -7.0, 11.0]], par=0.5),
}
GENERIC_IC = [
    dict(sol="LCDM", t=1.0, N=[32, 24, 32], ratio=[1.0, 0.7, 1.6],
         nwave=[1, 1, 2], eps=0.01, w=[1.0, 0.7, 0.4]),
    dict(sol="EdS", t=1500.0, N=[24, 32, 32], ratio=[0.5, 1.2, 2.0],
         nwave=[1, 2, 1], eps=0.004, w=[0.7, -0.6, 1.0]),
    dict(sol="EdS", t=40.0, N=[24, 32, 24], ratio=[0.8, 1.3, 1.9],
         nwave=[1, 1, 1], eps=0.006, w=[1.0, 0.4, -0.6], couple=0.8),
    dict(sol="LCDM", t=300.0, N=[32, 24, 24], ratio=[1.1, 0.6, 1.5],
         nwave=[1, 1, 2], eps=0.005, w=[0.4, 1.0, 0.7], couple=-0.6),
]


# ---------------------------------------------------------------------------
# oracle self-test


def selftest():
    # 1. sympy jets -> ref4d on hand-written metrics with known answers
    t, x, y, z = COORDS
    # dust FLRW a = t^(2/3): G_tt = 4/(3 t^2), G_ij = 0
    a2 = t ** sp.Rational(4, 3)
    # isotropic Schwarzschild, M = 0.7
    M = sp.Rational(7, 10)
    r = sp.sqrt(x * x + y * y + z * z)
    psi4 = (1 + M / (2 * r)) ** 4
    al2 = ((2 * r - M) / (2 * r + M)) ** 2
    for g, kind in ((sp.diag(-1, a2, a2, a2), "flrw"),
                    (sp.diag(-al2, psi4, psi4, psi4), "schw")):
        p = (1.3, 0.4, -0.9, 0.6)
        f, idx = jets_lambda(g)
        G, dG, ddG = eval_jets(f, idx, p, None)
        geo = Geo(G, dG, ddG)
        if kind == "flrw":
            want = np.zeros((4, 4))
            want[0, 0] = 4 / (3 * p[0] ** 2)
            assert np.max(np.abs(geo.c4["Ein"] - want)) < 1e-13, "FLRW G"
            Kw = -0.5 * (4 / 3) * p[0] ** (1 / 3) * np.eye(3)
            assert np.max(np.abs(geo.twoalphaK / 2 - Kw)) < 1e-13, "FLRW K"
        else:
            rr = float(r.subs(dict(zip(COORDS, p))))
            R = rr * (1 + 0.7 / (2 * rr)) ** 2
            assert np.max(np.abs(geo.c4["Ein"])) < 1e-12 * geo.curv, "Schw G"
            assert abs(geo.c4["Kr"] - 48 * 0.49 / R ** 6) < 1e-11, "Schw Kr"
        # 2. finite-difference jets agree with the analytic ones
        if kind == "flrw":
            def gfun(tt, X, Y, Z):
                out = np.zeros((4, 4) + X.shape)
                out[0, 0] = -1.0
                for i in range(1, 4):
                    out[i, i] = tt ** (4 / 3) * (1 + 0 * X)
                return out
            g2, dg2, ddg2 = fd_jets(gfun, p, (p[0] / 32, 1.0, 1.0, 1.0))
            assert np.max(np.abs(dg2 - dG)) < 1e-11, "fd dg"
            assert np.max(np.abs(ddg2 - ddG)) < 1e-10, "fd ddg"
    # 3. spectral derivative
    xx = np.arange(16) * 0.5
    f = np.sin(2 * np.pi * xx / 8.0)[:, None, None] * np.ones((16, 2, 2))
    d = spec_d(f, -3, 8.0)
    assert np.max(np.abs(d[:, 0, 0] - 2 * np.pi / 8
                         * np.cos(2 * np.pi * xx / 8.0))) < 1e-13, "fft"


# ---------------------------------------------------------------------------


def subchecks(tier):
    q = tier == "quick"
    subs = []
    for name in ("Collins_Stewart", "Conformally_flat", "EdS",
                 "Harvey_Tsoubelis", "LCDM", "Non_diagonal",
                 "Rosquist_Jantzen", "Schwarzschild_isotropic", "Szekeres"):
        n = 240 if q else 12000
        if name == "EdS":
            n = 120 if q else 4000
        subs.append(Sub(name, module_case(name), make_test(name), n,
                        generic=[GENERIC[name]], shards=2 if q else 8))
    subs.append(Sub("ICPertFLRW", icpert_case(), test_icpert,
                    48 if q else 1600, generic=GENERIC_IC,
                    shards=8 if q else 16, shrink_quick=False))
    return subs
