"""C06 - on exact solutions the constraints vanish and the dt-quantities are
the true coordinate-time derivatives.  DESIGN.md section 4, C06."""
import numpy as np
from hypothesis import strategies as st

from harness import aurelside as A
from harness import cases, ref4d, spacetimes
from harness import selftest as _st
from harness.common import Sub

PROPERTY = "C06"
RULE = ("Hypothesis draws an exact solution (families W with T:=(G+Lambda g)"
        "/kappa and any Lambda; exact vacuum F, KS, PP with vacuum flag on or "
        "off; FLRW with arbitrary lapse supplied as fluid variables), time, "
        "grid, fd_order, boundary, input form, Einstein's constant (8 pi, 1, "
        "2.5; matter scaled), the key requested first; also KS with the box "
        "inside the horizon and FLRW with scale factor 2e-3. A failure on "
        "the pair (h, h/2) is re-examined on (h/2, h/4). "
        "Constraints must converge to 0 "
        "and every dt-quantity to the exact t-derivative of the exact field "
        "(8th-order central difference in t of the closed-form fields, no "
        "aurel code) at order >= p-1.5 or reach the round-off floor. "
        "Non-trivial = shift, time-dependent non-unit lapse, non-diagonal "
        "gamma/K and matter or Lambda non-zero.")
ASSUMPTIONS = [
    "convergent regime; no-boundary errors measured after trimming "
    "3*mask_len coarse points per side",
    "exact t-derivatives carry an error <= 1e-9*scale (8th-order, step 2e-3)",
    "fluid-form inputs only for FLRW (fluid at rest w.r.t. the slicing)",
]


def selftest():
    _st.run()
    # the t-derivative oracle reproduces d_t gamma^{ij} = -g^ia g^jb d_t g_ab
    spec = _st._SPECS[0]
    m = spacetimes.build(spec)
    P = _st.points()
    d = ref4d.dt_fields(m, P[0], P[1], P[2], P[3])
    g, dg, _ = m(*P)
    s = ref4d.split31(g, dg)
    want = -np.einsum('ia...,jb...,ab...->ij...', s["gammaup"], s["gammaup"],
                      s["dtgamma"])
    assert np.max(np.abs(d["gammaup"] - want)) < 1e-9


@st.composite
def case_strategy(draw):
    c = draw(cases.spacetime_case(
        kinds=("Wp", "Wp", "Wp", "Wn", "F", "KS", "PP", "FLp", "FL", "Wt0",
               "KSin"),
        orders_p=(2, 4, 4, 6), orders_n=(2, 4), extra_n=(3, 5),
        np_range=(10, 12), trim=3))
    fam = c["spec"]["family"]
    c["form"] = draw(st.sampled_from(["components", "tensors"]))
    c["Lambda"] = 0.0
    c["vacuum"] = False
    if fam == "FL":
        c["matter"] = draw(st.sampled_from(["fluid", "fluid", "Tdown4"]))
        if draw(st.booleans()):
            c["Lambda"] = draw(cases.f(-0.3, 0.3))
    elif fam in spacetimes.VACUUM:
        m = draw(st.sampled_from(["vacuum", "none", "Tdown4"]))
        c["vacuum"] = m == "vacuum"
        c["matter"] = "none" if m == "vacuum" else m
        if m == "Tdown4" and draw(st.booleans()):
            c["Lambda"] = draw(cases.f(-0.3, 0.3))
    else:
        c["matter"] = "Tdown4"
        if draw(st.booleans()):
            c["Lambda"] = draw(cases.f(-0.5, 0.5))
    c["kw"] = dict(clear_cache_every_nbr_calc=10**6)
    c["first"] = draw(st.sampled_from(
        [None] + [d[0] for d in DT_KEYS] + ["Momentumup3", "Hamiltonian",
                                            "rho_n_fromHam",
                                            "fluxup3_n_fromMom"]))
    return c


def fluid_extra(fd, ex):
    """FLRW matter as fluid variables: rho0 (eps = 0), press; u = n."""
    rho = np.einsum('ab...,a...,b...->...', ex["Tdown"], ex["nup"],
                    ex["nup"])
    p = np.einsum('ij...,ij...->...', ex["gammaup"],
                  ex["Tdown"][1:, 1:]) / 3
    return dict(rho0=rho, press=p)


DT_KEYS = [("dtKtrace", "Ktrace", 2), ("dtphi_bssnok", "phi", 1),
           ("dtgammaup3", "gammaup", 1),
           ("dtgammadown3_bssnok", "gammadown3_bssnok", 1),
           ("dtAdown3_bssnok", "Adown3_bssnok", 2),
           ("dts_Gamma_bssnok", "s_Gamma_bssnok", 2)]
ZERO_KEYS = ["Hamiltonian", "Momentumup3", "Momentumdown3", "Momentumx",
             "Momentumy", "Momentumz", "Momentumdownx", "Momentumdowny",
             "Momentumdownz"]
# normalised forms: the ratio to an energy scale that itself has zeros, so
# pointwise convergence is not claimed; they must equal constraint / scale
NORM_KEYS = [("Hamiltonian_norm", "Hamiltonian", "Hamiltonian_Escale"),
             ("Momentumx_norm", "Momentumx", "Momentum_Escale"),
             ("Momentumy_norm", "Momentumy", "Momentum_Escale"),
             ("Momentumz_norm", "Momentumz", "Momentum_Escale"),
             ("Momentumdownx_norm", "Momentumdownx", "Momentum_Escale"),
             ("Momentumdowny_norm", "Momentumdowny", "Momentum_Escale"),
             ("Momentumdownz_norm", "Momentumdownz", "Momentum_Escale")]


def test_case(case, note):
    cc = dict(case)
    fluid = case["matter"] == "fluid"
    if fluid:
        cc["matter"] = "none"
    su = A.Setup(cc)
    p = su.order
    fam = case["spec"]["family"]
    res = []
    for lvl in (0, 1):
        rel, ex, fd, trim = su.build(lvl,
                                     extra=fluid_extra if fluid else None)
        out = {}
        if case.get("first"):
            # which key is computed first on the fresh instance varies
            try:
                out[case["first"]] = rel[case["first"]]
            except Exception as e:  # noqa: BLE001
                note.fail(f"{case['first']}:raises", dict(
                    error=f"{type(e).__name__}: {e}"))
        for k in ZERO_KEYS + [n[0] for n in NORM_KEYS] + \
                [d[0] for d in DT_KEYS] + \
                ["rho_n_fromHam", "fluxup3_n_fromMom", "rho_n", "fluxup3_n",
                 "Hamiltonian_Escale", "Momentum_Escale"]:
            try:
                out[k] = rel[k]
            except Exception as e:  # noqa: BLE001
                note.fail(f"{k}:raises", dict(
                    error=f"{type(e).__name__}: {e}"))
        dts = ref4d.dt_fields(su.metric, su.t, fd.x, fd.y, fd.z)
        res.append((out, ex, dts, fd, trim))
    (o1, ex1, d1, fd1, tr1), (o2, ex2, d2, fd2, tr2) = res
    fl = cases.nontrivial_flags(ex1)
    has_matter = float(np.max(np.abs(ex1["Tdown"]))) > 1e-6
    note.nt((fl["nshift"] >= 2 and fl["lapse"] and fl["dtlapse"]
             and fl["offdiag_gamma"] and (has_matter or case["Lambda"]))
            or (fam == "FL" and fl["lapse"] and fluid))
    note.cls(fam, case["boundary"], f"p={p}", f"mask={case.get('mask')}",
             f"matter={case['matter']}", f"vac={case['vacuum']}",
             "Lambda!=0" if case["Lambda"] else "Lambda=0",
             f"nshift={fl['nshift']}", *A.extra_classes(case, ex1))
    h2 = min(fd2.dx, fd2.dy, fd2.dz)
    S1 = float(np.max(np.abs(ex2["dg"]))) + 1e-30
    S2 = A.natural_scale(ex2)
    mg = []

    def cv(key, r1, r2, scale, nd, okey=None):
        k = okey or key
        if k not in o1 or k not in o2:
            return
        scale = max(scale, 1e-2)
        floor = 1e-9 * scale * A.cond(ex2) * max(1.0, (0.1 / h2) ** nd)
        e1, e2 = A.err(o1[k], r1, tr1), A.err(o2[k], r2, tr2)
        ok, q = A.order_ok(e1, e2, p, floor)
        if np.isfinite(q):
            mg.append(q - (p - max(1.5, 0.3 * p)))
        if not ok:
            note.fail(key, dict(e1=e1, e2=e2, q=q, scale=scale, floor=floor))
    for k in ZERO_KEYS:
        if k in o1 and k in o2:
            cv(k, 0 * o1[k], 0 * o2[k], S2, 2)
    for nk, ck, sk in NORM_KEYS:
        for o in (o1, o2):
            if nk in o and ck in o and sk in o:
                with np.errstate(all="ignore"):
                    want = np.where(o[sk] != 0, o[ck] / o[sk], 0.0)
                if not np.allclose(o[nk], want, rtol=1e-12, atol=1e-300):
                    note.fail(f"{nk}:not-constraint-over-scale",
                              dict(err=float(np.max(np.abs(o[nk] - want)))))
    # the named components are the components of the vectors (a quantity
    # that converges to zero would hide a permutation), and the covariant
    # form is the contravariant one lowered with the supplied metric
    for (o, ex) in ((o1, ex1), (o2, ex2)):
        for i, c in enumerate("xyz"):
            for vec, comp in (("Momentumup3", "Momentum" + c),
                              ("Momentumdown3", "Momentumdown" + c)):
                if vec in o and comp in o and not np.array_equal(
                        np.asarray(o[vec])[i], o[comp], equal_nan=True):
                    note.fail(f"{comp}:not-component-{i}-of-{vec}", {})
        if "Momentumup3" in o and "Momentumdown3" in o:
            low = np.einsum('ij...,j...->i...', ex["gamma"],
                            np.asarray(o["Momentumup3"]))
            sc = float(np.max(np.abs(low))) + 1e-300
            if not np.all(np.abs(low - np.asarray(o["Momentumdown3"]))
                          <= 1e-11 * sc * A.cond(ex)):
                note.fail("Momentumdown3:not-lowered-Momentumup3", dict(
                    err=float(np.max(np.abs(
                        low - np.asarray(o["Momentumdown3"])))), scale=sc))
    for key, fld, nd in DT_KEYS:
        cv(key, d1[fld], d2[fld], S2 if nd >= 2 else S1, nd)
    rho1 = np.einsum('ab...,a...,b...->...', ex1["Tdown"], ex1["nup"],
                     ex1["nup"])
    rho2 = np.einsum('ab...,a...,b...->...', ex2["Tdown"], ex2["nup"],
                     ex2["nup"])

    def flux(ex):
        g4u = np.zeros_like(ex["g"])
        g4u[1:, 1:] = ex["gammaup"]
        return -np.einsum('ab...,bc...,c...->a...', g4u, ex["Tdown"],
                          ex["nup"])[1:]
    cv("rho_n_fromHam", rho1, rho2, S2 / case.get("kappa", ref4d.KAPPA), 2)
    cv("fluxup3_n_fromMom", flux(ex1), flux(ex2), S2 / case.get("kappa", ref4d.KAPPA), 2)
    if not case["vacuum"]:
        # the matter projections themselves (pure algebra on exact T, or the
        # fluid -> T path for FLRW): round-off level
        for (o, ex, rr) in ((o1, ex1, rho1), (o2, ex2, rho2)):
            if "rho_n" in o:
                e = A.err(o["rho_n"], rr)
                if not e <= 1e-10 * max(1.0, float(np.max(np.abs(rr)))):
                    note.fail("rho_n:" + ("fluid" if fluid else "fromT"),
                              dict(err=e, scale=float(np.max(np.abs(rr)))))
            if "fluxup3_n" in o:
                e = A.err(o["fluxup3_n"], flux(ex))
                if not e <= 1e-10 * max(1.0, float(np.max(np.abs(rr)))):
                    note.fail("fluxup3_n:" + ("fluid" if fluid else "fromT"),
                              dict(err=e))
    if mg:
        mm = min(mg)
        note.cls("qmargin<0.3" if mm < 0.3 else "qmargin<0.75" if mm < 0.75
                 else "qmargin>=0.75")


KW = dict(clear_cache_every_nbr_calc=10**6)


def generic_cases():
    out = []
    for o, Lam, form, first in ((4, 0.3, "components", "dtKtrace"),
                                (2, -0.2, "tensors", "dtAdown3_bssnok"),
                                (6, 0.0, "components", "dtgammaup3"),
                                (4, 0.1, "components",
                                 "dtgammadown3_bssnok")):
        out.append(dict(cases.generic_W(o), Lambda=Lam, form=form,
                        matter="Tdown4", vacuum=False, trim=3, kw=KW,
                        first=first))
    out.append(dict(cases.generic_KS(4, trim=3), Lambda=0.0, form="components",
                    matter="none", vacuum=True, trim=3, kw=KW))
    out.append(dict(cases.generic_PP(2, trim=3), Lambda=0.0, form="tensors",
                    matter="none", vacuum=False, trim=3, kw=KW))
    out.append(dict(cases.generic_FL(4), Lambda=0.1, form="components",
                    matter="fluid", vacuum=False, trim=3, kw=KW))
    out.append(dict(cases.generic_FL(2, periodic=False, trim=3), Lambda=0.0,
                    form="tensors", matter="fluid", vacuum=False, trim=3, kw=KW))
    # Einstein's constant set to 1 (documented attribute), matter scaled
    out.append(dict(cases.generic_W(4), Lambda=0.2, form="components",
                    matter="Tdown4", vacuum=False, trim=3, kw=KW, kappa=1.0,
                    first="dts_Gamma_bssnok"))
    # memory limit below the size of the inputs (the memory stage of the
    # clean-up runs after every calculation), and a clean-up every other one
    out.append(dict(cases.generic_W(2), Lambda=0.1, form="components",
                    matter="Tdown4", vacuum=False, trim=3, kw=KW,
                    cache_kw=dict(memory_threshold_inGB=1e-7)))
    out.append(dict(cases.generic_W(2), Lambda=0.0, form="tensors",
                    matter="Tdown4", vacuum=False, trim=3, kw=KW,
                    cache_kw=dict(clear_cache_every_nbr_calc=2)))
    out.append(dict(cases.generic_FL_tiny(4), Lambda=0.0, form="components",
                    matter="fluid", vacuum=False, trim=3, kw=KW))
    out.append(dict(cases.generic_KSin(4, trim=3), Lambda=0.0,
                    form="components", matter="Tdown4", vacuum=False, trim=3,
                    kw=KW))
    return out


def subchecks(tier):
    q = tier == "quick"
    return [Sub("evolution", case_strategy(), A.asymptotic(test_case), 32 if q else 2000,
                generic=generic_cases(), shards=8 if q else 16, max_rounds=2,
                shrink_quick=False, pregenerate=True)]
