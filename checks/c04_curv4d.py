"""C04 - 4D connection and curvature from 3+1 data converge to the textbook
4D definitions.  DESIGN.md section 4, C04."""
import numpy as np
from hypothesis import strategies as st

from harness import aurelside as A
from harness import selftest as _st, spacetimes
from harness.common import Sub

PROPERTY = "C04"
RULE = ("Hypothesis draws an exact spacetime (families W periodic/non-periodic,"
        " F, KS far from the hole or with the box inside the horizon (shift "
        "larger than the lapse), PP, FLRW with scale factor O(1) or 2e-3; "
        "amplitude masks give zero-shift/unit-lapse/diagonal sub-classes; a "
        "W variant whose shift vanishes on the slice only), time, box, "
        "fd_order, boundary mode, Lambda, Einstein's constant, matter "
        "form (Tdown4 / vacuum flag / none), input form and the key "
        "requested first; aurel is run at "
        "two resolutions and every output key (per component block) must "
        "converge to the exact pointwise 4D value at order >= p-max(1.5, "
        "0.3p) or reach the round-off floor; a failure on the pair (h, h/2) "
        "is re-examined on (h/2, h/4) and reported only if it persists. Non-trivial = >= 2 non-zero shift components, "
        "non-unit time-dependent lapse, non-diagonal gamma and K.")
ASSUMPTIONS = [
    "convergent regime: k*h <= ~0.6 at the coarse level, amplitudes <= 0.3",
    "no-boundary mode: errors measured after trimming 3*mask_len coarse "
    "points per side (nested one-sided stencils legitimately lose an order)",
    "vacuum=True only drawn for exact vacuum families with Lambda=0",
]


def selftest():
    _st.run()

S = spacetimes.strategies()
f = S["f"]
dy = A.dyadic_strategies()

MASKS = {
    "generic": {},
    "zero_shift": dict(shift=False),
    "unit_lapse": dict(lapse=False),
    "diagonal": dict(offdiag=False),
    "one_shift": dict(shift_comps=(2,)),
    "lapse_only": dict(shift=False, diag=False, offdiag=False),
}


FIRST = [None, "st_Gamma_udd4", "st_Riemann_down4", "st_Riemann_uddd4",
         "st_Riemann_uudd4", "st_Ricci_down4", "st_RicciS", "Einsteindown4",
         "Kretschmann", "gup4"]


@st.composite
def case_strategy(draw, tier):
    kind = draw(st.sampled_from(
        ["Wp", "Wp", "Wp", "Wn", "F", "KS", "PP", "Wt0", "KSin", "FL"]))
    c = {}
    if kind in ("Wt0", "KSin", "FL"):
        # Wt0: shift zero on the slice only; KSin: box inside the horizon
        # (shift larger than the lapse, g_tt > 0); FL: homogeneous, scale
        # factor O(1) or tiny (determinants down to 1e-17)
        from harness import cases as _cases
        c = draw(_cases.spacetime_case(kinds=(kind,),
                                       orders_p=(2, 4, 4, 6, 8)))
        Lambda = draw(f(-0.5, 0.5)) if draw(st.booleans()) else 0.0
        c.update(Lambda=Lambda, matter="Tdown4", vacuum=False,
                 form=draw(st.sampled_from(["components", "tensors"])),
                 gdet_first=draw(st.booleans()),
                 first=draw(st.sampled_from(FIRST)))
        return c
    if kind == "Wp":
        order = draw(st.sampled_from([2, 4, 4, 6, 8]))
        N = [draw(st.integers(10, 13)) for _ in range(3)]
        h = [draw(dy(0.25, 0.45)) for _ in range(3)]
        L = [n * x for n, x in zip(N, h)]
        mname = draw(st.sampled_from(
            ["generic"] * 5 + list(MASKS)))
        spec = draw(S["wavy"](periodic_L=L, mask=MASKS[mname], kmax=1.0))
        c.update(boundary="periodic", N=N, h=h, mask=mname)
    else:
        order = draw(st.sampled_from([2, 4, 4]))
        m = order // 2
        N = [6 * m + draw(st.integers(3, 5)) for _ in range(3)]
        h = [draw(dy(0.08, 0.14)) for _ in range(3)]
        L = [(n - 1) * x for n, x in zip(N, h)]
        c.update(boundary="no boundary", N=N, h=h, mask="generic")
        if kind == "Wn":
            mname = draw(st.sampled_from(["generic"] * 4 + list(MASKS)))
            spec = draw(S["wavy"](mask=MASKS[mname], kmax=1.5))
            c["mask"] = mname
        elif kind == "F":
            spec = draw(S["flat"](kmax=1.5))
        elif kind == "KS":
            spec = draw(S["ks"]())
        else:
            spec = draw(S["pp"]())
    x0 = [draw(dy(-1.0, 0.0, 64)) for _ in range(3)] if kind != "KS" \
        else [-round(32 * l) / 64 for l in L]
    fam = spec["family"]
    if fam in spacetimes.VACUUM:
        matter = draw(st.sampled_from(["Tdown4", "vacuum", "none"]))
    else:
        matter = "Tdown4"
    Lambda = 0.0
    if matter == "Tdown4" and draw(st.booleans()):
        Lambda = draw(f(-0.5, 0.5))
    c.update(spec=spec, t=draw(f(-1, 1)), order=order, x0=x0,
             Lambda=Lambda, matter=matter if matter != "vacuum" else "none",
             vacuum=(matter == "vacuum"),
             form=draw(st.sampled_from(["components", "tensors"])),
             gdet_first=draw(st.booleans()), kind=kind,
             first=draw(st.sampled_from(FIRST)),
             cache_kw=draw(st.sampled_from(
                 [{}] * 5 + [dict(clear_cache_every_nbr_calc=2),
                             dict(memory_threshold_inGB=1e-7)])))
    return c


def generic_cases():
    """Fixed fully generic cases run first in every tier (DESIGN 2.8)."""
    Np, hp = [12, 10, 11], [0.34375, 0.359375, 0.40625]
    Lp = [n * x for n, x in zip(Np, hp)]
    k = lambda n: [2 * np.pi * a / b for a, b in zip(n, Lp)]  # noqa: E731
    W = dict(family="W", params=dict(modes=[
        dict(A=[[0.030, 0.020, -0.015, 0.018], [0.020, 0.025, 0.012, -0.016],
                [-0.015, 0.012, -0.028, 0.014], [0.018, -0.016, 0.014, 0.022]],
             k=[0.7] + k([1, -1, 1]), phi=0.4),
        dict(A=[[-0.020, 0.012, 0.010, -0.011], [0.012, 0.015, 0.020, 0.009],
                [0.010, 0.020, 0.018, -0.010], [-0.011, 0.009, -0.010, 0.03]],
             k=[-0.5] + k([0, 1, -1]), phi=2.0)]))
    base = dict(spec=W, t=0.3, x0=[-0.375, -0.75, -0.25], h=hp, N=Np,
                boundary="periodic", mask="generic", matter="Tdown4",
                vacuum=False, gdet_first=False, kind="Wp")
    cases = []
    for order, Lam, form in ((4, 0.3, "components"), (2, 0.0, "tensors"),
                             (6, -0.2, "components")):
        cases.append(dict(base, order=order, Lambda=Lam, form=form))
    ks = dict(family="KS", params=dict(M=0.2, boost=[0.2, -0.1, 0.15],
                                       rot=[0.3, -0.5, 0.2],
                                       offset=[0.0, 3.5, 0.4, -0.3]))
    cases.append(dict(spec=ks, t=0.2, x0=[-0.8125, -0.75, -0.875],
                      h=[0.109375, 0.109375, 0.109375], N=[16, 15, 17],
                      boundary="no boundary", order=4, mask="generic",
                      matter="none", vacuum=True, Lambda=0.0,
                      form="components", gdet_first=True, kind="KS"))
    cases.append(dict(cases[-1], vacuum=False, form="tensors"))
    from harness import cases as _cases
    for form in ("components", "tensors"):
        cases.append(dict(_cases.generic_Wt0(4), Lambda=0.25, form=form,
                          matter="Tdown4", vacuum=False, gdet_first=False,
                          first="st_Gamma_udd4"))
    cases.append(dict(_cases.generic_KSin(4), Lambda=0.0, form="components",
                      matter="none", vacuum=False, gdet_first=False))
    # memory limit below the size of the inputs / clean-up every other
    # calculation (cache settings never change a value)
    cases.append(dict(base, order=2, Lambda=0.2, form="components",
                      cache_kw=dict(memory_threshold_inGB=1e-7)))
    cases.append(dict(base, order=2, Lambda=0.0, form="tensors",
                      cache_kw=dict(clear_cache_every_nbr_calc=2)))
    cases.append(dict(_cases.generic_FL_tiny(4), Lambda=0.0, form="components",
                      matter="Tdown4", vacuum=False, gdet_first=False))
    cases.append(dict(_cases.generic_FL_tiny(2), Lambda=0.1, form="tensors",
                      matter="Tdown4", vacuum=False, gdet_first=True))
    return cases


BLOCKS_G = {"ttt": (0, 0, 0), "tti": (0, 0, slice(1, 4)),
            "tij": (0, slice(1, 4), slice(1, 4)),
            "ltt": (slice(1, 4), 0, 0),
            "lmt": (slice(1, 4), slice(1, 4), 0),
            "lij": (slice(1, 4), slice(1, 4), slice(1, 4))}
s3 = slice(1, 4)
BLOCKS_R = {"ssss": (s3, s3, s3, s3), "ssst": (s3, s3, s3, 0),
            "stst": (s3, 0, s3, 0), "sstt": (s3, s3, 0, 0),
            "tttt": (0, 0, 0, 0), "ttts": (0, 0, 0, s3)}


def test_case(case, note):
    su = A.Setup(case)
    p = su.order
    fam = case["spec"]["family"]
    ms = case.get("mask", "generic")
    note.cls(fam, case["boundary"], f"p={p}", f"mask={ms}",
             f"matter={case['matter']}", f"vac={case['vacuum']}",
             case["form"], "Lambda!=0" if case["Lambda"] else "Lambda=0")
    results = []
    for lvl in (0, 1):
        rel, ex, fd, trim = su.build(lvl)
        out = {}
        if case.get("first"):
            # the key computed first on the fresh instance (nothing cached
            # yet) varies from case to case
            out[case["first"]] = rel[case["first"]]
        if case.get("gdet_first"):
            out["gdet"] = rel["gdet"]          # alpha^2 gamma branch
            out["gdown4"] = rel["gdown4"]
        else:
            out["gdown4"] = rel["gdown4"]
            out["gdet"] = rel["gdet"]          # determinant4 branch
        out["gup4"] = rel["gup4"]
        for k in ("st_Gamma_udd4", "st_Riemann_down4", "st_Riemann_uddd4",
                  "st_Riemann_uudd4", "st_Ricci_down4", "st_RicciS",
                  "Einsteindown4", "Kretschmann"):
            out[k] = rel[k]
        results.append((out, ex, fd, trim))
        del rel
    (o1, ex1, fd1, tr1), (o2, ex2, fd2, tr2) = results
    # non-triviality
    b = ex1["betaup"]
    nshift = sum(float(np.max(np.abs(b[i]))) > 1e-3 for i in range(3))
    offd = max(float(np.max(np.abs(ex1["gamma"][i, j])))
               for i, j in ((0, 1), (0, 2), (1, 2)))
    offk = max(float(np.max(np.abs(ex1["K"][i, j])))
               for i, j in ((0, 1), (0, 2), (1, 2)))
    lapse = float(np.max(np.abs(ex1["alpha"] - 1))) > 1e-3 and \
        float(np.max(np.abs(ex1["dtalpha"]))) > 1e-4
    note.nt(nshift >= 2 and lapse and offd > 1e-3 and offk > 1e-4)
    note.cls(f"nshift={nshift}")
    note.cls(*A.extra_classes(case, ex1))

    h2 = min(fd2.dx, fd2.dy, fd2.dz)
    S1 = float(np.max(np.abs(ex2["dg"]))) + 1e-30
    S2 = A.natural_scale(ex2)

    # algebraic keys: round-off rule at both levels
    for (o, ex) in ((o1, ex1), (o2, ex2)):
        for k, ref in (("gdown4", ex["g"]), ("gup4", ex["gup"]),
                       ("gdet", ex["gdet"])):
            e = A.err(o[k], ref)
            # relative to the size of the exact field (metrics with tiny or
            # huge components are legitimate inputs)
            if not e <= 1e-11 * float(np.max(np.abs(ref))):
                br = ("a2gamma" if case.get("gdet_first") else "det4") \
                    if k == "gdet" else ""
                note.fail(f"{k}:{br}value", dict(err=e))

    margins = []

    def conv(key, blocks, ref1, ref2, scale, nd):
        scale = max(scale, 1e-2)  # degenerate data: pure round-off
        floor = 1e-9 * scale * A.cond(ex2) * max(1.0, (0.1 / h2) ** nd)
        a1, a2 = o1[key], o2[key]
        if blocks is None:
            blocks = {"": ()}
        for bn, ix in blocks.items():
            x1 = a1[ix] if ix != () else a1
            x2 = a2[ix] if ix != () else a2
            r1 = ref1[ix] if ix != () else ref1
            r2 = ref2[ix] if ix != () else ref2
            e1, e2 = A.err(x1, r1, tr1), A.err(x2, r2, tr2)
            ok, q = A.order_ok(e1, e2, p, floor)
            if np.isfinite(q):
                margins.append(q - (p - max(1.5, 0.3 * p)))
            if not ok:
                note.fail(f"{key}:{bn}", dict(e1=e1, e2=e2, q=q,
                                              scale=scale, floor=floor))

    conv("st_Gamma_udd4", BLOCKS_G, ex1["Gu"], ex2["Gu"], S1, 1)
    conv("st_Riemann_down4", BLOCKS_R, ex1["R"], ex2["R"], S2, 2)
    conv("st_Riemann_uddd4", None, ex1["Ruddd"], ex2["Ruddd"], S2, 2)
    conv("st_Riemann_uudd4", None, ex1["Ruudd"], ex2["Ruudd"], S2, 2)
    br = "fromT" if case["matter"] == "Tdown4" else "contraction"
    conv("st_Ricci_down4", {br: ()}, ex1["Ric"], ex2["Ric"], S2, 2)
    conv("st_RicciS", {br: ()}, ex1["RS"], ex2["RS"], S2, 2)
    conv("Einsteindown4", {br: ()}, ex1["Ein"], ex2["Ein"], S2, 2)
    conv("Kretschmann", None, ex1["Kr"], ex2["Kr"], S2 * S2, 2)

    if margins:
        mm = min(margins)
        note.cls("qmargin<0.3" if mm < 0.3 else "qmargin<0.75" if mm < 0.75
                 else "qmargin>=0.75")
    # algebraic symmetries of the assembled Riemann. The ssss block is the
    # finite-difference Riemann of gamma, whose symmetries only hold up to
    # truncation error, so the defect must converge (or be at round-off).
    R1, R2 = o1["st_Riemann_down4"], o2["st_Riemann_down4"]
    floor = 1e-9 * max(S2, 1e-2) * A.cond(ex2) * max(1.0, (0.1 / h2) ** 2)
    for nm, es in (("antisym12", 'abcd...->bacd...'),
                   ("antisym34", 'abcd...->abdc...'),
                   ("pairsym", 'abcd...->cdab...')):
        sg = 1.0 if nm == "pairsym" else -1.0
        e1 = A.err(R1, sg * np.einsum(es, R1), tr1)
        e2 = A.err(R2, sg * np.einsum(es, R2), tr2)
        ok, q = A.order_ok(e1, e2, p, floor)
        if not ok:
            note.fail(f"st_Riemann_down4:sym:{nm}", dict(e1=e1, e2=e2, q=q))
    cyc1 = (R1 + np.einsum('abcd...->acdb...', R1)
            + np.einsum('abcd...->adbc...', R1))
    cyc2 = (R2 + np.einsum('abcd...->acdb...', R2)
            + np.einsum('abcd...->adbc...', R2))
    e1, e2 = A.err(cyc1, 0 * cyc1, tr1), A.err(cyc2, 0 * cyc2, tr2)
    ok, q = A.order_ok(e1, e2, p, floor)
    if not ok:
        note.fail("st_Riemann_down4:sym:bianchi", dict(e1=e1, e2=e2, q=q))


def subchecks(tier):
    q = tier == "quick"
    return [Sub("curvature", case_strategy(tier), A.asymptotic(test_case),
                40 if q else 2000, generic=generic_cases(),
                shards=8 if q else 16, max_rounds=2, shrink_quick=False, pregenerate=True)]
