#!/venv/bin/python
"""Regenerate the generated tables of DESIGN.md (findings, catch matrix)."""
import io
import json
import os
import re
import subprocess
import sys

VERIF = os.path.dirname(os.path.dirname(os.path.abspath(__file__)))


def findings():
    f = json.load(open(os.path.join(VERIF, "known_findings.json")))["findings"]
    out = ["| property | status | commit | signature | what failed |",
           "|---|---|---|---|---|"]
    for x in sorted(f, key=lambda x: x["property"]):
        w = x["what"]
        w = re.sub(r"^fixed: property=\S+ ", "", w)
        w = re.sub(r"^(\(.*?\) )?[0-9a-f]{7} ", "", w)
        out.append(f"| {x['property']} | {x['status']} | "
                   f"{x.get('commit', '-')} | "
                   f"`{x['signature'].split('/', 1)[1]}` | "
                   f"{w.replace('|', '/')} |")
    return "\n".join(out)


def matrix():
    r = subprocess.run([os.path.join(VERIF, "tools", "catchmatrix.py")],
                       capture_output=True, text=True)
    return r.stdout.strip()


def main():
    p = os.path.join(VERIF, "DESIGN.md")
    s = open(p).read()
    for tag, gen in (("FINDINGS", findings), ("MATRIX", matrix)):
        a, b = f"<!-- {tag}-BEGIN -->", f"<!-- {tag}-END -->"
        i, j = s.index(a) + len(a), s.index(b)
        s = s[:i] + "\n" + gen() + "\n" + s[j:]
    open(p, "w").write(s)
    print("DESIGN.md tables regenerated")


if __name__ == "__main__":
    main()
