#!/venv/bin/python
"""Sensitivity helper (DESIGN 2.9): run a check against a scratch copy of
/repo/src with one textual replacement applied.

    tools/mut.py C07 finitedifference.py 'OLD' 'NEW' [--only sub] [--tier quick]

The copy lives in a fresh temp dir outside /repo and /verif and is removed
afterwards.  Exit status is the check's (1 expected = mutant killed).
Evidence written during a mutant run is restored afterwards.
"""
import os
import shutil
import subprocess
import sys
import tempfile

VERIF = os.path.dirname(os.path.dirname(os.path.abspath(__file__)))


def main():
    prop, rel, old, new = sys.argv[1:5]
    rest = sys.argv[5:]
    tmp = tempfile.mkdtemp(prefix="aurelmut-")
    try:
        shutil.copytree("/repo/src", os.path.join(tmp, "src"))
        p = os.path.join(tmp, "src", "aurel", rel)
        s = open(p).read()
        if s.count(old) < 1:
            print("MUT: pattern not found")
            return 3
        s = s.replace(old, new, 1)
        open(p, "w").write(s)
        ev = os.path.join(VERIF, "evidence", f"{prop}.json")
        bak = None
        if os.path.exists(ev):
            bak = open(ev).read()
        env = dict(os.environ, VERIF_REPO=tmp, VERIF_REEXEC="0")
        env.pop("PYTHONHASHSEED", None)
        r = subprocess.run([os.path.join(VERIF, "vcheck"), prop] + rest,
                           env=env)
        if bak is not None:
            open(ev, "w").write(bak)
        # replays produced by mutants are not kept
        print("MUT: exit", r.returncode,
              "(killed)" if r.returncode == 1 else "(SURVIVED or error)")
        return r.returncode
    finally:
        shutil.rmtree(tmp, ignore_errors=True)


if __name__ == "__main__":
    sys.exit(main())
