#!/venv/bin/python
"""Confirm a seeded change and run checks against it.

    tools/seedrun.py <dir with patch.diff, demo.py[, meta.json]> <seed-id>
                     [--props C01,C02] [--tier quick] [--skip-tests]

Steps (all in a scratch git worktree of /repo outside /repo and /verif, which
is removed afterwards; /repo itself is never modified):
 1. demo on the unchanged worktree must exit 0
 2. git apply patch.diff
 3. pinned test suite: 510 passed, the 2 baseline failures only
 4. demo must exit non-zero
 5. run ./vcheck <prop> for each requested property with VERIF_REPO=worktree
The seeded change is kept as /verif/seeded/<seed-id>/{patch.diff, demo.py,
meta.json}; meta.json records what was run and which checks caught it.
"""
import argparse
import json
import os
import re
import shutil
import subprocess
import sys
import tempfile

VERIF = os.path.dirname(os.path.dirname(os.path.abspath(__file__)))
BASE_FAIL = {"test_read_ET_data_with_checkpoints",
             "test_read_ET_checkpoints_across_restarts"}


def sh(cmd, **kw):
    return subprocess.run(cmd, shell=isinstance(cmd, str),
                          capture_output=True, text=True, **kw)


def main():
    ap = argparse.ArgumentParser()
    ap.add_argument("src")
    ap.add_argument("sid")
    ap.add_argument("--props", default="")
    ap.add_argument("--tier", default="quick")
    ap.add_argument("--skip-tests", action="store_true")
    ap.add_argument("--seed", default="1")
    ap.add_argument("--no-record", action="store_true",
                    help="do not touch seeded/<id>/meta.json")
    a = ap.parse_args()
    src = os.path.abspath(a.src)
    patch = os.path.join(src, "patch.diff")
    demo = os.path.join(src, "demo.py")
    meta = {}
    if os.path.exists(os.path.join(src, "meta.json")):
        try:
            meta = json.load(open(os.path.join(src, "meta.json")))
        except Exception:  # noqa: BLE001
            meta = {}
    props = [p for p in a.props.split(",") if p] or \
        [str(meta.get("property", a.sid[:3]))[:3]]
    tmp = tempfile.mkdtemp(prefix="aurelseed-")
    wt = os.path.join(tmp, "wt")
    ran = []
    res = dict(confirmed=False)
    try:
        r = sh(["git", "-C", "/repo", "worktree", "add", "--detach", "-q",
                wt, "HEAD"])
        if r.returncode:
            print("worktree failed", r.stderr)
            return 2
        env = dict(os.environ, PYTHONPATH=os.path.join(wt, "src"),
                   PYTHONHASHSEED="0")
        env.pop("VERIF_REEXEC", None)

        def rundemo():
            # the agents wrote demos against /tmp/seed/CXX paths: rewrite
            txt = open(demo).read()
            txt = re.sub(r"/tmp/seed/C\d\d(?![_\d])", wt, txt)
            p = os.path.join(tmp, "demo.py")
            open(p, "w").write(txt)
            return sh(["/venv/bin/python", p], env=env, cwd=tmp,
                      timeout=900)
        r0 = rundemo()
        ran.append(f"demo on unchanged tree: exit {r0.returncode}")
        r = sh(["git", "-C", wt, "apply", patch])
        if r.returncode:
            print("patch does not apply:", r.stderr)
            res["error"] = "patch does not apply: " + r.stderr[:300]
            return finish(a, src, meta, res, ran, props, {})
        ran.append("git apply patch.diff: ok")
        tests_ok = None
        if not a.skip_tests:
            r = sh("/venv/bin/python -m pytest -q -p no:cacheprovider "
                   "--timeout=900 -q 2>&1 | tail -8", cwd=wt, env=env)
            tail = r.stdout
            m = re.search(r"(\d+) passed", tail)
            f = re.search(r"(\d+) failed", tail)
            failed = set(re.findall(r"::(test_\w+)", tail))
            tests_ok = bool(m and int(m.group(1)) == 510
                            and (not f or int(f.group(1)) == 2)
                            and failed <= BASE_FAIL)
            ran.append(f"pytest with change: {tail.strip().splitlines()[-1]}"
                       f" -> {'as baseline' if tests_ok else 'DIFFERS'}")
        r1 = rundemo()
        ran.append(f"demo with change: exit {r1.returncode}")
        res["confirmed"] = (r0.returncode == 0 and r1.returncode != 0
                            and tests_ok is not False)
        res["demo_unchanged_exit"] = r0.returncode
        res["demo_changed_exit"] = r1.returncode
        res["demo_changed_tail"] = (r1.stdout + r1.stderr)[-600:]
        res["tests_as_baseline"] = tests_ok
        caught = {}
        for p in props:
            ev = os.path.join(VERIF, "evidence", f"{p}.json")
            bak = open(ev).read() if os.path.exists(ev) else None
            e2 = dict(os.environ, VERIF_REPO=wt, VERIF_SEED=a.seed,
                      VERIF_EVIDENCE_DIR=os.path.join(tmp, "evidence"))
            e2.pop("VERIF_REEXEC", None)
            e2.pop("PYTHONHASHSEED", None)
            r = sh([os.path.join(VERIF, "vcheck"), p, "--tier", a.tier],
                   env=e2, cwd=VERIF)
            sigs = re.findall(r"failing: (\S+):", r.stdout)
            caught[p] = dict(exit=r.returncode, signatures=sigs[:12])
            ran.append(f"./vcheck {p} --tier {a.tier} (VERIF_SEED={a.seed}) "
                       f"against the changed tree: exit {r.returncode}")
            if bak is not None:
                open(ev, "w").write(bak)
            rp = os.path.join(VERIF, "replays", p)
            # replays of seeded runs are not kept
            if os.path.isdir(rp) and not os.listdir(rp):
                os.rmdir(rp)
        return finish(a, src, meta, res, ran, props, caught)
    finally:
        sh(["git", "-C", "/repo", "worktree", "remove", "--force", wt])
        shutil.rmtree(tmp, ignore_errors=True)


def finish(a, src, meta, res, ran, props, caught):
    out = os.path.join(VERIF, "seeded", a.sid)
    os.makedirs(out, exist_ok=True)
    for f in ("patch.diff", "demo.py"):
        if os.path.exists(os.path.join(src, f)) and \
                os.path.abspath(src) != os.path.abspath(out):
            shutil.copy(os.path.join(src, f), os.path.join(out, f))
    old = {}
    mp = os.path.join(out, "meta.json")
    if os.path.exists(mp):
        try:
            old = json.load(open(mp))
        except Exception:  # noqa: BLE001
            old = {}
    m = dict(old)
    if a.skip_tests and old.get("confirmation", {}).get("tests_as_baseline"):
        # keep the full confirmation record (suite run included) of the first
        # evaluation; this run only adds check results
        res = dict(old["confirmation"])
        keep = [l for l in old.get("what_i_ran", [])
                if not l.startswith("./vcheck")]
        ran = keep + [l for l in ran if l.startswith("./vcheck")]
    m.update(dict(
        id=a.sid,
        property=meta.get("property", old.get("property", props[0])),
        title=meta.get("title", old.get("title")),
        what_changed=meta.get("what_changed", old.get("what_changed")),
        why_it_breaks_property=meta.get("why_it_breaks_property",
                                        old.get("why_it_breaks_property")),
        needs_to_manifest=meta.get("needs_to_manifest",
                                   old.get("needs_to_manifest")),
        confirmed=res.get("confirmed"),
        confirmation=res,
        what_i_ran=ran,
        base_commit=subprocess.run(
            ["git", "-C", "/repo", "rev-parse", "--short", "HEAD"],
            capture_output=True, text=True).stdout.strip()))
    cb = dict(old.get("caught_by", {}))
    for p, c in caught.items():
        cb[f"{p}:{a.tier}"] = c
    m["caught_by"] = cb
    if not a.no_record:
        json.dump(m, open(mp, "w"), indent=1)
    print(json.dumps(dict(id=a.sid, confirmed=res.get("confirmed"),
                          caught={k: v["exit"] for k, v in caught.items()},
                          sigs={k: v["signatures"][:4]
                                for k, v in caught.items()}), indent=1))
    for line in ran:
        print("  ", line)
    return 0


if __name__ == "__main__":
    sys.exit(main())
