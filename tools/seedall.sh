#!/bin/sh
# Re-run every seeded change against the current checks (own property plus
# the cross-checks listed below). Results replace caught_by in meta.json.
cd /verif
for d in ${SEEDS:-seeded/*/}; do
  x=$(basename $d)
  p=$(echo $x | cut -c1-3)
  props=$p
  case $x in
    C12_a) props="C12,C13";; C11_c|C11_d) props="C11,C12";;
    C19_c) props="C19,C01";; C09_d) props="C09,C08";;
    C08_d) props="C08,C10";; C01_b) props="C01,C02";; C02_c) props="C02,C01";;
    C19_e) props="C19,C07";; C19_f) props="C19,C03";; C14_f) props="C14,C03";;
    C12_e) props="C12,C11";; C02_f) props="C02,C13";; C14_e) props="C14,C02";;
    C16_e) props="C16,C02";; C16_f) props="C16,C14";; C09_f) props="C09,C10";;
    C04_g|C06_g) props="$p,C03";; C04_h|C05_h|C06_h) props="$p,C07";;
    C19_g) props="C19,C02";; C11_g) props="C11,C12";; C16_g|C16_h) props="C16,C20";;
    C10_h) props="C10,C01";;
  esac
  if [ -z "$SEEDALL_SEED" ]; then
  /venv/bin/python - "$d/meta.json" <<'PY'
import json,sys
p=sys.argv[1]; m=json.load(open(p)); m["caught_by"]={}; json.dump(m,open(p,"w"),indent=1)
PY
  tools/seedrun.py $d $x --skip-tests --props $props > /tmp/seedall_$x.log 2>&1
  else
  # another seed: a robustness sample, meta.json is left alone
  tools/seedrun.py $d $x --skip-tests --no-record --seed $SEEDALL_SEED --props $props > /tmp/seedall_$x.log 2>&1
  fi
  echo "$(grep -E '"C[0-9]+": [0-9]' /tmp/seedall_$x.log | tr -d '\n') <- $x"
done
