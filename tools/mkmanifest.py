#!/venv/bin/python
"""Regenerate MANIFEST.json from the table below and validate it."""
import glob
import json
import os

VERIF = os.path.dirname(os.path.dirname(os.path.abspath(__file__)))

COMMON_NOTE = ("Trusted base: CPython/numpy/scipy/h5py/sympy/Hypothesis as "
               "installed in /venv; the harness oracles in /verif/harness "
               "(self-tested at start-up where stated). The code under test "
               "is /repo/src/aurel imported in-process (PYTHONPATH), nothing "
               "is modelled. Exploration only: absence of violations is not "
               "proof.")

CHECKS = {
    "C07": dict(
        technique="exhaustive enumeration of the finite configuration space "
                  "(order x boundary x N x axis) with exact rational "
                  "Fornberg-weight oracle + Hypothesis-generated fields with "
                  "differential (axis-exchange, component-wise, explicit "
                  "wrap/mirror extension) and polynomial-exactness oracles",
        text="Every row of the linear operator is extracted with unit "
             "impulses and compared with exact p-th order weights for every "
             "supported configuration up to N=24 (quick) / 64 (thorough); by "
             "linearity this decides the property for all real fields on "
             "those grids. Generated non-cubic grids cover axis exchange and "
             "tensor variants bit-for-bit.",
        design="4/C07"),
}

CHECKS["C04"] = dict(
    technique="Hypothesis-generated exact spacetimes (closed-form g, dg, ddg) "
              "-> two-resolution convergence-order oracle against an "
              "independent pointwise 4D reference, per output key and "
              "component block",
    text="Random smooth spacetimes with generic lapse, shift and "
         "non-diagonal metric (families W, F, KS, PP) are fed to AurelCore in "
         "both input forms; every C04 key must converge to the exact 4D "
         "value at the scheme's order (both st_Ricci branches, both gdet "
         "branches, Riemann symmetries). Exploration of inputs and "
         "configurations; the oracle is self-tested at start-up.",
    design="4/C04")
CHECKS["C05"] = dict(
    technique="Hypothesis-generated curved metrics/shifts and smooth test "
              "tensor fields with analytic derivatives -> two-resolution "
              "convergence-order oracle against exact Christoffel-based "
              "values, plus metamorphic identities and error-path checks",
    text="Every supported indexing of s_covd, s_div, s_curl, st_covd, "
         "Lie_beta (with density weights) and the spatial curvature keys "
         "(direct and BSSNOK-split) are compared with exact values at two "
         "resolutions; metric compatibility, raise/lower commutation and "
         "Lie_beta gamma = 2 D_(i beta_j) must converge to zero.",
    design="4/C05")

CHECKS["C06"] = dict(
    technique="Hypothesis-generated exact solutions (any gauge, Lambda, "
              "matter as T or FLRW fluid variables, vacuum flag) -> "
              "two-resolution convergence-order oracle: constraints -> 0, "
              "dt-quantities -> exact t-derivative of the closed-form fields",
    text="Hamiltonian/momentum constraints (all offered forms), the "
         "matter-from-constraint projections and the six dt-quantities are "
         "evaluated on exact solutions at two resolutions; normalised "
         "constraints must equal constraint/scale exactly.",
    design="4/C06")

CHECKS["C19"] = dict(
    technique="Hypothesis-generated exact spacetimes with default fluid "
              "state -> two-resolution convergence-order oracle against "
              "exact nabla_mu n_nu, -K, -A_ij, D_i ln(alpha) from the 4D "
              "reference",
    text="Every kinematic key (4-velocity, its full 4x4 gradient by block, "
         "acceleration incl. its component along n, expansion, shear incl. "
         "time components, vorticity, s_RicciS_u on vacuum data) is compared "
         "at two resolutions on spacetimes with time-dependent lapse and "
         "generic shift.",
    design="4/C19")
CHECKS["C20"] = dict(
    technique="Hypothesis-generated (s,l,m), quadrature grids, band-limited "
              "coefficient sets, interpolation grids/targets and injected "
              "Psi4 modes; oracles: independent Wigner-d implementation "
              "(self-tested against Goldberg Eq 3.1 in 40-digit arithmetic "
              "and scipy), exact Gauss-Legendre quadrature, round trips, "
              "three-resolution convergence for Psi4_lm",
    text="Orthonormality, values/phase, coefficient/reconstruct round trips, "
         "interpolation exactness and bounds refusal, and recovery of an "
         "injected pure harmonic by Psi4_lm with converging error.",
    design="4/C20")

CHECKS["C10"] = dict(
    technique="Hypothesis-generated exact vacuum / non-vacuum spacetimes, "
              "cache states, tetrad choices and fluid velocities -> "
              "two-resolution convergence oracle against exact Weyl/E/B, "
              "algebraic-symmetry and Petrov-type relations, metamorphic "
              "invariance of I, J between orthonormal tetrads",
    text="Weyl tensor in both cache states vs the exact Weyl tensor and vs "
         "each other, its symmetries and trace-freeness, E/B parts vs exact "
         "contractions, tetrad orthonormality, 16 Re I = Kretschmann and "
         "I^3 = 27 J^2 on vacuum data, I/J invariance under a change of "
         "fluid velocity, a harness-rotated tetrad and (alpha=1, beta=0) "
         "quasi-Kinnersley vs Eulerian frames.",
    design="4/C10")
CHECKS["C13"] = dict(
    technique="Hypothesis-generated save/read operation histories "
              "(st.lists of operations interpreted against a dict model keyed "
              "by (layout, it, var, rl)); exact-equality round-trip oracle, "
              "argument-immutability digests; oracle self-tested against an "
              "in-memory reference and seven injected bugs",
    text="After any sequence of saves (subsets, permutations, overwrites, "
         "None entries, tensor/scalar variables, levels, with/without "
         "trailing slash, ET-style layout) every read returns exactly the "
         "most recently saved array for each (iteration, variable, level), "
         "None otherwise, with one entry per requested iteration and "
         "untouched caller arguments.",
    design="4/C13")

CHECKS["C16"] = dict(
    technique="Hypothesis-generated grid parameters (biased towards "
              "non-representable spacings) with exact-rational axis oracle, "
              "textbook spherical-conversion oracle with conditioning-aware "
              "tolerance, index-encoded arrays for the trimming helpers, "
              "and consumer shape checks",
    text="Axis length/location/extent, derived array shapes, "
         "Cartesian<->spherical round trips, cutoffmask/cutoffmask2/excision "
         "and every consumer that mixes fd.x with param-shaped data are "
         "checked over thousands of generated parameter sets, ~25% of which "
         "are ones where a floating-point arange miscounts.",
    design="4/C16")

CHECKS["C01"] = dict(
    technique="Hypothesis rule-based state machine over request histories "
              "and cache settings; differential oracle against a fresh "
              "never-evicting instance per request with a measured "
              "discretisation allowance (10*E_k) and higher-order replay "
              "adjudication; designed histories for every branch guard",
    text="Every value handed out during a generated history (any of 161 "
         "keys, helper calls, re-accesses; clean-up period 1..30, memory "
         "threshold down to half a scalar field) is compared with the value "
         "of a fresh instance for that single request on non-trivial exact "
         "spacetimes, so stale, evicted-and-defaulted, aliased, in-place "
         "modified or wrong-branch values show at O(scale).",
    design="4/C01")
CHECKS["C08"] = dict(
    technique="Hypothesis-generated pointwise geometries (badly scaled, "
              "strongly non-diagonal SPD metrics, arbitrary symmetric 4x4, "
              "all scalar/array/dtype/broadcast operand combinations); "
              "oracles numpy.linalg and algebraic identities with a "
              "condition-number-scaled round-off rule",
    text="inverse/determinant closed forms, 3+1 <-> 4D metric consistency "
         "(both gdet branches), unit normal, raised/lowered pairs, trace-free "
         "and conformal quantities, populate_4Riemann symmetries, projector "
         "helpers, Levi-Civita tensors, s_to_st and safe_division are "
         "checked to round-off on thousands of generated inputs.",
    design="4/C08")
CHECKS["C09"] = dict(
    technique="Hypothesis-generated lapse/shift/metric x perfect-fluid "
              "states (|v|<1 by construction, six documented input "
              "combinations, or T supplied directly); oracle independent "
              "textbook closed forms with the round-off rule; oracle "
              "self-test (closed forms == projections of textbook T)",
    text="4-velocity normalisation in both index positions, T_mu_nu = rho "
         "u_mu u_nu + p h_mu_nu with lowered indices, Eulerian projections, "
         "traces, conserved densities and alternative derivations agree to "
         "round-off for generic alpha != 1, beta != 0, |v| > 0.1.",
    design="4/C09")
CHECKS["C14"] = dict(
    technique="Hypothesis-generated input tables (shuffled steps from exact "
              "spacetimes, any temporal key, scalar/tensor columns), vars / "
              "custom functions / estimates and random splits into successive "
              "over_time calls; oracle: fresh per-step AurelCore recomputation "
              "(bit-for-bit), own numpy estimators, argument digests",
    text="Per-step independence, estimator columns, row ordering with all "
         "columns permuted together, input preservation and split == one-call "
         "are checked on tables whose steps all differ. One recorded finding "
         "(dtconserved ragged tuple) is reported as KNOWN-FINDING.",
    design="4/C14")
CHECKS["C18"] = dict(
    technique="Hypothesis-generated simulation directories and call "
              "histories (st.lists of operations against a model), name / "
              "dataset-key / .par grammars with round-trip oracles, set "
              "semantics for merged iteration ranges, incremental-vs-fresh "
              "differential",
    text="iterations()/read_iterations()/get_content() results equal "
         "generator ground truth, the catalogue files parse back to the "
         "in-memory structures, repeated and incremental calls equal a fresh "
         "scan, 'overall' denotes exactly the union of per-restart iteration "
         "sets, names with format words are handled, key/file-name parsing "
         "inverts the naming scheme, .par values have the documented types.",
    design="4/C18")

CHECKS["C02"] = dict(
    technique="Hypothesis rule-based state machine over request histories "
              "with byte-level digests of every array ever supplied or "
              "handed out (read-only inputs in half the histories); plus the "
              "over_time and save/read generators asserting argument "
              "immutability",
    text="After every step of a generated history all arrays reachable from "
         "the inputs or returned so far (incl. evicted ones and bases of "
         "views) are re-hashed; over_time per-step arrays and save/read "
         "argument objects are compared with deep copies after each call.",
    design="4/C02")
CHECKS["C03"] = dict(
    technique="Hypothesis rule-based state machine with aggressive cache "
              "settings and var_importance overrides; history invariants on "
              "data / last_accessed / var_importance / calculation_count "
              "after every request, differential vs fresh for algebraic "
              "keys; get_size vs recursive reference on generated nested "
              "structures",
    text="Frozen inputs (freeze_data and load_data paths) stay cached, "
         "identical and frozen under every generated history and cache "
         "setting incl. thresholds below the size of the inputs; clean-up "
         "never raises and leaves last_accessed a subset of data.",
    design="4/C03")

CHECKS["C17"] = dict(
    technique="Hypothesis-generated points/times/parameters per solution "
              "module; oracle: sympy differentiation of the module's own "
              "analytical metric evaluated at 30 digits -> independent "
              "curvature (ref4d) -> K from d_t gamma, Einstein equations for "
              "the shipped matter, closed-form extras; first-order scaling "
              "for ICPertFLRW; oracle self-tested on FLRW/Schwarzschild",
    text="For every bundled solution: numeric vs symbolic metric forms, "
         "Kdown3 = (D_i beta_j + D_j beta_i - d_t gamma_ij)/(2 alpha), "
         "G + Lambda g = kappa T for Tdown4 or (rho, press), shipped scalars "
         "(Kretschmann, expansion, Friedmann relations) at generated points; "
         "residual classes separate truncated constants from wrong terms.",
    design="4/C17")

CHECKS["C11"] = dict(
    technique="Hypothesis-generated synthetic Einstein Toolkit directories "
              "(sizes, ghost widths, rectilinear / nested decompositions, "
              "component permutations, 4 layouts, levels, overlapping "
              "restarts) whose stored values encode (variable, iteration, "
              "level, restart, x, y, z) injectively; exact-equality oracle, "
              "4-layout differential, raise-or-exact for unsupported layouts",
    text="read_data / read_ET_variables / join_chunks / fixij must return "
         "exactly the stored interior data for every generated directory and "
         "request; mismatches are decoded into wrong restart / iteration / "
         "level / position. Chunk-count and cut-axis classes are all "
         "populated.",
    design="4/C11")
CHECKS["C12"] = dict(
    technique="Hypothesis-generated read histories (st.lists of read_data "
              "calls: variable subsets mixing tensor and component names, "
              "iteration subsets, levels, restarts, split_per_it on/off) on "
              "one generated simulation; ground-truth oracle for every "
              "returned array and for every dataset of every cache file, "
              "differential vs an uncached read",
    text="After every call each returned (variable, iteration) equals ground "
         "truth and the uncached read, and every dataset in every "
         "all_iterations/it_*.hdf5 holds the data of the variable, iteration "
         "and level it is filed under.",
    design="4/C12")

CHECKS["C15"] = dict(
    technique="Hypothesis-generated symbolic metrics from a small grammar "
              "(2-4 dimensions, non-diagonal, coordinate-dependent entries), "
              "simplify flag and request orders; oracle: independent textbook "
              "sympy implementation evaluated at random rational points "
              "(exact for rational metrics), differentials between simplify "
              "settings and between request orders",
    text="All ten symbolic quantities are compared with an independent "
         "implementation per index position and branch (direct vs from "
         "cached Riemann_uddd), and must not depend on simplify or on what "
         "was requested before.",
    design="4/C15")

NOT_YET = "check not built yet in this session (see DESIGN.md section 4)"


def main():
    props = [json.loads(l)["id"] for l in
             open(os.path.join(VERIF, "properties.jsonl"))]
    checks = []
    na = []
    for p in props:
        if p in CHECKS and glob.glob(os.path.join(
                VERIF, "checks", p.lower() + "_*.py")):
            c = CHECKS[p]
            checks.append(dict(
                property_id=p,
                quick_cmd=f"./vcheck {p} --tier quick",
                thorough_cmd=f"./vcheck {p} --tier thorough",
                evidence_file=f"evidence/{p}.json",
                replay_cmd_template=f"./vcheck {p} --replay {{path}}",
                engine="vcheck",
                level_claimed=dict(category="exploration", text=c["text"],
                                   design_ref=c["design"]),
                level_note=c.get("note", COMMON_NOTE),
                technique=c["technique"]))
        else:
            na.append(dict(property_id=p, reason=CHECKS.get(p, {}).get(
                "na", NOT_YET)))
    man = dict(
        version=1,
        setup_cmd="./setup.sh",
        hooks=dict(
            guard="AUREL_VERIF",
            enable="no source hooks are needed: every observable is public "
                   "API; vcheck exports AUREL_VERIF=1 and puts /repo/src "
                   "first on PYTHONPATH (nothing to build)",
            baseline_off_cmd="cd /repo && /venv/bin/python -m pytest -ra -q "
                             "-p no:cacheprovider --timeout=900 "
                             "--continue-on-collection-errors",
            source_commits=[],
            add_only=True),
        engines=[dict(
            name="vcheck", path="vcheck",
            serves_properties=[c["property_id"] for c in checks],
            kind_free_text="Hypothesis (given + rule-based state machines) "
                           "driving the real aurel code against explicit "
                           "oracles; sub-check bucketing, replay files, "
                           "multiprocessing shards")],
        checks=checks,
        not_applicable=na,
        notes="exit 0 held / 1 VIOLATION / 2 harness error. VERIF_SEED and "
              "VERIF_TIER honoured. known_findings.json is read-only at run "
              "time.")
    with open(os.path.join(VERIF, "MANIFEST.json"), "w") as f:
        json.dump(man, f, indent=1)
    try:
        import jsonschema
        jsonschema.validate(man, json.load(
            open("/root/.vp/MANIFEST.schema.json")))
        print("MANIFEST valid;", len(checks), "checks,", len(na), "n/a")
    except ImportError:
        print("jsonschema missing; MANIFEST written unvalidated")


if __name__ == "__main__":
    main()
