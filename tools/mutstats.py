#!/venv/bin/python
"""Summary of tools/mutsweep.py results (mutants/*.jsonl): per file, how many
machine-made mutants were killed, by which check, and the survivors."""
import glob
import json
import os

VERIF = os.path.dirname(os.path.dirname(os.path.abspath(__file__)))


def main():
    tot = kill = 0
    surv = []
    print("| file | mutants | killed | killed by |")
    print("|---|---|---|---|")
    for f in sorted(glob.glob(os.path.join(VERIF, "mutants", "*.jsonl"))):
        rows = [json.loads(l) for l in open(f)]
        by = {}
        for d in rows:
            if d["killed_by"]:
                k = d["killed_by"].split()[0]
                by[k] = by.get(k, 0) + 1
            else:
                surv.append(d)
        n, k = len(rows), sum(by.values())
        tot += n
        kill += k
        print(f"| {rows[0]['file']} | {n} | {k} | "
              + ", ".join(f"{a} {b}" for a, b in sorted(by.items())) + " |")
    print(f"| all | {tot} | {kill} | |")
    print()
    for d in surv:
        t = d.get("repo_tests", {})
        print(f"survivor {d['file']}:{d['line']} {d['kind']} "
              f"{d['old']!r} -> {d['new']!r} "
              f"(repo tests: {t.get('passed')} passed, {t.get('failed')} "
              "failed)")


if __name__ == "__main__":
    main()
