#!/venv/bin/python
"""Which lines of /repo/src/aurel do the quick checks execute?

    tools/cover.py [C07 C08 ...]      (default: all 20)

Runs each quick check under coverage.py (multiprocessing-aware, data and
evidence in a scratch directory that is removed afterwards) and prints, per
source file, the line coverage and the functions none of whose body lines
were executed. A blind spot is a place where no generated input can reach a
defect, whatever the oracle.
"""
import ast
import os
import shutil
import subprocess
import sys
import tempfile

VERIF = os.path.dirname(os.path.dirname(os.path.abspath(__file__)))
REPO = os.environ.get("VERIF_REPO", "/repo")


def main():
    props = sys.argv[1:] or [f"C{i:02d}" for i in range(1, 21)]
    tmp = tempfile.mkdtemp(prefix="aurelcov-")
    try:
        rc = os.path.join(tmp, "rc")
        with open(rc, "w") as f:
            f.write("[run]\nparallel = True\nconcurrency = multiprocessing\n"
                    f"source = {REPO}/src/aurel\n"
                    f"data_file = {tmp}/cov\n")
        env = dict(os.environ, PYTHONHASHSEED="0", VERIF_REEXEC="1",
                   PYTHONPATH=f"{REPO}/src:{VERIF}", OMP_NUM_THREADS="1",
                   OPENBLAS_NUM_THREADS="1", AUREL_VERIF="1",
                   MPLBACKEND="Agg", VERIF_EVIDENCE_DIR=tmp + "/ev",
                   COVERAGE_RCFILE=rc)
        for p in props:
            r = subprocess.run(
                ["/venv/bin/python", "-m", "coverage", "run", f"--rcfile={rc}",
                 os.path.join(VERIF, "vcheck"), p, "--tier", "quick"],
                env=env, cwd=VERIF, capture_output=True, text=True)
            line = [l for l in r.stdout.splitlines() if l.startswith("[")]
            print(p, "exit", r.returncode, line[:1], flush=True)
        subprocess.run(["/venv/bin/python", "-m", "coverage", "combine",
                        f"--rcfile={rc}"], env=env, cwd=tmp,
                       capture_output=True)
        import coverage
        cov = coverage.Coverage(data_file=f"{tmp}/cov", config_file=rc)
        cov.load()
        data = cov.get_data()
        tot_e = tot_s = 0
        for fn in sorted(data.measured_files()):
            if "/aurel/" not in fn:
                continue
            _, stm, _, miss, _ = cov.analysis2(fn)
            ex = set(stm) - set(miss)
            tot_e += len(ex)
            tot_s += len(stm)
            tree = ast.parse(open(fn).read())
            dead = []
            for node in ast.walk(tree):
                if isinstance(node, (ast.FunctionDef, ast.AsyncFunctionDef)):
                    body = {n.lineno for b in node.body for n in ast.walk(b)
                            if hasattr(n, "lineno")} & set(stm)
                    if body and not (body & ex):
                        dead.append(node.name)
            print(f"{os.path.relpath(fn, REPO)}: {len(ex)}/{len(stm)} lines"
                  f" ({100.0 * len(ex) / max(1, len(stm)):.0f}%)")
            if dead:
                print("   never entered:", ", ".join(dead))
            if os.environ.get("COVER_LINES") and miss:
                # runs of missing lines
                runs, a, b = [], None, None
                for ln in sorted(miss):
                    if a is None:
                        a = b = ln
                    elif ln <= b + 2:
                        b = ln
                    else:
                        runs.append((a, b))
                        a = b = ln
                runs.append((a, b))
                print("   not executed:", ", ".join(
                    f"{x}" if x == y else f"{x}-{y}" for x, y in runs))
        print(f"total {tot_e}/{tot_s} "
              f"({100.0 * tot_e / max(1, tot_s):.0f}%)")
    finally:
        shutil.rmtree(tmp, ignore_errors=True)


if __name__ == "__main__":
    main()
