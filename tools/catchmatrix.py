#!/venv/bin/python
"""Print the markdown table 'which checks catch which seeded changes' from
/verif/seeded/*/meta.json (written by tools/seedrun.py)."""
import glob
import json
import os

VERIF = os.path.dirname(os.path.dirname(os.path.abspath(__file__)))


def main():
    rows = []
    for mp in sorted(glob.glob(os.path.join(VERIF, "seeded", "*",
                                            "meta.json"))):
        m = json.load(open(mp))
        cb = m.get("caught_by", {})
        caught = []
        missed = []
        for k, v in sorted(cb.items()):
            if v.get("exit") == 1:
                sigs = [s.split("/", 1)[1] for s in v.get("signatures", [])]
                caught.append(f"{k} ({', '.join(sigs[:3])}"
                              f"{', ...' if len(sigs) > 3 else ''})")
            else:
                missed.append(f"{k} (exit {v.get('exit')})")
        title = (m.get("title") or m.get("what_changed") or "")
        title = " ".join(str(title).split())[:110].replace("|", "/")
        if m.get("superseded"):
            title += " [no longer a defect on the repaired tree, see meta]"
        rows.append((m["id"], "yes" if m.get("confirmed") else "NO", title,
                     "; ".join(caught) or "-", "; ".join(missed) or "-"))
    print("| seeded change | confirmed | what | caught by | not caught by |")
    print("|---|---|---|---|---|")
    for r in rows:
        print("| " + " | ".join(r) + " |")


if __name__ == "__main__":
    main()
