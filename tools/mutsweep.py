#!/venv/bin/python
"""Sensitivity sweep (DESIGN 2.9 / 7.4): machine-made single-site mutants of
/repo/src/aurel against the quick checks.

    tools/mutsweep.py core.py 40 [--seed 7] [--out FILE.jsonl]

Sites are found with the ast module (never inside print / myprint / raise /
warn calls or docstrings); one operator is applied per mutant:

  arith     + <-> -, * <-> /
  compare   < <-> <=, > <-> >=, == <-> !=
  const     integer constant n -> n + 1, float constant c -> 2 c
  index     subscript constant k -> (k + 1) mod 3 or 4
  einsum    two different index letters exchanged in one operand of an einsum
            specification
  axis      an identifier ending in x / y / z replaced by its neighbour
            (dx -> dy, Nz -> Nx, kxy -> kyz is not touched: last letter only)

Each mutant is written into a scratch copy of /repo/src (removed afterwards),
compiled, and the checks that anchor the file are run against it with
VERIF_REPO (cheapest first, stopping at the first check that reports a
VIOLATION). Survivors are then run through the repository's own test suite, so
that "passes the tests but no check notices" is told apart from "breaks the
tests as well". The tool chooses sites with Python's random module from
--seed: it is a sensitivity experiment, not one of the registered checks.
"""
import argparse
import ast
import json
import os
import random
import re
import shutil
import subprocess
import sys
import tempfile

VERIF = os.path.dirname(os.path.dirname(os.path.abspath(__file__)))
REPO = "/repo"

CHECKS = {
    "core.py": ["C08", "C09", "C20", "C16", "C02", "C03", "C19", "C06",
                "C05", "C04", "C10", "C14", "C01"],
    "maths.py": ["C08", "C20", "C09", "C04", "C10"],
    "finitedifference.py": ["C07", "C16", "C05", "C20"],
    "reading.py": ["C13", "C18", "C11", "C12", "C02"],
    "time.py": ["C14", "C03", "C02"],
    "coresymbolic.py": ["C15"],
    "numerical.py": ["C20", "C16"],
    "utils/memory.py": ["C03"],
}
QUIET_CALLS = {"print", "myprint", "saveprint", "warn", "format"}


class Sites(ast.NodeVisitor):
    def __init__(self, src):
        self.src = src
        self.lines = src.splitlines(keepends=True)
        self.sites = []
        self.skip = 0

    def seg(self, node):
        return ast.get_source_segment(self.src, node)

    def add(self, kind, node, new):
        old = self.seg(node)
        if old is None or new is None or new == old or \
                node.lineno != node.end_lineno:
            return
        self.sites.append(dict(kind=kind, line=node.lineno,
                               col=node.col_offset, end=node.end_col_offset,
                               old=old, new=new))

    def visit_Raise(self, node):
        return

    def visit_Assert(self, node):
        return

    def visit_Call(self, node):
        f = node.func
        name = f.attr if isinstance(f, ast.Attribute) else \
            f.id if isinstance(f, ast.Name) else ""
        if name in QUIET_CALLS:
            return
        if name == "einsum" and node.args and \
                isinstance(node.args[0], ast.Constant) and \
                isinstance(node.args[0].value, str):
            self.einsum(node.args[0])
        self.generic_visit(node)

    def einsum(self, node):
        raw = self.seg(node)
        spec = node.value
        if "->" not in spec or raw is None:
            return
        ops = spec.split("->")[0].split(",")
        for k, op in enumerate(ops):
            letters = [c for c in op if c.isalpha()]
            for i in range(len(letters)):
                for j in range(i + 1, len(letters)):
                    if letters[i] == letters[j]:
                        continue
                    o2 = list(op)
                    pi = [p for p, c in enumerate(op) if c.isalpha()]
                    o2[pi[i]], o2[pi[j]] = o2[pi[j]], o2[pi[i]]
                    ops2 = list(ops)
                    ops2[k] = "".join(o2)
                    new_spec = ",".join(ops2) + "->" + spec.split("->", 1)[1]
                    q = raw[0]
                    self.add("einsum", node, q + new_spec + q)

    def visit_FunctionDef(self, node):
        body = node.body
        if body and isinstance(body[0], ast.Expr) and \
                isinstance(body[0].value, ast.Constant) and \
                isinstance(body[0].value.value, str):
            body = body[1:]
        for d in node.args.defaults:
            self.visit(d)
        for b in body:
            self.visit(b)

    def between(self, kind, left, right, a, b):
        """replace operator a by b in the source between two operands"""
        if left.end_lineno != right.lineno:
            return
        line = self.lines[left.end_lineno - 1].encode()
        mid = line[left.end_col_offset:right.col_offset].decode()
        if mid.count(a) != 1 or mid.strip(" ()") != a:
            return
        self.sites.append(dict(kind=kind, line=left.end_lineno,
                               col=left.end_col_offset,
                               end=right.col_offset, old=mid,
                               new=mid.replace(a, b),
                               context=self.lines[left.end_lineno - 1]
                               .strip()[:100]))

    def visit_BinOp(self, node):
        swap = {ast.Add: ("+", "-"), ast.Sub: ("-", "+"),
                ast.Mult: ("*", "/"), ast.Div: ("/", "*")}
        t = type(node.op)
        if t in swap and not (isinstance(node.left, ast.Constant)
                              and isinstance(node.left.value, str)) \
                and not (isinstance(node.right, ast.Constant)
                         and isinstance(node.right.value, str)) \
                and not isinstance(node.left, ast.JoinedStr) \
                and not isinstance(node.right, ast.JoinedStr):
            self.between("arith", node.left, node.right, *swap[t])
        self.generic_visit(node)

    def visit_Compare(self, node):
        swap = {ast.Lt: ("<", "<="), ast.LtE: ("<=", "<"),
                ast.Gt: (">", ">="), ast.GtE: (">=", ">"),
                ast.Eq: ("==", "!="), ast.NotEq: ("!=", "==")}
        if len(node.ops) == 1 and type(node.ops[0]) in swap:
            self.between("compare", node.left, node.comparators[0],
                         *swap[type(node.ops[0])])
        self.generic_visit(node)

    def visit_Subscript(self, node):
        sl = node.slice
        elts = sl.elts if isinstance(sl, ast.Tuple) else [sl]
        for e in elts:
            if isinstance(e, ast.Constant) and isinstance(e.value, int) \
                    and not isinstance(e.value, bool) and 0 <= e.value <= 3:
                self.add("index", e, str((e.value + 1) % 3))
        self.visit(node.value)
        for e in elts:
            if not isinstance(e, ast.Constant):
                self.visit(e)

    def visit_Constant(self, node):
        v = node.value
        if isinstance(v, bool) or isinstance(v, str) or v is None:
            return
        raw = self.seg(node)
        if isinstance(v, int) and raw and raw.isdigit():
            self.add("const", node, str(v + 1))
        elif isinstance(v, float) and raw and re.fullmatch(r"[0-9.]+", raw):
            self.add("const", node, repr(2 * v))

    def visit_Attribute(self, node):
        self.axis(node, node.attr, attr=True)
        self.generic_visit(node)

    def visit_Name(self, node):
        self.axis(node, node.id, attr=False)

    def axis(self, node, name, attr):
        m = re.fullmatch(r"(.*[a-z_])([xyz])", name) or \
            re.fullmatch(r"(N|d|inverse_d|i|is)([xyz])", name)
        if not m or len(name) < 2 or name in ("max", "idx", "ix", "xyz"):
            return
        nxt = {"x": "y", "y": "z", "z": "x"}[m.group(2)]
        whole = self.seg(node)
        if whole is None or not whole.endswith(name):
            return
        # only where the neighbour is a name of the same file
        if not re.search(r"\b" + re.escape(name[:-1] + nxt) + r"\b",
                         self.src):
            return
        self.add("axis", node, whole[:len(whole) - 1] + nxt)


def mutants(path, n, rng):
    src = open(path).read()
    v = Sites(src)
    v.visit(ast.parse(src))
    # one site per (line, kind) at most, spread over kinds
    seen, sites = set(), []
    rng.shuffle(v.sites)
    per_kind = {}
    for s in v.sites:
        k = (s["line"], s["kind"])
        if k in seen:
            continue
        seen.add(k)
        per_kind.setdefault(s["kind"], []).append(s)
    kinds = sorted(per_kind)
    while len(sites) < n and any(per_kind.values()):
        for k in kinds:
            if per_kind[k] and len(sites) < n:
                sites.append(per_kind[k].pop())
    return src, sites


def apply(src, s):
    lines = src.splitlines(keepends=True)
    ln = lines[s["line"] - 1]
    # col offsets are in utf-8 bytes
    b = ln.encode()
    b = b[:s["col"]] + s["new"].encode() + b[s["end"]:]
    lines[s["line"] - 1] = b.decode()
    return "".join(lines)


def run_checks(tmp, props, seed):
    env = dict(os.environ, VERIF_REPO=tmp, VERIF_SEED=str(seed),
               VERIF_EVIDENCE_DIR=os.path.join(tmp, "ev"))
    env.pop("VERIF_REEXEC", None)
    env.pop("PYTHONHASHSEED", None)
    ran = []
    for p in props:
        r = subprocess.run([os.path.join(VERIF, "vcheck"), p, "--tier",
                            "quick"], env=env, cwd=VERIF,
                           capture_output=True, text=True)
        sig = re.findall(r"failing: (\S+):", r.stdout)[:3]
        ran.append(dict(check=p, exit=r.returncode, signatures=sig))
        if r.returncode == 1:
            return p, ran
        if r.returncode == 2:
            return p + " (harness error: the mutant broke the harness' "\
                "use of the library)", ran
    return None, ran


def run_tests(tmp):
    env = dict(os.environ, PYTHONPATH=os.path.join(tmp, "src"))
    r = subprocess.run(
        "/venv/bin/python -m pytest -q -p no:cacheprovider --timeout=900 -q "
        "2>&1 | tail -3", shell=True, cwd=tmp, env=env,
        capture_output=True, text=True)
    m = re.search(r"(\d+) failed", r.stdout)
    p = re.search(r"(\d+) passed", r.stdout)
    out = dict(failed=int(m.group(1)) if m else 0,
               passed=int(p.group(1)) if p else 0)
    # the pinned suite has 510 passing tests and 2 that always fail
    out["as_baseline"] = out["passed"] == 510 and out["failed"] <= 2
    return out


def main():
    ap = argparse.ArgumentParser()
    ap.add_argument("file")
    ap.add_argument("n", type=int)
    ap.add_argument("--seed", type=int, default=7)
    ap.add_argument("--out", default=None)
    a = ap.parse_args()
    rel = a.file
    props = CHECKS.get(rel) or (["C17"] if rel.startswith("solutions/")
                                else None)
    if not props:
        print("no checks mapped for", rel)
        return 2
    path = os.path.join(REPO, "src", "aurel", rel)
    rng = random.Random(a.seed)
    src, sites = mutants(path, a.n, rng)
    out = a.out or os.path.join(VERIF, "mutants",
                                rel.replace("/", "_") + ".jsonl")
    os.makedirs(os.path.dirname(out), exist_ok=True)
    done = set()
    if os.path.exists(out):
        for l in open(out):
            d = json.loads(l)
            done.add((d["line"], d["kind"], d["new"]))
    for s in sites:
        if (s["line"], s["kind"], s["new"]) in done:
            continue
        tmp = tempfile.mkdtemp(prefix="aurelmut-")
        try:
            shutil.copytree(os.path.join(REPO, "src"),
                            os.path.join(tmp, "src"))
            for extra in ("tests", "pyproject.toml", "setup.py", "setup.cfg",
                          "pytest.ini", "conftest.py"):
                pth = os.path.join(REPO, extra)
                if os.path.isdir(pth):
                    shutil.copytree(pth, os.path.join(tmp, extra))
                elif os.path.exists(pth):
                    shutil.copy(pth, tmp)
            new_src = apply(src, s)
            try:
                compile(new_src, rel, "exec")
            except SyntaxError:
                continue
            open(os.path.join(tmp, "src", "aurel", rel), "w").write(new_src)
            killer, ran = run_checks(tmp, props, 1)
            rec = dict(file=rel, line=s["line"], kind=s["kind"],
                       old=s["old"][:80], new=s["new"][:80],
                       killed_by=killer, ran=ran)
            if killer is None:
                rec["repo_tests"] = run_tests(tmp)
            with open(out, "a") as f:
                f.write(json.dumps(rec) + "\n")
            print(rel, s["line"], s["kind"], repr(s["old"][:40]), "->",
                  repr(s["new"][:40]), "|", killer or
                  f"SURVIVED (tests: {rec['repo_tests']})", flush=True)
        finally:
            shutil.rmtree(tmp, ignore_errors=True)
    return 0


if __name__ == "__main__":
    sys.exit(main())
