#!/bin/sh
# run the pinned repository test suite (510 pass + 2 baseline always-fail)
cd /repo && /venv/bin/python -m pytest -q -p no:cacheprovider --timeout=900 --continue-on-collection-errors -q 2>&1 | tail -4
