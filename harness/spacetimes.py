"""Exact spacetime families (DESIGN 3.1).  Each family is built from a small
JSON parameter record and gives ``metric(T, X, Y, Z) -> g, dg, ddg`` with

    g[a,b,...], dg[c,a,b,...] = d_c g_ab, ddg[c,d,a,b,...] = d_c d_d g_ab

analytically (index 0 = t).  Pure numpy, independent of aurel.
"""
import numpy as np

ETA = np.diag([-1.0, 1.0, 1.0, 1.0])


def _P(T, X, Y, Z):
    X = np.asarray(X, dtype=float)
    shp = X.shape
    return np.array([np.broadcast_to(np.asarray(T, dtype=float), shp),
                     X, np.broadcast_to(Y, shp), np.broadcast_to(Z, shp)])


def _bc(a, nd):
    return a.reshape(a.shape + (1,) * nd)


# --------------------------------------------------------------------- W
def wavy(params):
    """g = eta + sum_m A_m sin(k_m.x + phi_m).
    params: {'modes': [{'A': 4x4 symmetric list, 'k': [4], 'phi': f}, ...]}"""
    modes = [(np.array(m["A"], float), np.array(m["k"], float),
              float(m["phi"])) for m in params["modes"]]
    # optional "time-odd" shift: g_0i += b_i sin(k.x + phi) sin(w t), which
    # vanishes on the slice t = 0 while its t-derivative does not
    tshift = [(np.array(m["b"], float), np.array(m["k"], float),
               float(m["phi"]), float(m["w"]))
              for m in params.get("tshift", [])]

    def metric(T, X, Y, Z, order=2):
        P = _P(T, X, Y, Z)
        nd = P.ndim - 1
        g = np.zeros((4, 4) + P.shape[1:])
        dg = np.zeros((4, 4, 4) + P.shape[1:])
        ddg = np.zeros((4, 4, 4, 4) + P.shape[1:])
        g += _bc(ETA, nd)
        for A, k, phi in modes:
            th = np.einsum('c,c...->...', k, P) + phi
            s, c = np.sin(th), np.cos(th)
            g += _bc(A, nd) * s
            dg += np.einsum('c,ab,...->cab...', k, A, c)
            ddg -= np.einsum('c,d,ab,...->cdab...', k, k, A, s)
        for b, k3, phi, w in tshift:
            A = np.zeros((4, 4))
            A[0, 1:] = A[1:, 0] = b
            k = np.array([0.0, k3[0], k3[1], k3[2]])
            th = np.einsum('c,c...->...', k, P) + phi
            sx, cx = np.sin(th), np.cos(th)
            st_, ct_ = np.sin(w * P[0]), np.cos(w * P[0])
            e0 = np.array([1.0, 0, 0, 0])
            F = sx * st_
            dF = (np.einsum('c,...->c...', k, cx * st_)
                  + np.einsum('c,...->c...', e0, w * sx * ct_))
            ddF = (-np.einsum('c,d,...->cd...', k, k, F)
                   + np.einsum('c,d,...->cd...', k, e0, w * cx * ct_)
                   + np.einsum('c,d,...->cd...', e0, k, w * cx * ct_)
                   - np.einsum('c,d,...->cd...', e0, e0, w * w * F))
            g += _bc(A, nd) * F
            dg += np.einsum('ab,c...->cab...', A, dF)
            ddg += np.einsum('ab,cd...->cdab...', A, ddF)
        return g, dg, ddg
    return metric


# --------------------------------------------------------------------- F
def flat_wavy(params):
    """Minkowski in coordinates x' with x^mu = x'^mu + sum_m c_m^mu
    sin(k_m.x' + phi_m).  params: {'modes': [{'c': [4], 'k': [4], 'phi'}]}"""
    modes = [(np.array(m["c"], float), np.array(m["k"], float),
              float(m["phi"])) for m in params["modes"]]

    def metric(T, X, Y, Z, order=2):
        P = _P(T, X, Y, Z)
        nd = P.ndim - 1
        shp = P.shape[1:]
        J = np.zeros((4, 4) + shp) + _bc(np.eye(4), nd)   # J[mu,a]
        dJ = np.zeros((4, 4, 4) + shp)                    # dJ[c,mu,a]
        ddJ = np.zeros((4, 4, 4, 4) + shp)                # ddJ[c,d,mu,a]
        for cv, k, phi in modes:
            th = np.einsum('c,c...->...', k, P) + phi
            s, c = np.sin(th), np.cos(th)
            J += np.einsum('m,a,...->ma...', cv, k, c)
            dJ -= np.einsum('m,a,c,...->cma...', cv, k, k, s)
            ddJ -= np.einsum('m,a,c,d,...->cdma...', cv, k, k, k, c)
        g = np.einsum('mn,ma...,nb...->ab...', ETA, J, J)
        dg = (np.einsum('mn,cma...,nb...->cab...', ETA, dJ, J)
              + np.einsum('mn,ma...,cnb...->cab...', ETA, J, dJ))
        if order < 2:
            return g, dg, None
        ddg = (np.einsum('mn,cdma...,nb...->cdab...', ETA, ddJ, J)
               + np.einsum('mn,cma...,dnb...->cdab...', ETA, dJ, dJ)
               + np.einsum('mn,dma...,cnb...->cdab...', ETA, dJ, dJ)
               + np.einsum('mn,ma...,cdnb...->cdab...', ETA, J, ddJ))
        return g, dg, ddg
    return metric


# ----------------------------------------------------- Kerr-Schild builder
def _kerr_schild(Hfun):
    """g = eta + 2 H l l with H, l and their derivatives from Hfun(P) ->
    H, dH[c], ddH[c,d], l[a], dl[c,a], ddl[c,d,a]."""
    def metric(P, order=2):
        nd = P.ndim - 1
        H, dH, ddH, l, dl, ddl = Hfun(P)
        ll = np.einsum('a...,b...->ab...', l, l)
        dll = (np.einsum('ca...,b...->cab...', dl, l)
               + np.einsum('a...,cb...->cab...', l, dl))
        if order < 2:
            return (_bc(ETA, nd) + 2 * H * ll,
                    2 * (np.einsum('c...,ab...->cab...', dH, ll) + H * dll),
                    None)
        ddll = (np.einsum('cda...,b...->cdab...', ddl, l)
                + np.einsum('ca...,db...->cdab...', dl, dl)
                + np.einsum('da...,cb...->cdab...', dl, dl)
                + np.einsum('a...,cdb...->cdab...', l, ddl))
        g = _bc(ETA, nd) + 2 * H * ll
        dg = 2 * (np.einsum('c...,ab...->cab...', dH, ll) + H * dll)
        ddg = 2 * (np.einsum('cd...,ab...->cdab...', ddH, ll)
                   + np.einsum('c...,dab...->cdab...', dH, dll)
                   + np.einsum('d...,cab...->cdab...', dH, dll)
                   + H * ddll)
        return g, dg, ddg
    return metric


def _linear_map(params):
    """Lorentz boost (velocity v) composed with a rotation (axis-angle) and an
    offset: x_rest = L x' + off."""
    v = np.array(params.get("boost", [0.0, 0.0, 0.0]), float)
    L = np.eye(4)
    v2 = float(v @ v)
    if v2 > 0:
        ga = 1 / np.sqrt(1 - v2)
        L[0, 0] = ga
        L[0, 1:] = -ga * v
        L[1:, 0] = -ga * v
        L[1:, 1:] = np.eye(3) + (ga - 1) * np.outer(v, v) / v2
    rot = params.get("rot", [0.0, 0.0, 0.0])
    w = np.array(rot, float)
    ang = np.linalg.norm(w)
    R = np.eye(4)
    if ang > 0:
        n = w / ang
        Kx = np.array([[0, -n[2], n[1]], [n[2], 0, -n[0]], [-n[1], n[0], 0]])
        R[1:, 1:] = (np.eye(3) + np.sin(ang) * Kx
                     + (1 - np.cos(ang)) * Kx @ Kx)
    off = np.array(params.get("offset", [0.0, 0.0, 0.0, 0.0]), float)
    return R @ L, off


def _transformed(rest_metric, params):
    L, off = _linear_map(params)

    def metric(T, X, Y, Z, order=2):
        P = _P(T, X, Y, Z)
        nd = P.ndim - 1
        Pr = np.einsum('mn,n...->m...', L, P) + _bc(off, nd)
        g, dg, ddg = rest_metric(Pr, order)
        # one index at a time (a single 5-operand einsum loops naively over
        # 4^8 index combinations per grid point)
        def tr(T, nidx):
            for ax in range(nidx):
                T = np.moveaxis(np.tensordot(L, T, axes=([0], [ax])), 0, ax)
            return T
        g2 = tr(g, 2)
        dg2 = tr(dg, 3)
        ddg2 = tr(ddg, 4) if ddg is not None else None
        return g2, dg2, ddg2
    return metric


# -------------------------------------------------------------------- KS
def kerr_schild_schw(params):
    """Boosted/rotated Schwarzschild in Kerr-Schild form. params: M, boost,
    rot, offset (offset keeps r=0 away from the box)."""
    M = float(params["M"])

    def Hfun(P):
        x = P[1:]
        shp = P.shape[1:]
        r2 = np.einsum('i...,i...->...', x, x)
        r = np.sqrt(r2)
        d3 = np.eye(3).reshape((3, 3) + (1,) * len(shp))
        H = M / r
        dH = np.zeros((4,) + shp)
        dH[1:] = -M * x / r**3
        ddH = np.zeros((4, 4) + shp)
        ddH[1:, 1:] = M * (3 * np.einsum('i...,j...->ij...', x, x) / r**5
                           - d3 / r**3)
        l = np.zeros((4,) + shp)
        l[0] = 1.0
        l[1:] = x / r
        dl = np.zeros((4, 4) + shp)     # dl[c,a]
        dl[1:, 1:] = d3 / r - np.einsum('j...,i...->ji...', x, x) / r**3
        ddl = np.zeros((4, 4, 4) + shp)  # ddl[c,d,a]
        xxx = np.einsum('i...,j...,k...->ijk...', x, x, x)
        d3x = (np.einsum('ij...,k...->ijk...', d3, x)
               + np.einsum('ik...,j...->ijk...', d3, x)
               + np.einsum('jk...,i...->ijk...', d3, x))
        ddl[1:, 1:, 1:] = -d3x / r**3 + 3 * xxx / r**5
        return H, dH, ddH, l, dl, ddl
    return _transformed(_kerr_schild(Hfun), params)


def kretschmann_ks(params, T, X, Y, Z):
    L, off = _linear_map(params)
    P = _P(T, X, Y, Z)
    Pr = np.einsum('mn,n...->m...', L, P) + _bc(off, P.ndim - 1)
    r2 = np.einsum('i...,i...->...', Pr[1:], Pr[1:])
    return 48 * float(params["M"])**2 / r2**3


# -------------------------------------------------------------------- PP
def pp_wave(params):
    """g = eta + H l l, l_a = d_a u, u = t - y,
    H = (x^2 - z^2) f(u) + 2 x z h(u), f = a sin(w u + p), h = b sin(v u + q).
    Exact vacuum, only beta^y non-zero. (2 H' l l with H' = H/2.)"""
    a, w, p = params["f"]
    b, v, q = params["h"]

    def Hfun(P):
        shp = P.shape[1:]
        t, x, y, z = P
        u = t - y
        f, fp, fpp = (a * np.sin(w * u + p), a * w * np.cos(w * u + p),
                      -a * w * w * np.sin(w * u + p))
        h, hp, hpp = (b * np.sin(v * u + q), b * v * np.cos(v * u + q),
                      -b * v * v * np.sin(v * u + q))
        du = np.array([1.0, 0.0, -1.0, 0.0])
        A, B = x * x - z * z, 2 * x * z
        H = 0.5 * (A * f + B * h)
        Hu = 0.5 * (A * fp + B * hp)
        Huu = 0.5 * (A * fpp + B * hpp)
        dH = np.zeros((4,) + shp)
        dH += np.einsum('c,...->c...', du, Hu)
        dH[1] += 0.5 * (2 * x * f + 2 * z * h)
        dH[3] += 0.5 * (-2 * z * f + 2 * x * h)
        ddH = np.zeros((4, 4) + shp)
        ddH += np.einsum('c,d,...->cd...', du, du, Huu)
        Hxu = 0.5 * (2 * x * fp + 2 * z * hp)
        Hzu = 0.5 * (-2 * z * fp + 2 * x * hp)
        for c in range(4):
            ddH[1, c] += du[c] * Hxu
            ddH[c, 1] += du[c] * Hxu
            ddH[3, c] += du[c] * Hzu
            ddH[c, 3] += du[c] * Hzu
        ddH[1, 1] += f
        ddH[3, 3] += -f
        ddH[1, 3] += h
        ddH[3, 1] += h
        l = np.zeros((4,) + shp) + du.reshape((4,) + (1,) * len(shp))
        dl = np.zeros((4, 4) + shp)
        ddl = np.zeros((4, 4, 4) + shp)
        return H, dH, ddH, l, dl, ddl
    ks = _kerr_schild(Hfun)

    def metric(T, X, Y, Z, order=2):
        return ks(_P(T, X, Y, Z), order)
    return metric


# -------------------------------------------------------------------- FL
def flrw(params):
    """ds^2 = -N(t)^2 dt^2 + a(t)^2 delta; N = 1 + n sin(w t + p) (|n|<1),
    a = a0 exp(h0 t + h1 sin(v t))."""
    n, w, p = params["N"]
    a0, h0, h1, v = params["a"]

    def metric(T, X, Y, Z, order=2):
        P = _P(T, X, Y, Z)
        shp = P.shape[1:]
        t = P[0]
        N, Np, Npp = (1 + n * np.sin(w * t + p), n * w * np.cos(w * t + p),
                      -n * w * w * np.sin(w * t + p))
        la = h0 * t + h1 * np.sin(v * t)
        lap, lapp = h0 + h1 * v * np.cos(v * t), -h1 * v * v * np.sin(v * t)
        a2 = a0 * a0 * np.exp(2 * la)
        a2p = 2 * lap * a2
        a2pp = (2 * lapp + 4 * lap * lap) * a2
        g = np.zeros((4, 4) + shp)
        dg = np.zeros((4, 4, 4) + shp)
        ddg = np.zeros((4, 4, 4, 4) + shp)
        g[0, 0] = -N * N
        dg[0, 0, 0] = -2 * N * Np
        ddg[0, 0, 0, 0] = -2 * (Np * Np + N * Npp)
        for i in range(1, 4):
            g[i, i] = a2
            dg[0, i, i] = a2p
            ddg[0, 0, i, i] = a2pp
        return g, dg, ddg
    return metric


FAMILIES = dict(W=wavy, F=flat_wavy, KS=kerr_schild_schw, PP=pp_wave,
                FL=flrw)
VACUUM = {"F", "KS", "PP"}


def build(spec):
    return FAMILIES[spec["family"]](spec["params"])


# ---------------------------------------------------------------------------
# Hypothesis strategies for family parameters (imported lazily by checks)

def strategies():
    from hypothesis import strategies as st
    f = lambda lo, hi: st.floats(lo, hi, allow_nan=False,  # noqa: E731
                                 allow_infinity=False, width=64)

    @st.composite
    def sym4(draw, budget, mask):
        """symmetric 4x4 amplitude with sum of |entries| <= budget, entries
        enabled by mask (dict of bools: lapse, shift, diag, offdiag)"""
        A = np.zeros((4, 4))
        ents = []
        if mask.get("lapse", True):
            ents.append((0, 0))
        if mask.get("shift", True):
            ents += [(0, i) for i in mask.get("shift_comps", (1, 2, 3))]
        if mask.get("diag", True):
            ents += [(1, 1), (2, 2), (3, 3)]
        if mask.get("offdiag", True):
            ents += [(1, 2), (1, 3), (2, 3)]
        vals = [draw(f(-1, 1)) for _ in ents]
        # never exactly zero for enabled entries in generic mode
        vals = [v if abs(v) > 0.15 else (0.15 if v >= 0 else -0.15)
                for v in vals]
        tot = sum(abs(v) * (1 if a == b else 2) for v, (a, b) in
                  zip(vals, ents)) or 1.0
        for v, (a, b) in zip(vals, ents):
            A[a, b] = A[b, a] = v * budget / tot
        return A.tolist()

    @st.composite
    def wavy_spec(draw, periodic_L=None, mask=None, nmodes=(1, 3),
                  amp=0.3, kmax=1.2, static=False, tshift=False):
        """W family.  periodic_L = (Lx,Ly,Lz): wave-vectors commensurate with
        the box (integer wavenumbers in {-1,0,1}, not all zero)."""
        mask = mask or {}
        n = draw(st.integers(*nmodes))
        modes = []
        for _ in range(n):
            A = draw(sym4(amp / n, mask))
            if periodic_L is not None:
                ns = [draw(st.integers(-1, 1)) for _ in range(3)]
                if not any(ns):
                    ns = [1, 0, 0]
                ks = [2 * np.pi * ni / L for ni, L in zip(ns, periodic_L)]
            else:
                ks = [draw(f(-kmax, kmax)) for _ in range(3)]
                if max(abs(k) for k in ks) < 0.3 * kmax:
                    ks[draw(st.integers(0, 2))] = 0.6 * kmax
            kt = 0.0 if static else draw(f(-kmax, kmax))
            modes.append(dict(A=A, k=[kt] + ks, phi=draw(f(0, 6.28))))
        prm = dict(modes=modes)
        if tshift:
            if periodic_L is not None:
                ns = [draw(st.integers(-1, 1)) for _ in range(3)]
                if not any(ns):
                    ns = [0, 0, 1]
                ks = [2 * np.pi * ni / L for ni, L in zip(ns, periodic_L)]
            else:
                ks = [draw(f(-kmax, kmax)) for _ in range(3)]
            b = [draw(f(-0.08, 0.08)) for _ in range(3)]
            b = [v if abs(v) > 0.02 else 0.03 for v in b]
            prm["tshift"] = [dict(b=b, k=ks, phi=draw(f(0, 6.28)),
                                  w=draw(f(0.5, 1.5)))]
        return dict(family="W", params=prm)

    @st.composite
    def flat_spec(draw, eps=0.12, kmax=1.2):
        n = draw(st.integers(1, 2))
        modes = []
        for _ in range(n):
            c = [draw(f(-1, 1)) for _ in range(4)]
            c = [v if abs(v) > 0.2 else 0.2 for v in c]
            k = [draw(f(-kmax, kmax)) for _ in range(4)]
            if max(abs(x) for x in k[1:]) < 0.3 * kmax:
                k[1 + draw(st.integers(0, 2))] = 0.6 * kmax
            nrm = sum(abs(v) for v in c) * max(abs(x) for x in k)
            c = [v * eps / n / max(nrm, 1e-9) * 4 for v in c]
            modes.append(dict(c=c, k=k, phi=draw(f(0, 6.28))))
        return dict(family="F", params=dict(modes=modes))

    @st.composite
    def ks_spec(draw, boosted=True, inside=False):
        if inside:
            # the box (about [-1,1]^3) lies between r = 3 and r = 7 of a hole
            # of mass 6 (horizon at r = 12): H = M/r in 0.85 .. 2, so that
            # beta_k beta^k = 4H^2/(1+2H) exceeds alpha^2 = 1/(1+2H)
            M = draw(f(5.5, 6.5))
            rot = [draw(f(-1, 1)) for _ in range(3)]
            d = [draw(f(4.6, 5.2)), draw(f(-0.5, 0.5)), draw(f(-0.5, 0.5))]
            return dict(family="KS", params=dict(
                M=M, boost=[0.0, 0.0, 0.0], rot=rot, offset=[0.0] + d))
        M = draw(f(0.05, 0.3))
        boost = [draw(f(-0.3, 0.3)) for _ in range(3)] if boosted \
            else [0.0, 0.0, 0.0]
        rot = [draw(f(-1, 1)) for _ in range(3)] if boosted else [0.0] * 3
        # hole far from the box (box is about [-1,1]^3 around origin)
        d = [draw(f(3.0, 4.0)), draw(f(-1, 1)), draw(f(-1, 1))]
        return dict(family="KS", params=dict(
            M=M, boost=boost, rot=rot, offset=[0.0] + d))

    @st.composite
    def pp_spec(draw):
        return dict(family="PP", params=dict(
            f=[draw(f(0.02, 0.08)), draw(f(0.5, 1.5)), draw(f(0, 6.28))],
            h=[draw(f(0.02, 0.08)), draw(f(0.5, 1.5)), draw(f(0, 6.28))]))

    @st.composite
    def fl_spec(draw, unit_lapse=False):
        return dict(family="FL", params=dict(
            N=[0.0 if unit_lapse else draw(f(0.1, 0.4)), draw(f(0.5, 2)),
               draw(f(0, 6.28))],
            # scale factor O(1), or tiny (det gamma = a^6 down to 1e-18)
            a=[draw(st.one_of(f(0.7, 1.5), st.sampled_from([0.03, 0.002]))),
               draw(f(0.05, 0.4)), draw(f(0.0, 0.1)), draw(f(0.5, 2))]))

    return dict(wavy=wavy_spec, flat=flat_spec, ks=ks_spec, pp=pp_spec,
                fl=fl_spec, f=f)
