"""Shared pieces of the pointwise-algebra checks C08 and C09 (DESIGN 4, C08 /
C09; comparison rule 3.4 "round-off rule").

* a Hypothesis strategy for a small JSON record describing lapse, shift,
  spatial metric and extrinsic curvature on a small non-cubic grid, and the
  pure function ``fields(case)`` that turns it into arrays;
* diagonal equilibration (every formula under test is a homogeneous rational
  function of the inputs, so its floating-point error is covariant under
  x^i -> s_i x^i, t -> alpha t; comparisons are made in the frame in which
  gamma has unit diagonal and alpha = 1, where "scale" and "condition number"
  mean something);
* ``Cmp``: the round-off rule |a - b| <= c * eps * kappa * scale evaluated
  point by point.
"""
import numpy as np

from .aurelside import make_fd
from .common import HarnessError

EPS = float(np.finfo(np.float64).eps)
SYM3 = [(0, 0), (0, 1), (0, 2), (1, 1), (1, 2), (2, 2)]
SYM4 = [(0, 0), (0, 1), (0, 2), (0, 3), (1, 1), (1, 2), (1, 3), (2, 2),
        (2, 3), (3, 3)]


# ---------------------------------------------------------------------------
# generator


def qfloat(lo, hi, q=1000):
    """Strategy: multiples of 1/q in [lo, hi]."""
    from hypothesis import strategies as st
    return st.integers(int(np.ceil(lo * q - 1e-9)),
                       int(np.floor(hi * q + 1e-9))).map(lambda i: i / q)


def geometry_strategy(max_offdiag=3.0, logscale=3.0, shapes=None):
    """Strategy for the geometric part of a case (JSON record)."""
    from hypothesis import strategies as st

    # quantised reals (multiples of 1/1000): shrink well, replay files stay
    # readable, and no subnormal amplitudes (underflow is not the subject)
    fl = qfloat
    shapes = shapes or [[4, 5, 6], [6, 4, 5], [5, 6, 3], [3, 4, 5],
                        [2, 3, 4], [1, 2, 3], [4, 4, 4], [7, 3, 2]]

    @st.composite
    def geo(draw):
        c = {}
        c["shape"] = draw(st.sampled_from(shapes))
        c["x0"] = [draw(st.integers(-64, 64)) / 16 for _ in range(3)]
        c["h"] = [draw(st.integers(1, 32)) / 16 for _ in range(3)]
        c["seed"] = draw(st.integers(0, 2**31 - 1))
        c["var"] = draw(st.sampled_from([0.0, 0.3, 1.0]))
        # gamma = S (L L^T) S,  L = unit-ish lower triangular
        c["offdiag"] = draw(fl(0.0, max_offdiag))
        c["L"] = [draw(fl(-1.0, 1.0)) for _ in range(3)]
        c["logs"] = [draw(fl(-logscale, logscale)) for _ in range(3)]
        c["loga"] = draw(fl(-2.0, 2.0))
        c["bamp"] = [draw(st.one_of(st.just(0.0), fl(-2.0, 2.0),
                                    fl(-2.0, 2.0), fl(-2.0, 2.0)))
                     for _ in range(3)]
        c["kamp"] = draw(st.one_of(st.just(0.0), fl(-3.0, 3.0),
                                   fl(-3.0, 3.0)))
        c["kc"] = [draw(fl(-1.0, 1.0)) for _ in range(6)]
        return c
    return geo()


GENERIC_GEO = dict(shape=[4, 5, 6], x0=[-1.25, 0.5, -0.375],
                   h=[0.5, 0.25, 0.75], seed=12345, var=1.0, offdiag=1.5,
                   L=[0.8, -0.6, 0.7], logs=[1.5, -2.0, 0.5], loga=0.6,
                   bamp=[0.7, -1.1, 0.4], kamp=1.3,
                   kc=[0.5, -0.8, 0.3, 0.9, -0.4, 0.6])

GENERIC_GEO2 = dict(shape=[3, 4, 5], x0=[0.25, -2.0, 1.0],
                    h=[0.125, 1.0, 0.5], seed=777, var=0.3, offdiag=2.8,
                    L=[-0.9, 0.95, -0.85], logs=[-3.0, 3.0, 0.0], loga=-1.3,
                    bamp=[-1.6, 0.3, 1.9], kamp=-2.0,
                    kc=[-0.2, 0.7, -0.9, 0.1, 0.8, -0.5])


def fields(case):
    """Arrays (pure function of the record): alpha, betaup, gamma, K, and the
    aurel FiniteDifference object for the grid."""
    shape = tuple(case["shape"])
    rng = np.random.default_rng(int(case["seed"]))
    var = float(case["var"])

    def noise():
        return rng.uniform(-1.0, 1.0, size=shape)

    od = float(case["offdiag"])
    L = np.zeros((3, 3) + shape)
    for i in range(3):
        L[i, i] = 1.0 + 0.4 * var * noise()
    for n, (i, j) in enumerate([(1, 0), (2, 0), (2, 1)]):
        L[i, j] = od * (case["L"][n] + 0.5 * var * noise())
    G0 = np.einsum('ik...,jk...->ij...', L, L)
    s = np.array([10.0 ** (0.5 * case["logs"][i]) * (1.0 + 0.3 * var * noise())
                  for i in range(3)])
    gamma = s[:, None] * s[None, :] * G0
    # exact symmetry (the inputs are documented as symmetric tensors)
    gamma = 0.5 * (gamma + np.swapaxes(gamma, 0, 1))
    alpha = 10.0 ** case["loga"] * (1.0 + 0.5 * var * noise())
    dscale = np.sqrt(np.array([gamma[i, i] for i in range(3)]))
    betaup = np.array([case["bamp"][i] * (1.0 + 0.5 * var * noise())
                       * alpha / dscale[i] for i in range(3)])
    K = np.zeros((3, 3) + shape)
    for n, (i, j) in enumerate(SYM3):
        K[i, j] = case["kamp"] * (case["kc"][n] + 0.5 * var * noise()) \
            * dscale[i] * dscale[j]
        K[j, i] = K[i, j]
    fd = make_fd(list(shape), case["x0"], case["h"], 4, "no boundary")
    return dict(alpha=alpha, betaup=betaup, gamma=gamma, K=K, fd=fd,
                rng=rng, var=var, shape=shape)


def geo_inputs(f, form, omit_zero=False, case=None):
    """aurel input dictionary in the drawn input form.  With ``omit_zero``
    the components that are identically equal to their documented default
    ([ASSUME:...] in descriptions.yml) are left out, as the notebooks do."""
    d = {}
    if form == "tensors":
        d["gammadown3"] = f["gamma"].copy()
        d["Kdown3"] = f["K"].copy()
        d["betaup3"] = f["betaup"].copy()
    elif form == "components":
        for (i, j), sfx in zip(SYM3, ["xx", "xy", "xz", "yy", "yz", "zz"]):
            d["g" + sfx] = f["gamma"][i, j].copy()
            d["k" + sfx] = f["K"][i, j].copy()
        for i, a in enumerate("xyz"):
            d["beta" + a] = f["betaup"][i].copy()
        if omit_zero:
            defaults = dict(gxx=1.0, gyy=1.0, gzz=1.0)
            for k in list(d):
                if np.all(d[k] == defaults.get(k, 0.0)):
                    del d[k]
    else:
        raise HarnessError(form)
    d["alpha"] = f["alpha"].copy()
    return d


# ---------------------------------------------------------------------------
# equilibration and the round-off rule


def amax(a, lead):
    """max |a| over the ``lead`` leading (component) axes -> grid array"""
    a = np.abs(np.asarray(a, dtype=float))
    if lead == 0:
        return a
    return np.max(a.reshape((-1,) + a.shape[lead:]), axis=0)


def eq(T, idx, d):
    """Rescale tensor T (component axes first) to the equilibrated frame:
    'd' index a -> divide by d[a], 'u' index -> multiply by d[a]."""
    T = np.asarray(T, dtype=float)
    out = T.copy()
    n = len(idx)
    for ax, c in enumerate(idx):
        shp = [1] * n
        shp[ax] = d.shape[0]
        w = d.reshape(tuple(shp) + d.shape[1:])
        if c == 'd':
            out = out / w
        elif c == 'u':
            out = out * w
        else:
            raise HarnessError(idx)
    return out


def grid_to_last(A, lead):
    """(c1..cn, Nx,Ny,Nz) -> (Nx,Ny,Nz, c1..cn)"""
    return np.moveaxis(A, list(range(lead)), list(range(-lead, 0)))


def last_to_grid(A, lead):
    return np.moveaxis(A, list(range(-lead, 0)), list(range(lead)))


def kappa(Ahat):
    """Condition measure of an equilibrated symmetric matrix field (n,n,grid)
    with |entries| <~ 1: max(cond_2, M^n / |det|) point by point, M =
    max(1, max|entry|).  The second term bounds the forward error of a
    cofactor/determinant closed form (sum of |terms| / |det|)."""
    n = Ahat.shape[0]
    Al = grid_to_last(Ahat, 2)
    with np.errstate(all='ignore'):
        c2 = np.linalg.cond(Al)
        det = np.linalg.det(Al)
        M = np.maximum(1.0, amax(Ahat, 2))
        k = np.maximum(c2, M ** n / np.abs(det))
    k = np.where(np.isfinite(k), k, np.inf)
    return np.maximum(k, 1.0)


class Cmp:
    """Collects comparisons under the round-off rule.  ``kap`` is the grid
    array of condition numbers, ``c`` the constant."""

    def __init__(self, note, kap, c=256.0, eps=EPS):
        self.note = note
        self.kap = kap
        self.c = c
        self.eps = eps
        self.worst = {}

    def close(self, disc, got, want, scale, lead=None, c=None, kap=None,
              extra=None):
        """|got - want| <= c eps kap scale at every grid point. ``scale`` is
        a grid array (or number).  Returns True when it holds."""
        got = np.asarray(got)
        want = np.asarray(want)
        if got.shape != want.shape:
            self.note.fail(disc.split(":")[0] + ":shape",
                           dict(got=list(got.shape), want=list(want.shape)))
            return False
        if lead is None:
            lead = got.ndim - 3
        kap = self.kap if kap is None else kap
        c = self.c if c is None else c
        tol = c * self.eps * kap * scale
        with np.errstate(all='ignore'):
            err = amax(got - want, lead)
        bad = ~(err <= tol)          # NaN in err counts as bad
        bad &= np.isfinite(tol)      # undecidable where the bound is inf
        with np.errstate(all='ignore'):
            r = np.where(np.isfinite(tol) & (tol > 0), err / tol, 0.0)
        w = float(np.nanmax(r)) if r.size else 0.0
        key = disc
        self.worst[key] = max(self.worst.get(key, 0.0), w)
        if np.any(bad):
            p = np.unravel_index(int(np.argmax(np.where(bad, np.nan_to_num(
                err, nan=np.inf), -1.0))), err.shape)
            g = got[(Ellipsis,) + p] if lead else got[p]
            wv = want[(Ellipsis,) + p] if lead else want[p]
            obs = dict(point=[int(i) for i in p],
                       err=float(err[p]), tol=float(np.asarray(tol)[p]
                                                    if np.ndim(tol) else tol),
                       got=np.asarray(g).tolist(),
                       want=np.asarray(wv).tolist())
            if extra:
                obs.update(extra)
            self.note.fail(disc, obs)
            return False
        return True


# ---------------------------------------------------------------------------
# small linear-algebra helpers on (n, n, grid) fields and the textbook 3+1
# reference


def I_like(n, shape):
    out = np.zeros((n, n) + tuple(shape))
    for i in range(n):
        out[i, i] = 1.0
    return out


def mm(A, B):
    return np.einsum('ik...,kj...->ij...', A, B)


def inv_field(Ah, kap):
    """numpy.linalg.inv at the decidable points (identity elsewhere)."""
    n = Ah.shape[0]
    ok = np.isfinite(kap)
    Al = grid_to_last(Ah, 2).copy()
    Al[~ok] = np.eye(n)
    return last_to_grid(np.linalg.inv(Al), 2)


def det_field(Ah):
    return np.linalg.det(grid_to_last(Ah, 2))


def sym_scales(A):
    """d_i = sqrt(max_j |A_ij|) (1 where the row vanishes)"""
    m = np.max(np.abs(A), axis=1)
    return np.sqrt(np.where(m > 0, m, 1.0))


def decide(kap):
    return np.where(kap <= 1e10, kap, np.inf)


def offdiag_cond(Ah, A):
    n = Ah.shape[0]
    od = np.zeros(Ah.shape[2:])
    for i in range(n):
        for j in range(n):
            if i != j:
                od = np.maximum(od, np.abs(Ah[i, j]))
    with np.errstate(all='ignore'):
        c2 = np.linalg.cond(grid_to_last(A, 2))
    return od, c2


class Ref:
    """Textbook 3+1 reference written independently of aurel."""

    def __init__(self, f):
        gam, al, bu, K = f["gamma"], f["alpha"], f["betaup"], f["K"]
        shape = f["shape"]
        self.shape = shape
        self.d = np.sqrt(np.array([gam[i, i] for i in range(3)]))
        self.d4 = np.concatenate([al[None], self.d])
        self.Gh = eq(gam, 'dd', self.d)
        self.kap3 = decide(kappa(self.Gh))
        self.Ghi = inv_field(self.Gh, self.kap3)
        self.Gi = np.maximum(1.0, amax(self.Ghi, 2))
        self.gup = eq(self.Ghi, 'dd', self.d)
        self.vol = np.prod(self.d, axis=0) ** 2
        self.detGh = det_field(self.Gh)
        self.detgam = self.detGh * self.vol
        self.bd = np.zeros((3,) + shape)
        for i in range(3):
            for j in range(3):
                self.bd[i] += gam[i, j] * bu[j]
        self.bmag = sum(bu[i] * self.bd[i] for i in range(3))
        g4 = np.zeros((4, 4) + shape)
        g4[0, 0] = -al**2 + self.bmag
        g4[0, 1:] = self.bd
        g4[1:, 0] = self.bd
        g4[1:, 1:] = gam
        self.g4 = g4
        g4u = np.zeros((4, 4) + shape)
        g4u[0, 0] = -1.0 / al**2
        g4u[0, 1:] = bu / al**2
        g4u[1:, 0] = bu / al**2
        g4u[1:, 1:] = self.gup - np.einsum('i...,j...->ij...', bu, bu) / al**2
        self.g4u = g4u
        self.nup = np.concatenate([(1.0 / al)[None], -bu / al])
        self.ndown = np.zeros((4,) + shape)
        self.ndown[0] = -al
        # frame A (alpha, d_i): assembly of the 4-metric from 3+1 pieces
        self.g4h = eq(g4, 'dd', self.d4)
        self.bh = eq(bu, 'u', self.d) / al
        self.b = amax(self.bh, 1)
        self.M4 = np.maximum(1.0, amax(self.g4h, 2))
        # frame S (sqrt of row maxima of g, |entries| <= 1): everything
        # that involves the inverse / determinant of the 4-metric
        self.e4 = sym_scales(g4)
        self.g4s = eq(g4, 'dd', self.e4)
        self.g4us = eq(g4u, 'uu', self.e4)
        self.kap4 = decide(kappa(self.g4s))
        self.kap = np.maximum(self.kap3, self.kap4)
        self.M4us = np.maximum(1.0, amax(self.g4us, 2))
        self.vol4 = np.prod(self.e4, axis=0) ** 2
        self.Kh = eq(K, 'dd', self.d)
        self.Km = amax(self.Kh, 2)
        self.al = al
        self.gam = gam
        self.bu = bu
        self.K = K
        self.od, self.c2 = offdiag_cond(self.Gh, gam)


