"""Oracle self-tests (DESIGN 3.2). A failure here is a harness error."""
import numpy as np

from . import ref4d, spacetimes

_SPECS = [
    dict(family="W", params=dict(modes=[
        dict(A=[[0.03, 0.02, -0.01, 0.015], [0.02, 0.04, 0.01, -0.02],
                [-0.01, 0.01, -0.03, 0.012], [0.015, -0.02, 0.012, 0.02]],
             k=[0.7, 1.1, -0.6, 0.9], phi=0.4),
        dict(A=[[-0.02, 0.0, 0.01, 0.0], [0.0, 0.01, 0.02, 0.0],
                [0.01, 0.02, 0.02, -0.01], [0.0, 0.0, -0.01, 0.03]],
             k=[-0.4, 0.5, 0.8, -1.0], phi=2.0)])),
    dict(family="W", params=dict(modes=[
        dict(A=[[0.03, 0.0, 0.0, 0.0], [0.0, 0.04, 0.01, -0.02],
                [0.0, 0.01, -0.03, 0.012], [0.0, -0.02, 0.012, 0.02]],
             k=[0.7, 1.1, -0.6, 0.9], phi=0.4)],
        tshift=[dict(b=[0.05, -0.04, 0.03], k=[0.8, -0.5, 1.1], phi=0.7,
                     w=1.2)])),
    dict(family="F", params=dict(modes=[
        dict(c=[0.05, -0.04, 0.03, 0.06], k=[0.6, 0.9, -0.8, 0.5], phi=1.0),
        dict(c=[-0.03, 0.05, 0.04, -0.02], k=[-0.9, 0.4, 0.7, 1.1],
             phi=0.2)])),
    dict(family="KS", params=dict(M=0.2, boost=[0.2, -0.1, 0.15],
                                  rot=[0.3, -0.5, 0.2],
                                  offset=[0.0, 3.5, 0.4, -0.3])),
    dict(family="PP", params=dict(f=[0.05, 1.1, 0.3], h=[0.04, 0.8, 1.2])),
    dict(family="FL", params=dict(N=[0.3, 1.2, 0.5], a=[1.1, 0.2, 0.05,
                                                        1.3])),
]


def points():
    # fixed, deterministic sample points
    t = np.array([0.3, -0.2, 0.7, 0.1])
    x = np.array([0.25, -0.6, 0.4, 0.9])
    y = np.array([-0.35, 0.5, 0.15, -0.8])
    z = np.array([0.6, 0.2, -0.7, 0.3])
    return [t, x, y, z]


def run():
    P = points()
    for spec in _SPECS:
        m = spacetimes.build(spec)
        e1, e2 = ref4d.fd_check(m, P)
        assert e1 < 2e-9 and e2 < 2e-9, (spec["family"], e1, e2)
        ex = ref4d.exact(m, *P)
        fam = spec["family"]
        scale = max(1.0, float(np.max(np.abs(ex["ddg"]))))
        if fam == "F":
            assert np.max(np.abs(ex["R"])) < 1e-10 * scale, \
                ("F Riemann", np.max(np.abs(ex["R"])))
        if fam in ("KS", "PP"):
            assert np.max(np.abs(ex["Ric"])) < 1e-10 * scale, \
                (fam, "Ricci", np.max(np.abs(ex["Ric"])))
        if fam == "KS":
            kr = spacetimes.kretschmann_ks(spec["params"], *P)
            assert np.max(np.abs(ex["Kr"] - kr)) < 1e-9 * np.max(kr), \
                ("KS Kretschmann", ex["Kr"], kr)
        if fam == "PP":
            assert np.max(np.abs(ex["Kr"])) < 1e-12
            assert np.max(np.abs(ex["betaup"][0])) < 1e-14
            assert np.max(np.abs(ex["betaup"][2])) < 1e-14
            assert np.max(np.abs(ex["betaup"][1])) > 1e-4
        # signature: lapse real, gamma positive definite
        assert np.all(np.isfinite(ex["alpha"])) and np.all(ex["alpha"] > 0)
        ev = np.linalg.eigvalsh(np.moveaxis(ex["gamma"], (0, 1), (-2, -1)))
        assert np.all(ev > 0)
        # Weyl trace-free, Riemann symmetries, Bianchi (algebraic)
        C = ex["Weyl"]
        tr = np.einsum('ac...,abcd...->bd...', ex["gup"], C)
        cs = max(1e-3, float(np.max(np.abs(ex["R"]))))
        assert np.max(np.abs(tr)) < 1e-11 * max(cs, 1), ("Weyl trace", fam)
        R = ex["R"]
        assert np.max(np.abs(R + np.einsum('abcd...->bacd...', R))) < 1e-12
        assert np.max(np.abs(R - np.einsum('abcd...->cdab...', R))) < 1e-12
        cyc = (R + np.einsum('abcd...->acdb...', R)
               + np.einsum('abcd...->adbc...', R))
        assert np.max(np.abs(cyc)) < 1e-12 * max(cs, 1)
        # Gauss-Codazzi consistency of the split: Hamiltonian constraint
        # R3 + K^2 - K_ij K^ij = 2 kappa rho_n  with rho_n = T_ab n^a n^b
        Kup = np.einsum('ia...,jb...,ab...->ij...', ex["gammaup"],
                        ex["gammaup"], ex["K"])
        ham = (ex["s_RS"] + ex["Ktrace"]**2
               - np.einsum('ij...,ij...->...', ex["K"], Kup)
               - 2 * ref4d.KAPPA * np.einsum('ab...,a...,b...->...',
                                             ex["Tdown"], ex["nup"],
                                             ex["nup"]))
        assert np.max(np.abs(ham)) < 1e-10 * max(cs, 1), ("Ham", fam,
                                                          np.max(np.abs(ham)))
        # E, B symmetric, trace-free, spatial
        for nm in ("E_n", "B_n"):
            Q = ex[nm]
            assert np.max(np.abs(Q - np.einsum('ab...->ba...', Q))) \
                < 1e-11 * max(cs, 1), (nm, "sym", fam)
            assert np.max(np.abs(np.einsum('ab...,ab...->...', ex["gup"],
                                           Q))) < 1e-11 * max(cs, 1)
            assert np.max(np.abs(np.einsum('ab...,b...->a...', Q,
                                           ex["nup"]))) < 1e-11 * max(cs, 1)
    return True


if __name__ == "__main__":
    run()
    print("selftest ok")
