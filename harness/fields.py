"""Smooth test tensor fields with analytic derivatives: sums of sine modes.
A field spec is JSON: {'shape': [3,3], 'modes': [{'A': nested list of that
shape, 'k': [kt,kx,ky,kz], 'phi': f}], 'const': nested list or None}."""
import numpy as np


def evaluate(spec, T, X, Y, Z):
    """Return f[..., grid], df[c, ..., grid] (c = t,x,y,z)."""
    X = np.asarray(X, float)
    shp = X.shape
    P = np.array([np.broadcast_to(np.asarray(T, float), shp), X,
                  np.broadcast_to(Y, shp), np.broadcast_to(Z, shp)])
    ts = tuple(spec["shape"])
    nd = len(shp)
    f = np.zeros(ts + shp)
    df = np.zeros((4,) + ts + shp)
    if spec.get("const") is not None:
        f += np.array(spec["const"], float).reshape(ts + (1,) * nd)
    for m in spec["modes"]:
        A = np.array(m["A"], float).reshape(ts + (1,) * nd)
        k = np.array(m["k"], float)
        th = np.einsum('c,c...->...', k, P) + m["phi"]
        f += A * np.sin(th)
        c = np.cos(th)
        for a in range(4):
            df[a] += k[a] * A * c
    return f, df


def strategy(shape, symmetric=False, nmodes=(1, 2), kmax=1.2, periodic_L=None,
             amp=1.0):
    from hypothesis import strategies as st
    fl = lambda lo, hi: st.floats(lo, hi, allow_nan=False,  # noqa: E731
                                  allow_infinity=False, width=64)
    size = int(np.prod(shape)) if shape else 1

    @st.composite
    def s(draw):
        modes = []
        for _ in range(draw(st.integers(*nmodes))):
            vals = [draw(fl(-amp, amp)) for _ in range(size)]
            vals = [v if abs(v) > 0.2 * amp else 0.2 * amp for v in vals]
            A = np.array(vals).reshape(shape) if shape else np.array(vals[0])
            if symmetric and len(shape) == 2:
                A = 0.5 * (A + A.T)
            if periodic_L is not None:
                ns = [draw(st.integers(-1, 1)) for _ in range(3)]
                if not any(ns):
                    ns = [0, 1, 0]
                ks = [2 * np.pi * n / L for n, L in zip(ns, periodic_L)]
            else:
                ks = [draw(fl(-kmax, kmax)) for _ in range(3)]
                if max(abs(x) for x in ks) < 0.3 * kmax:
                    ks[draw(st.integers(0, 2))] = 0.6 * kmax
            modes.append(dict(A=A.tolist(), k=[draw(fl(-kmax, kmax))] + ks,
                              phi=draw(fl(0, 6.28))))
        return dict(shape=list(shape), modes=modes, const=None)
    return s()
