"""Shared machinery for the cache-history properties C01, C02, C03: one
AurelCore instance driven by a generated request history (DESIGN 4/C01-C03).

A *config* (JSON) fixes the input spacetime, grid, physical options and cache
settings; an *op* (JSON) is a request rel[key] or a helper call.  The same
functions serve the Hypothesis state machine and the replay of a saved log.
"""
import hashlib

import numpy as np

import aurel
from aurel.core import descriptions

from . import aurelside as A
from . import fields, ref4d, spacetimes
from .common import HarnessError

ALL_KEYS = list(descriptions.keys())
GUARD_KEYS = ["gdown4", "gammadown3", "Kdown3", "betaup3", "dtbetaup3", "rho",
              "rho0", "Tdown4", "s_Riemann_down3", "st_Ricci_down4",
              "st_Riemann_down4", "Momentumx", "betax"]
GUARD_DEPENDANTS = ["gtt", "gtx", "gdet", "gxx", "gxy", "gzz", "kxx", "kyz",
                    "betay", "betaz", "dtbetax", "dtbetaz", "eps", "rho0",
                    "Ttrace", "s_Ricci_down3", "s_RicciS", "st_Ricci_down3",
                    "st_RicciS", "Einsteindown4", "st_Weyl_down4", "Weyl_Psi",
                    "Weyl_invariants", "eweyl_u_down4", "bweyl_u_down4",
                    "Momentumup3", "Momentumy", "Momentumz", "Momentumdown3",
                    "Momentumx_norm", "Momentumdownz_norm", "Kretschmann",
                    "st_Riemann_uddd4", "st_Riemann_uudd4", "Psi4_lm",
                    "Hamiltonian", "dtKtrace", "accelerationdown4", "theta"]

def _func_names():
    """public AurelCore methods that take arguments (a bracket request hands
    back the bound method)"""
    import inspect
    out = []
    for n, f in inspect.getmembers(aurel.AurelCore, inspect.isfunction):
        if n.startswith("_") or n in descriptions:
            continue
        if f.__code__.co_argcount > 1 and n not in (
                "load_data", "myprint"):
            out.append(n)
    return sorted(out)


FUNC_NAMES = _func_names()

HELPERS = {
    "s_covd": ["", "u", "d", "uu", "dd", "ud", "du"],
    "s_div": ["u", "d", "uu", "dd", "ud", "du"],
    "s_curl": ["dd"],
    "st_covd": ["", "u", "d"],
    "Lie_beta": ["", "s_u", "s_d", "st_u", "st_d", "s_uu", "s_dd", "s_ud",
                 "s_du"],
    "s_to_st": ["dd"],
    "null_ray_expansion": ["out", "in"],
    "tetrad_base": [""],
    "null_vector_base": [""],
    "trace3": ["dd"], "trace4": ["dd4"], "tracefree3": ["dd"],
    "magnitude3": ["dd"], "magnitude4": ["dd4"],
    "norm3": ["u"], "norm4": ["u4"],
    "vector_inner_product3": ["u"], "vector_inner_product4": ["u4"],
    "levicivita_down3": [""], "levicivita_down4": [""],
}


def field_shape(helper, ix):
    if helper in ("trace4", "magnitude4"):
        return (4, 4)
    if helper in ("norm4", "vector_inner_product4"):
        return (4,)
    if helper == "st_covd":
        return () if ix == "" else (4,)
    if helper == "Lie_beta":
        if ix == "":
            return ()
        dim = 4 if ix.startswith("st_") else 3
        return (dim,) * len(ix.split("_")[1])
    if helper in ("null_ray_expansion",):
        return ()
    if helper in ("tetrad_base", "null_vector_base", "levicivita_down3",
                  "levicivita_down4"):
        return None
    return (3,) * len(ix)


# ---------------------------------------------------------------------------

class World:
    """Everything that is fixed during one history."""

    def __init__(self, cfg):
        self.cfg = cfg
        self.metric = spacetimes.build(cfg["spec"])
        self.order = int(cfg["order"])
        self.boundary = cfg["boundary"]
        self._fresh = {}
        self._fresh_hi = {}
        self.inputs_cache = {}

    def fd(self, order=None):
        c = self.cfg
        return A.make_fd(c["N"], c["x0"], c["h"], order or self.order,
                         self.boundary)

    def inputs(self, fd):
        """Fresh copies of the input arrays (pure function of the config)."""
        c = self.cfg
        ex = ref4d.exact(self.metric, c["t"], fd.x, fd.y, fd.z,
                         Lambda=c["Lambda"])
        matter = c["matter"]
        d = A.inputs_from_exact(ex, c["form"],
                                "Tdown4" if matter == "Tdown4" else "none",
                                omit=c.get("omit", ()))
        if matter == "fluid":
            rho = np.einsum('ab...,a...,b...->...', ex["Tdown"], ex["nup"],
                            ex["nup"])
            p = np.einsum('ij...,ij...->...', ex["gammaup"],
                          ex["Tdown"][1:, 1:]) / 3
            d["rho0"] = rho
            d["press"] = p
        for key, idx in c.get("nan_at", []):
            # excised / invalid points: NaN is a value users do put in inputs
            if key in d:
                d[key][(Ellipsis,) + tuple(idx)] = np.nan
        for k in c.get("extra_inputs", []):
            # additional documented inputs: a velocity / Lorentz factor field
            if k == "tracer":
                d["tracer"] = 0.5 + 0.25 * np.sin(fd.x + 2 * fd.y - fd.z)
            if k == "weylpsi":
                # the five Weyl scalars supplied directly (as the suite
                # supplies Weyl_Psi4r), Psi4 exactly zero on half of the grid
                w = [(0.3 + j) * np.cos(fd.x + 0.5 * j * fd.y)
                     + 1j * np.sin(fd.z - 0.25 * j * fd.x) * 0.2
                     for j in range(5)]
                w[4] = np.where(fd.x < np.median(fd.x), 0.0, w[4])
                w[1] = np.where(fd.y < np.median(fd.y), 0.0, w[1])
                d["Weyl_Psi"] = w
            if k == "gdown4x":
                # a 4-metric supplied as input next to the 3+1 variables and
                # not equal to the one they imply (values are compared with a
                # fresh instance holding the same inputs, so the inputs need
                # not be consistent with each other)
                d["gdown4"] = 1.21 * ex["g"]
            if k == "momentum":
                # momentum-constraint components as simulation output
                # (ML_BSSN M1..M3 read from Einstein Toolkit files)
                for j, c in enumerate("xyz"):
                    d["Momentum" + c] = 0.01 * (j + 1) * np.cos(
                        fd.x * (1 + j) - 0.5 * fd.y + 0.25 * j * fd.z)
            if k == "vel":
                s = 0.3
                nrm = np.sqrt(ex["gamma"][0, 0])
                d["velx"] = s / nrm
                d["w_lorentz"] = np.ones_like(nrm) / np.sqrt(1 - s * s)
        return d, ex

    def kwargs(self, cache=True):
        c = self.cfg
        # the instance under test is sometimes created with the default
        # verbose=True (its output is swallowed); fresh instances are quiet
        kw = dict(verbose=bool(cache and c.get("verbose")),
                  Lambda=c["Lambda"], vacuum=c["vacuum"],
                  tetrad=c["tetrad"], lmax=c.get("lmax", 2))
        if c.get("extract_radii") is not None:
            kw["extract_radii"] = c["extract_radii"]
        if c.get("center") is not None:
            kw["center"] = tuple(c["center"])
        if cache:
            kw["clear_cache_every_nbr_calc"] = c["clear_every"]
            kw["memory_threshold_inGB"] = c["mem_gb"]
        return kw

    def new_rel(self, cache=True, order=None, freeze="freeze_data",
                readonly=False):
        if cache and self.cfg.get("verbose"):
            import contextlib
            import io
            with contextlib.redirect_stdout(io.StringIO()):
                return self._new_rel(cache, order, freeze, readonly)
        return self._new_rel(cache, order, freeze, readonly)

    def _new_rel(self, cache, order, freeze, readonly):
        fd = self.fd(order)
        data, ex = self.inputs(fd)
        rel = aurel.AurelCore(fd, **self.kwargs(cache))
        if readonly:
            for v in data.values():
                for _, leaf in leaves(v):
                    if isinstance(leaf, np.ndarray):
                        leaf.setflags(write=False)
        if freeze == "load_data":
            sim = {k: [None, v] for k, v in data.items()}
            rel.load_data(sim, 1)
        elif freeze == "hand_then_load_data":
            # some inputs set by hand first (e.g. a lapse missing from the
            # simulation output), the rest loaded: load_data freezes the
            # data dictionary
            keys = sorted(data)
            for k in keys[::2]:
                rel.data[k] = data[k]
            sim = {k: [None, data[k]] for k in keys[1::2]}
            rel.load_data(sim, 1)
        else:
            for k, v in data.items():
                rel.data[k] = v
            rel.freeze_data()
        for k, v in self.cfg.get("importance", {}).items():
            if k not in data:   # never un-freeze an input ourselves
                rel.var_importance[k] = v
        return rel, data, fd

    # -- operations ---------------------------------------------------------
    def helper_args(self, op, fd):
        shp = field_shape(op["helper"], op["ix"])
        if shp is None:
            return None
        f, df = fields.evaluate(op["field"], self.cfg["t"], fd.x, fd.y, fd.z)
        return f, df

    def apply(self, rel, fd, op):
        """Execute one op on `rel`; returns the value (exceptions propagate)."""
        if op["op"] == "get":
            return rel[op["key"]]
        if op["op"] == "freeze":
            # public API: everything cached so far becomes frozen
            rel.freeze_data()
            return np.zeros(())
        if op["op"] == "getfunc":
            # bracket request for a method that takes arguments: documented
            # to hand back the function itself (nothing is cached)
            f = rel[op["name"]]
            if not callable(f):
                raise TypeError(f"rel[{op['name']!r}] is not callable")
            return np.ones(())
        h, ix = op["helper"], op["ix"]
        args = self.helper_args(op, fd)
        if h in ("tetrad_base", "null_vector_base", "levicivita_down3",
                 "levicivita_down4"):
            return getattr(rel, h)()
        f, df = args
        if h in ("s_covd", "s_div", "s_curl"):
            return getattr(rel, h)(f, ix)
        if h == "st_covd":
            return rel.st_covd(f, df[0], ix)
        if h == "Lie_beta":
            return rel.Lie_beta(f, ix, weight=op.get("weight", 0))
        if h == "null_ray_expansion":
            F = 1.0 + f * 0.1 + fd.x * 0.7 + fd.y * 0.2 - fd.z * 0.4
            return rel.null_ray_expansion(F, direction=ix)
        if h in ("vector_inner_product3", "vector_inner_product4"):
            return getattr(rel, h)(f, 0.5 * f + 0.25)
        return getattr(rel, h)(f)

    def fresh(self, op, hi=False):
        """Value a fresh instance (only the inputs, never-evicting cache)
        returns for this single request; memoised. hi=True: FD order p+2."""
        memo = self._fresh_hi if hi else self._fresh
        key = _opkey(op)
        if key not in memo:
            rel, _, fd = self.new_rel(cache=False,
                                      order=self.order + 2 if hi else None)
            try:
                memo[key] = ("ok", self.apply(rel, fd, op))
            except RecursionError as e:
                memo[key] = ("raises", type(e).__name__)
            except Exception as e:  # noqa: BLE001
                memo[key] = ("raises", type(e).__name__)
        return memo[key]


def _opkey(op):
    import json
    return json.dumps(op, sort_keys=True)


# ---------------------------------------------------------------------------
# comparison of nested results

def leaves(v, path=""):
    if isinstance(v, np.ndarray):
        yield path, v
    elif isinstance(v, dict):
        for k in sorted(v, key=repr):
            yield from leaves(v[k], f"{path}/{k}")
    elif isinstance(v, (list, tuple)):
        for i, x in enumerate(v):
            yield from leaves(x, f"{path}/{i}")
    elif v is None:
        yield path, None
    elif callable(v):
        yield path, "<callable>"
    else:
        yield path, np.asarray(v)


def discrepancy(a, b):
    """max over leaves of |a-b| / max(1, max|b|); inf on structure mismatch."""
    la, lb = list(leaves(a)), list(leaves(b))
    if [p for p, _ in la] != [p for p, _ in lb]:
        return float("inf"), "structure"
    worst, where = 0.0, ""
    for (p, x), (_, y) in zip(la, lb):
        if x is None or y is None or isinstance(x, str) or isinstance(y, str):
            if not (x is None and y is None) and not (
                    isinstance(x, str) and isinstance(y, str)):
                return float("inf"), p
            continue
        if x.shape != y.shape:
            return float("inf"), p + ":shape"
        if x.size == 0:
            continue
        with np.errstate(all="ignore"):
            d = np.abs(x - y)
        # points where either side is NaN (excised input cells) are not
        # compared: algebraically equivalent branches propagate NaN
        # differently (e.g. det g via the 4x4 determinant vs -alpha^2 gamma
        # with a NaN shift component), which the property does not forbid
        d = np.where(np.isnan(d), 0.0, d)
        sc = max(1.0, float(np.nanmax(np.abs(y))) if np.any(np.isfinite(y))
                 else 1.0)
        v = float(np.max(d)) / sc
        if v > worst:
            worst, where = v, p
    return worst, where


def digest(a):
    b = np.ascontiguousarray(a)
    return hashlib.blake2b(b.view(np.uint8).tobytes() if b.dtype != object
                           else repr(b.tolist()).encode(),
                           digest_size=12).hexdigest()


def base_of(a):
    while isinstance(a, np.ndarray) and a.base is not None \
            and isinstance(a.base, np.ndarray):
        a = a.base
    return a


# ---------------------------------------------------------------------------
# Hypothesis strategies for configs and ops

def strategies():
    from hypothesis import strategies as st
    S = spacetimes.strategies()
    dy = A.dyadic_strategies()
    f = S["f"]

    @st.composite
    def config(draw, aggressive=False, with_importance=False,
               loose_flags=False):
        kind = draw(st.sampled_from(["Wp", "Wp", "Wn", "Wn", "KS", "PP", "F",
                                     "FL"]))
        order = draw(st.sampled_from([2, 4, 4, 4]))
        if kind == "Wp":
            N = [draw(st.integers(6, 9)) for _ in range(3)]
            h = [draw(dy(0.0625, 0.125)) for _ in range(3)]
            L = [n * x for n, x in zip(N, h)]
            spec = draw(S["wavy"](periodic_L=L, kmax=1.0, nmodes=(1, 2)))
            boundary = "periodic"
        else:
            N = [draw(st.integers(9, 11)) for _ in range(3)]
            h = [draw(dy(0.0625, 0.125)) for _ in range(3)]
            L = [(n - 1) * x for n, x in zip(N, h)]
            boundary = "no boundary"
            if kind == "Wn":
                spec = draw(S["wavy"](kmax=1.5, nmodes=(1, 2)))
            elif kind == "KS":
                spec = draw(S["ks"]())
            elif kind == "PP":
                spec = draw(S["pp"]())
            elif kind == "F":
                spec = draw(S["flat"](kmax=1.5))
            else:
                spec = draw(S["fl"]())
        # box around the origin (default extraction sphere centre)
        x0 = [-round(64 * (0.35 + 0.3 * draw(f(0, 1))) * l) / 64 for l in L]
        fam = spec["family"]
        Lambda = 0.0
        vacuum = False
        omit = []
        if fam in spacetimes.VACUUM:
            matter = draw(st.sampled_from(["none", "vacuum", "Tdown4"]))
            vacuum = matter == "vacuum"
            matter = "none" if vacuum else matter
        elif fam == "FL":
            matter = draw(st.sampled_from(["fluid", "Tdown4"]))
        else:
            matter = "Tdown4"
        if matter in ("Tdown4", "fluid") and draw(st.booleans()):
            Lambda = draw(f(-0.3, 0.3))
        if loose_flags and draw(st.integers(0, 2)) == 0:
            # the constructor flags need not describe the data (digest and
            # bookkeeping oracles do not look at values): vacuum=True on any
            # spacetime, with or without a cosmological constant
            vacuum = True
            matter = "none"
            Lambda = draw(st.sampled_from([0.0, 0.25, -0.1]))
        form = draw(st.sampled_from(["components", "tensors"]))
        if form == "components":
            if fam == "PP" and draw(st.booleans()):
                # components equal to their documented default are omitted
                omit = ["betax", "betaz", "dtbetax", "dtbetaz"]
            if fam == "FL":
                omit = draw(st.sampled_from([
                    [], ["betax", "betay", "betaz", "dtbetax", "dtbetay",
                         "dtbetaz", "gxy", "gxz", "gyz", "kxy", "kxz",
                         "kyz"]]))
        scalar_gb = N[0] * N[1] * N[2] * 8 / 1024 ** 3
        if aggressive or draw(st.booleans()):
            clear_every = draw(st.integers(1, 6))
            mem_gb = scalar_gb * draw(f(0.5, 60.0))
        else:
            clear_every = draw(st.integers(1, 30))
            mem_gb = draw(st.sampled_from([4, 4, scalar_gb * 200,
                                           scalar_gb * 30]))
        cfg = dict(spec=spec, t=draw(f(-1, 1)), N=N, h=h, x0=x0, order=order,
                   boundary=boundary, Lambda=Lambda, vacuum=vacuum,
                   matter=matter, form=form, omit=omit,
                   tetrad=draw(st.sampled_from(["quasi-Kinnersley",
                                                "fluid"])),
                   clear_every=clear_every, mem_gb=mem_gb, lmax=2,
                   extra_inputs=((["vel"] if matter == "Tdown4"
                                  and draw(st.booleans()) else [])
                                 + (["tracer"] if draw(st.booleans())
                                    else [])
                                 + (["momentum"]
                                    if draw(st.integers(0, 5)) == 0 else [])
                                 # (inconsistent inputs: only where the
                                 # oracle does not compare values between
                                 # algebraically equivalent branches)
                                 + (["gdown4x"] if loose_flags
                                    and draw(st.integers(0, 7)) == 0
                                    else [])
                                 + (["weylpsi"] if loose_flags
                                    and draw(st.integers(0, 7)) == 0
                                    else [])),
                   freeze=draw(st.sampled_from(["freeze_data", "load_data",
                                                "hand_then_load_data"])))
        if draw(st.integers(0, 7)) == 0:
            cfg["verbose"] = True
        if draw(st.integers(0, 3)) == 0:
            # non-default centre of the extraction spheres / horizon finder
            cfg["center"] = [draw(st.sampled_from([0.0, 1.0, -2.0, 0.5])) * x
                             for x in h]
        if draw(st.integers(0, 3)) == 0:
            cand = [k for k in ("kxx", "kyz", "Kdown3", "gxx", "gammadown3",
                                "alpha", "betay", "betaup3", "Tdown4")]
            cfg["nan_at"] = [[draw(st.sampled_from(cand)),
                              [draw(st.integers(0, n - 1)) for n in N]]
                             for _ in range(draw(st.integers(1, 2)))]
        if with_importance:
            ks = draw(st.lists(st.sampled_from(ALL_KEYS), max_size=4,
                               unique=True))
            cfg["importance"] = {k: draw(st.sampled_from(
                [0, 0.002, 0.1, 1, 10])) for k in ks}
        return cfg

    weighted = (ALL_KEYS + GUARD_KEYS * 6 + GUARD_DEPENDANTS * 3
                + ["tracer"] * 4)

    def get_op():
        return st.sampled_from(weighted).map(
            lambda k: dict(op="get", key=k))

    @st.composite
    def helper_op(draw):
        h = draw(st.sampled_from(sorted(HELPERS)))
        ix = draw(st.sampled_from(HELPERS[h]))
        op = dict(op="helper", helper=h, ix=ix)
        shp = field_shape(h, ix)
        if shp is not None:
            sym = h in ("s_curl", "s_to_st") or (h == "s_div"
                                                 and ix in ("uu", "dd"))
            op["field"] = draw(fields.strategy(shp, symmetric=sym,
                                               nmodes=(1, 1), kmax=1.5))
        if h == "Lie_beta":
            op["weight"] = draw(st.sampled_from([0, 0, 1.0, -2 / 3, 1 / 6]))
        return op

    def misc_op():
        return st.one_of(
            [st.sampled_from(FUNC_NAMES).map(
                lambda n: dict(op="getfunc", name=n))] * 7
            + [get_op()] * 8 + [st.just(dict(op="freeze"))])

    return dict(config=config, get_op=get_op, helper_op=helper_op,
                misc_op=misc_op)


# ---------------------------------------------------------------------------
# one history

ALGEBRAIC_KEYS = ["alpha", "gammadet", "Ktrace", "betamag", "gxx", "gyz",
                  "kxx", "kyz", "betax", "betay", "betaz", "gammadown3",
                  "Kdown3", "betaup3", "Kup3", "A2", "gdet", "gtt", "nup4",
                  "gup4", "gammaup3", "psi_bssnok", "Adown3", "dtalpha",
                  "dtbetaup3"]

_DEPS = {}


def dependencies():
    """key -> set of keys it reads (probe run on flat default data)."""
    if _DEPS:
        return _DEPS
    fd = A.make_fd([6, 6, 6], [-0.25, -0.25, -0.25], [0.125] * 3, 2,
                   "periodic")

    class Probe(aurel.AurelCore):
        stack = []

        def __getitem__(self, key):
            if Probe.stack:
                _DEPS.setdefault(Probe.stack[-1], set()).add(key)
            if key in self.data:
                return self.data[key]
            Probe.stack.append(key)
            try:
                return aurel.AurelCore.__getitem__(self, key)
            finally:
                Probe.stack.pop()
    for k in ALL_KEYS:
        # both tetrad choices and both vacuum settings read different keys
        for kw in (dict(), dict(tetrad="fluid"), dict(vacuum=True)):
            rel = Probe(fd, verbose=False, lmax=2, **kw)
            try:
                rel[k]
            except Exception:  # noqa: BLE001
                pass
        _DEPS.setdefault(k, set())
    return _DEPS


class Timeout(Exception):
    pass


class Run:
    TOL = 1e-10

    def __init__(self, mode, cfg, excluded=()):
        from .common import PropertyFailure  # noqa: F401
        self.mode = mode
        self.cfg = cfg
        self.excluded = set(excluded)
        self.world = World(cfg)
        self.readonly = bool(cfg.get("readonly", False)) and mode == "digests"
        self.rel, self.inputs, self.fd = self.world.new_rel(
            cache=True, freeze=cfg.get("freeze", "freeze_data"),
            readonly=self.readonly)
        self.frozen = {k: (v, digest(v)) for k, v in self.inputs.items()}
        self.log = []
        self.classes = {}
        self.evictions = 0
        self.guard_before_dependant = 0
        self.operand_reuse = 0
        self.cleanups_removed = 0
        self.tracked = {}     # id -> (array, digest, label)
        for k, v in self.inputs.items():
            if isinstance(v, np.ndarray):
                self.track(v, f"input:{k}")
            else:
                for pth, leaf in leaves(v):
                    self.track(leaf, f"input:{k}{pth}")
        # the grid object is user-supplied too (and shared between instances)
        for k, v in sorted(vars(self.fd).items()):
            if isinstance(v, np.ndarray):
                self.track(v, f"fd.{k}")
        self.prev_keys = set(self.rel.data)
        self.prev_count = 0
        self.seen_keys = set()

    def cls(self, name):
        self.classes[name] = self.classes.get(name, 0) + 1

    def nontrivial(self):
        if self.mode == "values":
            return self.evictions > 0 or self.guard_before_dependant > 0
        if self.mode == "digests":
            return self.operand_reuse > 0
        return self.cleanups_removed > 0

    # -- C02 ---------------------------------------------------------------
    def track(self, a, label):
        if not isinstance(a, np.ndarray) or a.dtype == object:
            return
        for arr in (a, base_of(a)):
            if id(arr) not in self.tracked:
                self.tracked[id(arr)] = (arr, digest(arr), label)

    def verify_digests(self, fails, opname):
        for arr, dg, label in self.tracked.values():
            if digest(arr) != dg:
                fails.append((f"modified:{label.split('#')[0]}",
                              dict(by=opname, array=label)))
                # re-baseline so that one modification is reported once
                self.tracked[id(arr)] = (arr, digest(arr), label)

    # -- the step ----------------------------------------------------------
    def name(self, op):
        if op["op"] == "freeze":
            return "freeze_data()"
        if op["op"] == "getfunc":
            return f"[{op['name']}]"
        return op["key"] if op["op"] == "get" else \
            f"{op['helper']}({op['ix']})"

    def step(self, op):
        from .common import PropertyFailure
        self.log.append(op)
        fails = []
        nm = self.name(op)
        rel = self.rel
        was_cached = op["op"] == "get" and op["key"] in rel.data
        before = set(rel.data)
        count_before = rel.calculation_count
        if op["op"] == "get":
            deps = dependencies().get(op["key"], set())
            if any(g in rel.data and g not in self.inputs
                   for g in GUARD_KEYS if g in deps):
                self.guard_before_dependant += 1
            if not was_cached and any(
                    d in rel.data and d not in self.inputs for d in deps):
                self.operand_reuse += 1
        try:
            if self.cfg.get("verbose"):
                import contextlib
                import io
                with contextlib.redirect_stdout(io.StringIO()):
                    a = ("ok", self.world.apply(rel, self.fd, op))
            else:
                a = ("ok", self.world.apply(rel, self.fd, op))
        except RecursionError as e:
            a = ("raises", type(e).__name__, str(e)[:200])
        except Exception as e:  # noqa: BLE001
            a = ("raises", type(e).__name__, str(e)[:200])
        after = set(rel.data)
        removed = before - after
        if removed:
            self.evictions += 1
            self.cleanups_removed += 1 if any(
                k in after for k in self.inputs) else 0
        self.cls("op:" + op["op"])
        if was_cached:
            self.cls("cache-hit")
        if op["op"] == "freeze" and a[0] == "ok":
            # from now on these entries are frozen too
            for k, v in rel.data.items():
                if k not in self.frozen and isinstance(v, np.ndarray) \
                        and v.dtype != object:
                    self.frozen[k] = (v, digest(v))
                    if k not in self.inputs:
                        self.cls("computed-entry-frozen")

        if self.mode == "values":
            self.check_value(op, nm, a, fails)
        elif self.mode == "digests":
            if a[0] == "ok":
                for p, leaf in leaves(a[1]):
                    self.track(leaf, f"{nm}#{p}")
            elif "read-only" in a[2]:
                fails.append((f"write-to-readonly:{nm}", dict(error=a[2])))
            self.verify_digests(fails, nm)
        else:
            self.check_bookkeeping(op, nm, a, before, after, count_before,
                                   fails)
        fails = [(d, o) for d, o in fails if d not in self.excluded]
        if fails:
            raise PropertyFailure(fails[0][0], fails[0][1], multi=fails)

    # -- C01 ---------------------------------------------------------------
    def check_value(self, op, nm, a, fails):
        if op.get("key") == "Momentumup3" and a[0] == "ok" and all(
                "Momentum" + c in self.inputs for c in "xyz"):
            # supplied components are the vector (no recomputation)
            self.cls("Momentumup3-from-supplied-components")
            want = np.array([self.inputs["Momentum" + c] for c in "xyz"])
            if not np.array_equal(np.asarray(a[1]), want):
                fails.append(("value:Momentumup3:not-the-supplied-components",
                              {}))
        b = self.world.fresh(op)
        if a[0] == "raises" or b[0] == "raises":
            if a[0] == b[0] and a[1] == b[1]:
                self.cls("both-raise")
                return
            fails.append((f"raise-mismatch:{nm}",
                          dict(history=a[1:] if a[0] == "raises" else "ok",
                               fresh=b[1:] if b[0] == "raises" else "ok")))
            return
        d, where = discrepancy(a[1], b[1])
        if d <= self.TOL:
            return
        bh = self.world.fresh(op, hi=True)
        E = discrepancy(bh[1], b[1])[0] if bh[0] == "ok" else 0.0
        if d <= self.TOL + 10 * E:
            self.cls("branch-difference-within-10E")
            return
        # adjudicate: the same history at FD order p+2
        d_hi = self.replay_discrepancy()
        if d_hi is not None and d_hi <= max(self.TOL, d / 4):
            self.cls("adjudicated-discretisation")
            return
        fails.append((f"value:{nm}", dict(discrepancy=d, leaf=where, E_k=E,
                                          discrepancy_at_higher_order=d_hi)))

    def replay_discrepancy(self):
        w2 = World(self.cfg)
        try:
            rel, _, fd = w2.new_rel(cache=True, order=w2.order + 2,
                                    freeze=self.cfg.get("freeze",
                                                        "freeze_data"))
            v = None
            for op in self.log:
                try:
                    v = ("ok", w2.apply(rel, fd, op))
                except Exception as e:  # noqa: BLE001
                    v = ("raises", type(e).__name__)
            bh = self.world.fresh(self.log[-1], hi=True)
            if v[0] != "ok" or bh[0] != "ok":
                return None
            return discrepancy(v[1], bh[1])[0]
        except Exception:  # noqa: BLE001
            return None

    # -- C03 ---------------------------------------------------------------
    def check_bookkeeping(self, op, nm, a, before, after, count_before,
                          fails):
        rel = self.rel
        if a[0] == "raises":
            b = self.world.fresh(op)
            if not (b[0] == "raises" and b[1] == a[1]):
                fails.append((f"raises:{a[1]}", dict(op=nm, error=a[2])))
        # (i) frozen inputs still there, same object, same contents
        for k, (arr, dg) in self.frozen.items():
            if k not in rel.data:
                fails.append(("frozen-input-evicted", dict(key=k, by=nm)))
            elif rel.data[k] is not arr:
                fails.append(("frozen-input-replaced", dict(key=k, by=nm)))
            elif digest(arr) != dg:
                fails.append(("frozen-input-altered", dict(key=k, by=nm)))
                self.frozen[k] = (arr, digest(arr))
            if rel.var_importance.get(k, 1.0) != 0:
                fails.append(("frozen-importance-changed", dict(key=k)))
        # keys the user froze through var_importance are never evicted either
        for k, imp in self.cfg.get("importance", {}).items():
            if imp == 0 and k in before and k not in after:
                fails.append(("importance0-key-evicted", dict(key=k, by=nm)))
        # (ii) age table describes exactly cached entries
        extra = set(rel.last_accessed) - set(rel.data)
        if extra:
            fails.append(("last_accessed-not-subset-of-data",
                          dict(keys=sorted(extra)[:5])))
        # (iv) only whole entries removed: survivors keep object identity
        # (v) counters
        if rel.calculation_count < count_before:
            fails.append(("calculation_count-decreased", {}))
        bad = [k for k, t in rel.last_accessed.items()
               if t > rel.calculation_count]
        if bad:
            fails.append(("last_accessed-in-the-future", dict(keys=bad[:5])))
        # (vi) no silent fall-back to defaults: algebraic keys equal fresh
        if op["op"] == "get" and a[0] == "ok" and \
                op["key"] in ALGEBRAIC_KEYS:
            b = self.world.fresh(op)
            if b[0] == "ok":
                d, where = discrepancy(a[1], b[1])
                if d > self.TOL:
                    fails.append((f"fallback-or-stale:{op['key']}",
                                  dict(discrepancy=d)))


def make_machine(mode, cfg_kwargs, stats, excluded, last, ctl):
    import time

    from hypothesis import strategies as st
    from hypothesis.stateful import (RuleBasedStateMachine, initialize,
                                     precondition, rule)

    from .common import PropertyFailure, fingerprint, to_json
    S = strategies()

    class Machine(RuleBasedStateMachine):
        def __init__(self):
            super().__init__()
            self.run = None
            self.dead = False

        @initialize(cfg=S["config"](**cfg_kwargs),
                    readonly=st.booleans())
        def init(self, cfg, readonly):
            cfg = dict(cfg, readonly=readonly)
            self.run = Run(mode, cfg, excluded)

        def _skip(self):
            if ctl.get("t_end") and time.time() > ctl["t_end"]:
                return True
            if ctl.get("shrink_t0") and \
                    time.time() - ctl["shrink_t0"] > ctl["shrink_budget"]:
                return True
            return self.dead or self.run is None

        def _step(self, op):
            if self._skip():
                return
            try:
                self.run.step(op)
            except PropertyFailure as e:
                self.dead = True
                last["case"] = to_json(dict(cfg=self.run.cfg,
                                            ops=self.run.log))
                last["multi"] = [(d, to_json(o)) for d, o in e.multi]
                if ctl.get("shrink_t0") is None:
                    ctl["shrink_t0"] = time.time()
                raise

        @rule(op=S["get_op"]())
        def get(self, op):
            self._step(op)

        @rule(op=S["get_op"]())
        def get2(self, op):
            self._step(op)

        @rule(op=S["get_op"]())
        def get3(self, op):
            self._step(op)

        @rule(op=S["helper_op"]())
        def helper(self, op):
            self._step(op)

        @rule(op=S["misc_op"]())
        def misc(self, op):
            self._step(op)

        @precondition(lambda self: self.run is not None and self.run.log)
        @rule(i=st.integers(0, 10 ** 6))
        def reaccess(self, i):
            self._step(self.run.log[i % len(self.run.log)])

        def teardown(self):
            r = self.run
            if r is None:
                return
            stats.evaluations += 1
            for k, v in r.classes.items():
                stats.classes[k] = stats.classes.get(k, 0) + v
            c = r.cfg
            for k in (c["spec"]["family"], c["boundary"], c["form"],
                      f"matter={c['matter']}", f"freeze={c.get('freeze')}"):
                stats.classes[k] = stats.classes.get(k, 0) + 1
            stats.classes["histories-with-eviction"] = stats.classes.get(
                "histories-with-eviction", 0) + (1 if r.evictions else 0)
            stats.classes["steps"] = stats.classes.get("steps", 0) + \
                len(r.log)
            if r.nontrivial():
                case = dict(cfg=r.cfg, ops=r.log)
                stats.nontrivial.add(fingerprint(case))
                if len(stats.samples) < 2:
                    stats.samples.append(to_json(dict(
                        cfg={k: v for k, v in r.cfg.items() if k != "spec"},
                        family=r.cfg["spec"]["family"],
                        ops=[r.name(o) for o in r.log])))
    return Machine


def replay(mode, case, note):
    from .common import PropertyFailure
    run = Run(mode, case["cfg"], note.excluded)
    try:
        for op in case["ops"]:
            run.step(op)
    except PropertyFailure as e:
        for d, o in e.multi:
            note.fail(d, o)
    note.nt(run.nontrivial())
    for k in run.classes:
        note.cls(k)
