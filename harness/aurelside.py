"""Feeding exact spacetimes to the real aurel code and the convergence rule
(DESIGN 3.1 input forms, 3.4 comparison rules)."""
import os

import numpy as np

import aurel

from . import ref4d, spacetimes
from .common import HarnessError, PropertyFailure

COMP3 = [(0, 0, 'xx'), (0, 1, 'xy'), (0, 2, 'xz'), (1, 1, 'yy'),
         (1, 2, 'yz'), (2, 2, 'zz')]


def make_param(N, x0, h):
    """Grid with exactly N[i] points at x0[i] + j*h[i]. The start is nudged
    by a few ulp if numpy.arange would produce a different count (that
    rounding issue is property C16's business, not this check's)."""
    prm = {}
    for a, n, o, d in zip('xyz', N, x0, h):
        o = float(o)
        if len(np.arange(o, o + n * d, d)) != n:
            raise HarnessError(f"cannot build grid {n} {o} {d}: use dyadic "
                               "spacings (harness.aurelside.dyadic)")
        prm['N' + a] = int(n)
        prm[a + 'min'] = o
        prm['d' + a] = float(d)
    return prm


def make_fd(N, x0, h, order, boundary):
    prm = make_param(N, x0, h)
    # mode name as run-time data (an equal string, not a literal's object)
    boundary = "".join(list(boundary))
    fd = aurel.FiniteDifference(prm, boundary=boundary, fd_order=order,
                                verbose=False)
    if (fd.Nx, fd.Ny, fd.Nz) != tuple(N):
        raise HarnessError("grid size mismatch")
    return fd


def inputs_from_exact(ex, form="components", matter="Tdown4", omit=()):
    """Dictionary of aurel input arrays built from the exact fields."""
    d = {}
    if form == "components":
        for i, j, s in COMP3:
            d['g' + s] = ex["gamma"][i, j].copy()
            d['k' + s] = ex["K"][i, j].copy()
        for i, s in enumerate('xyz'):
            d['beta' + s] = ex["betaup"][i].copy()
            d['dtbeta' + s] = ex["dtbetaup"][i].copy()
    elif form == "tensors":
        d['gammadown3'] = ex["gamma"].copy()
        d['Kdown3'] = ex["K"].copy()
        d['betaup3'] = ex["betaup"].copy()
        d['dtbetaup3'] = ex["dtbetaup"].copy()
    else:
        raise HarnessError(form)
    d['alpha'] = ex["alpha"].copy()
    d['dtalpha'] = ex["dtalpha"].copy()
    if matter == "Tdown4":
        d['Tdown4'] = ex["Tdown"].copy()
    for k in omit:
        d.pop(k, None)
    return d


DEFAULT_ONE = {"gxx", "gyy", "gzz", "alpha"}


def drop_defaults(d):
    """Remove inputs that equal their documented default everywhere (the
    notebooks supply only what differs from Minkowski): zero shift / K /
    off-diagonal components, unit diagonal metric and lapse, zero dt's."""
    out = {}
    for k, v in d.items():
        if k in ("Tdown4", "gammadown3", "Kdown3"):
            out[k] = v
            continue
        ref = 1.0 if k in DEFAULT_ONE else 0.0
        if np.all(v == ref):
            continue
        out[k] = v
    return out


def make_rel(fd, data, Lambda=0.0, vacuum=False, **kw):
    rel = aurel.AurelCore(fd, verbose=False, Lambda=Lambda, vacuum=vacuum,
                          **kw)
    for k, v in data.items():
        rel.data[k] = v
    rel.freeze_data()
    return rel


def dyadic_strategies():
    """Hypothesis strategies for grid origins/spacings that are dyadic
    rationals, so that xmin + N*dx is exact and numpy.arange yields exactly N
    points (whether it does for other floats is property C16's business)."""
    from hypothesis import strategies as st
    h = lambda lo, hi, den=128: st.integers(  # noqa: E731
        int(np.ceil(lo * den)), int(np.floor(hi * den))).map(
            lambda i: i / den)
    return h


class Setup:
    """A (spacetime, time, box, order, boundary) configuration evaluated at a
    given resolution level (0 = coarse, 1 = fine, 2 = finer)."""

    def __init__(self, case):
        self.case = case
        self.spec = case["spec"]
        self.metric = spacetimes.build(self.spec)
        self.t = float(case.get("t", 0.0))
        self.order = int(case.get("order", 4))
        self.boundary = case.get("boundary", "no boundary")
        self.Lambda = float(case.get("Lambda", 0.0))
        self.vacuum = bool(case.get("vacuum", False))
        self.form = case.get("form", "components")
        self.matter = case.get("matter", "Tdown4")
        self.N1 = list(case["N"])
        self.x0 = list(case["x0"])
        # coarse spacing: dyadic rationals keep numpy.arange exact
        self.h1 = list(case["h"])
        self.m = self.order // 2
        self.kw = dict(case.get("kw", {}))
        # drawn cache settings override the check's default ones
        self.kw.update(case.get("cache_kw", {}))
        # Einstein's constant is a documented public attribute (default
        # 8 pi); units with kappa = 1 are set by assigning rel.kappa
        self.kappa = float(case.get("kappa", ref4d.KAPPA))

    def grid(self, level):
        f = 2 ** (level + int(self.case.get("level_shift", 0)))
        h = [x / f for x in self.h1]
        if self.boundary == "periodic":
            N = [n * f for n in self.N1]
            trim = 0
        else:
            N = [(n - 1) * f + 1 for n in self.N1]
            trim = int(self.case.get("trim", 3)) * self.m * f
        return N, h, trim

    def build(self, level, t=None, extra=None, omit=()):
        N, h, trim = self.grid(level)
        fd = make_fd(N, self.x0, h, self.order, self.boundary)
        t = self.t if t is None else t
        ex = ref4d.exact(self.metric, t, fd.x, fd.y, fd.z,
                         Lambda=self.Lambda, kappa=self.kappa)
        data = inputs_from_exact(ex, self.form, self.matter, omit=omit)
        if self.case.get("omit_defaults"):
            data = drop_defaults(data)
        if extra:
            data.update(extra(fd, ex))
        rel = make_rel(fd, data, Lambda=self.Lambda, vacuum=self.vacuum,
                       **self.kw)
        if self.kappa != ref4d.KAPPA:
            rel.kappa = self.kappa
        return rel, ex, fd, trim

    def interior(self, a, trim, lead):
        """restrict trailing 3 grid axes of `a` (with `lead` leading tensor
        axes) to the interior region"""
        if trim == 0:
            return a
        sl = (slice(None),) * lead + (slice(trim, -trim),) * 3
        return a[sl]


def err(a, b, trim=0):
    a = np.asarray(a)
    b = np.asarray(b)
    if a.shape != b.shape:
        raise PropertyFailure("shape", dict(got=list(a.shape),
                                            want=list(b.shape)))
    lead = a.ndim - 3
    if trim:
        sl = (slice(None),) * lead + (slice(trim, -trim),) * 3
        a, b = a[sl], b[sl]
    d = np.abs(a - b)
    if d.size == 0:
        raise HarnessError("empty comparison region (grid too small for "
                           "the requested trim)")
    if not np.all(np.isfinite(d)):
        return float("inf")
    return float(np.max(d)) if d.size else 0.0


def order_ok(e1, e2, p, floor, slack=None):
    """The convergence rule. Returns (ok, q). The slack grows with the order
    (1.5 up to p = 5, 0.3 p above): at k*h ~ 0.5 on the coarse level the
    8th-order schemes are not yet asymptotic (observed q = 6.5 on correct
    code), while every real defect gives q ~ 0."""
    if slack is None:
        slack = max(1.5, 0.3 * p)
    if not np.isfinite(e2) or not np.isfinite(e1):
        return False, float("nan")
    if e2 <= floor:
        return True, float("inf")
    if e1 <= 0:
        return False, 0.0
    q = float(np.log2(e1 / e2))
    return q >= p - slack, q


def cond(ex):
    """Round-off amplification of index raising: max(1, max|gamma^ij|).
    Multiplies the round-off floors, so that a metric with tiny components
    (scale factor 1e-3: gamma^ij ~ 1e6) is not held to an absolute 1e-11."""
    return max(1.0, float(np.max(np.abs(ex["gammaup"]))))


def extra_classes(case, ex):
    """Coverage labels shared by the curvature checks."""
    out = []
    if float(np.max(ex["g"][0, 0])) > 0:
        out.append("g_tt>0 (shift exceeds lapse)")
    if float(np.min(np.abs(ex["gdet"]))) < 1e-8:
        out.append("|det g|<1e-8")
    if case.get("kappa", ref4d.KAPPA) != ref4d.KAPPA:
        out.append("kappa!=8pi")
    if case.get("cache_kw"):
        out.append("cache:" + ",".join(sorted(case["cache_kw"])))
    return out


def natural_scale(ex, trim=0):
    """Curvature-level scale of the configuration: max|ddg| + max|dg|^2."""
    return float(np.max(np.abs(ex["ddg"])) + np.max(np.abs(ex["dg"]))**2
                 + 1e-30)


def _marginal(o):
    """A convergence failure worth a second look on a finer pair: the error
    is within 1000 floors of the round-off floor, or it does converge at
    a third of the required order or better. A wrong formula in an O(1)
    quantity has neither (q ~ 0, error many orders above the floor) and is
    reported at once."""
    try:
        if o.get("floor") and o["e2"] <= 1e3 * o["floor"]:
            return True
        need = o.get("need")
        q = o.get("q")
        return q is not None and np.isfinite(q) and q >= (
            need / 3.0 if need else 0.5)
    except Exception:  # noqa: BLE001
        return False


class _Slots:
    """At most two refined-pair evaluations at a time over all worker
    processes (each holds several rank-4 fields on an 8x larger grid)."""

    def __enter__(self):
        import fcntl
        import tempfile
        base = os.environ.get("VERIF_SCRATCH") or tempfile.gettempdir()
        self.fh = None
        paths = [os.path.join(base, f"aurelverif-refine-{os.getuid()}-{k}"
                              ".lock") for k in range(2)]
        for pth in paths:
            fh = open(pth, "w")
            try:
                fcntl.flock(fh, fcntl.LOCK_EX | fcntl.LOCK_NB)
                self.fh = fh
                return self
            except OSError:
                fh.close()
        self.fh = open(paths[os.getpid() % 2], "w")
        fcntl.flock(self.fh, fcntl.LOCK_EX)
        return self

    def __exit__(self, *a):
        import fcntl
        fcntl.flock(self.fh, fcntl.LOCK_UN)
        self.fh.close()


def asymptotic(test, max_points=70 ** 3):
    """Convergence is an asymptotic statement. A marginal convergence-rule
    failure (see _marginal; its observation carries the observed order 'q')
    on the level pair (0, 1) is re-examined on the pair (1, 2); it is
    reported only if the same sub-result fails there too. Failures of any
    other kind, and gross convergence failures, are reported directly. A
    change that makes a result wrong (non-convergent) fails on every pair,
    so nothing real is lost; an under-resolved coarse grid (pre-asymptotic
    observed order) is not reported."""
    from .common import Note

    def wrapped(case, note):
        n1 = Note()
        test(case, n1)
        note.nontrivial = n1.nontrivial
        note.classes.extend(n1.classes)
        conv = [(d, o) for d, o in n1.pending
                if isinstance(o, dict) and "q" in o]
        other = [(d, o) for d, o in n1.pending
                 if not (isinstance(o, dict) and "q" in o)]
        keep = conv
        if conv and not case.get("level_shift") and \
                all(_marginal(o) for _, o in conv):
            su = Setup(dict(case, level_shift=1))
            N, _, _ = su.grid(1)
            if N[0] * N[1] * N[2] <= max_points:
                n2 = Note()
                with _Slots():
                    test(dict(case, level_shift=1), n2)
                again = {d for d, _ in n2.pending}
                keep = [(d, dict(o, refined=dict(
                    [x for x in n2.pending if x[0] == d][0][1] or {})))
                    for d, o in conv if d in again]
                note.classes.append("refined-pair-examined")
                if len(keep) < len(conv):
                    note.classes.append("pre-asymptotic-on-coarse-pair")
        for d, o in other + keep:
            note.fail(d, o)
    wrapped.__name__ = getattr(test, "__name__", "test")
    wrapped.__doc__ = test.__doc__
    return wrapped
