"""Synthetic Einstein Toolkit (Carpet/CarpetIOHDF5) simulation directories with
an injective ground truth.  DESIGN.md section 3.3.  Used by C11, C12 (and C18).

Quick start::

    from harness import etgen
    spec = etgen.simple_spec(sim="mysim", n=(6, 5, 4), ghost=2,
                             cuts=([3], [], [2]),          # x, y, z cut positions
                             groups=["admbase-lapse", "admbase-shift"],
                             restarts=[[0, 2, 4], [4, 6]],   # its of each restart
                             per_proc=True, grouped=False)
    root = etgen.write_sim(tmpdir, spec)          # -> "<tmpdir>/"   (== SIMLOC)
    param = etgen.param_for(root, spec["sim"])    # aurel.parameters(...) on it
    a = etgen.truth(spec, "betax", it=4, rl=0, restart=1)   # (x, y, z) interior
    t = etgen.time_of(spec, 4)

Everything is a pure function of ``spec`` (a JSON-serialisable dict), so a
replay file that stores the drawn parameters can rebuild the directory.

The spec
--------
::

    {"sim": "name",                       # [A-Za-z0-9_]+
     "grouped": bool,                     # IOHDF5::one_file_per_group
     "groups": ["admbase-shift", ...],    # keys of etgen.GROUPS
     "levels": [                          # refinement levels 0..L-1 (geometry)
        {"n": [nx, ny, nz],               # interior (= returned) size
         "ghost": [gx, gy, gz],           # cctk_nghostzones
         "origin": [ox, oy, oz]}, ...],   # added to every iorigin (fixtures: 3,3,3 on rl=1)
     "t0": 1.0, "dt": 0.03125,            # time(it) = t0 + dt*it  (dyadic: exact)
     "restarts": [
        {"r": 0,                          # output-000r
         "its": [[0, 2, 4], [0, 1, 2, 3, 4]],   # iterations present, per level
         "per_proc": bool,                # one file per process (.file_<c>.h5)
         "boxes": [[box, box, ...], ...], # per level: components in c order,
                                          # box = [[x0, x1], [y0, y1], [z0, z1]] interior,
                                          # half-open, in interior index units
         "regrid": [{"rl": 1, "from_it": 4, "boxes": [box, ...]}],
                                          # optional (one-file layouts): from
                                          # iteration from_it on, level rl is
                                          # split into these components
         "ctag": "auto",                  # "auto": ' c=<c>' iff >1 component on the
                                          # level (Carpet); "always" / "never"
         "par": True,                     # write <sim>.par into output-000r/
         "checkpoints": [4],              # empty checkpoint.chkpt.it_<n>.h5 files
         "xyz": ""}, ...]}                # ".xyz" -> <name>.xyz[.file_c].h5

Format written (as the repository fixtures, inspected with h5py):
``<root>/<sim>/output-000r/<sim>/<file>.h5`` with datasets
``THORN::var it=<it> tl=0 rl=<rl>[ c=<c>]`` of dtype float64, axes (z, y, x),
each holding the component's interior box *plus* ``ghost`` points on every
side, attributes ``cctk_nghostzones`` (x, y, z), ``iorigin`` (x, y, z; origin
of the box in interior units + level origin), ``time``, ``level``, ``name``,
``timestep``, ``cctk_bbox`` (the last five only with ``spec["full_attrs"]``
true: the readers do not use them and h5py attributes cost 0.1 ms each); a group ``Parameters and Global Attributes`` in
every file.  File names: ``<var>.h5`` or ``<thorn>-<group>.h5`` (grouped), with
``.file_<c>`` inserted for the one-file-per-process layout (component c lives
in file c, as in the fixtures).

Ground truth
------------
The value stored at stored-grid index (X, Y, Z) (interior index + ghost) is::

    X + 32*Y + 32**2*Z + 32**3*(it + 1024*(vid + 128*(rl + 8*restart)))

an integer < 2**53, exact in float64 and injective in (var, it, rl, restart,
X, Y, Z) for X, Y, Z < 32, it < 1024, vid < 128, rl < 8.  ``vid`` is the index
of the ET variable name in ``etgen.ALLVARS``.  Ghost zones hold the same global
field (a component's ghost cell equals its neighbour's interior cell, as in
Carpet after synchronisation).
"""
from __future__ import annotations

import os

import h5py
import numpy as np

# group file name -> (THORN as it appears in dataset keys, ET variable names)
# all the `known_groups` of aurel/data/var_mappings.yml that aurel translates,
# plus two groups aurel does not know (their variables are found by scanning)
GROUPS = {
    "admbase-lapse": ("ADMBASE", ["alp"]),
    "admbase-shift": ("ADMBASE", ["betax", "betay", "betaz"]),
    "admbase-metric": ("ADMBASE", ["gxx", "gxy", "gxz", "gyy", "gyz", "gzz"]),
    "admbase-curv": ("ADMBASE", ["kxx", "kxy", "kxz", "kyy", "kyz", "kzz"]),
    "admbase-dtlapse": ("ADMBASE", ["dtalp"]),
    "admbase-dtshift": ("ADMBASE", ["dtbetax", "dtbetay", "dtbetaz"]),
    "hydrobase-rho": ("HYDROBASE", ["rho"]),
    "hydrobase-eps": ("HYDROBASE", ["eps"]),
    "hydrobase-press": ("HYDROBASE", ["press"]),
    "hydrobase-w_lorentz": ("HYDROBASE", ["w_lorentz"]),
    "hydrobase-vel": ("HYDROBASE", ["vel[0]", "vel[1]", "vel[2]"]),
    "ml_bssn-ml_trace_curv": ("ML_BSSN", ["trK"]),
    "ml_bssn-ml_ham": ("ML_BSSN", ["H"]),
    "ml_bssn-ml_mom": ("ML_BSSN", ["M1", "M2", "M3"]),
    "weylscal4-psi4r_group": ("WEYLSCAL4", ["Psi4r"]),
    "weylscal4-psi4i_group": ("WEYLSCAL4", ["Psi4i"]),
    "cosmolapse-propertime": ("COSMOLAPSE", ["tau"]),
    # not in known_groups:
    "mythorn-mypair": ("MYTHORN", ["foo", "bar"]),
    "mythorn-mysingle": ("MYTHORN", ["qux"]),
}
ALLVARS = [v for _, (_, vs) in GROUPS.items() for v in vs]
assert len(ALLVARS) == len(set(ALLVARS)) and len(ALLVARS) < 128

# ET name -> name under which aurel returns it (ET_to_aurel_varnames, copied
# by hand from the documentation of the mapping: an independent table)
ET2AUREL = {"rho": "rho0", "alp": "alpha", "dtalp": "dtalpha",
            "trK": "Ktrace", "H": "Hamiltonian",
            "vel[0]": "velx", "vel[1]": "vely", "vel[2]": "velz",
            "M1": "Momentumx", "M2": "Momentumy", "M3": "Momentumz",
            "Psi4r": "Weyl_Psi4r", "Psi4i": "Weyl_Psi4i"}
# aurel tensor / alias name -> ET component names
AUREL_TENSORS = {
    "gammadown3": ["gxx", "gxy", "gxz", "gyy", "gyz", "gzz"],
    "Kdown3": ["kxx", "kxy", "kxz", "kyy", "kyz", "kzz"],
    "betaup3": ["betax", "betay", "betaz"],
    "dtbetaup3": ["dtbetax", "dtbetay", "dtbetaz"],
    "velup3": ["vel[0]", "vel[1]", "vel[2]"],
    "Momentumup3": ["M1", "M2", "M3"],
    "Weyl_Psi": ["Psi4r", "Psi4i"],
}


def aurel_name(et):
    """Name under which aurel returns the ET variable ``et``."""
    return ET2AUREL.get(et, et)


def request_names(group):
    """Aurel-side names usable in ``vars=[...]`` for one group:
    (tensor names whose components are exactly in this group,
     component names)."""
    vs = GROUPS[group][1]
    tens = [t for t, cs in AUREL_TENSORS.items() if all(c in vs for c in cs)]
    return tens, [aurel_name(v) for v in vs]


def expand_request(names):
    """aurel request names -> list of (returned aurel key, ET variable)."""
    out = []
    a2e = {aurel_name(v): v for v in ALLVARS}
    for nme in names:
        if nme in AUREL_TENSORS:
            out += [(aurel_name(c), c) for c in AUREL_TENSORS[nme]]
        else:
            out.append((nme, a2e[nme]))
    return out


# ---------------------------------------------------------------------------
# decompositions -> list of boxes


def _segments(n, cuts):
    b = [0] + sorted(cuts) + [n]
    return [[b[i], b[i + 1]] for i in range(len(b) - 1)]


def rect_boxes(n, cuts):
    """Rectilinear decomposition: cuts = (x cuts, y cuts, z cuts), each a list
    of interior cut positions 0 < c < n.  Components numbered x fastest, then
    y, then z (Carpet order for a regular processor grid)."""
    sx, sy, sz = (_segments(n[a], cuts[a]) for a in range(3))
    return [[x, y, z] for z in sz for y in sy for x in sx]


def nested_boxes(n, zcuts, ycuts, xcuts):
    """Carpet-like recursive splitting z -> y -> x (the shape of the 3-, 6- and
    7-process fixtures): ``zcuts`` cut the box into slabs, ``ycuts[i]`` cut
    slab i into rows, ``xcuts[i][j]`` cut row j of slab i into boxes."""
    out = []
    for i, z in enumerate(_segments(n[2], zcuts)):
        for j, y in enumerate(_segments(n[1], ycuts[i])):
            for x in _segments(n[0], xcuts[i][j]):
                out.append([x, y, z])
    return out


def tree_boxes(n, tree):
    """General recursive bisection.  tree = None (leaf) or
    [axis, position, lower subtree, upper subtree]; position is the absolute
    interior index of the cut (lo < position < hi on that axis)."""
    def rec(box, t):
        if t is None:
            return [box]
        ax, pos, lo, hi = t
        a, b = box[ax]
        assert a < pos < b, (box, t)
        b1 = [list(s) for s in box]
        b2 = [list(s) for s in box]
        b1[ax] = [a, pos]
        b2[ax] = [pos, b]
        return rec(b1, lo) + rec(b2, hi)
    return rec([[0, n[0]], [0, n[1]], [0, n[2]]], tree)


def is_partition(n, boxes):
    """True iff the boxes tile the interior grid exactly once."""
    cnt = np.zeros((n[0], n[1], n[2]), dtype=int)
    for (x, y, z) in boxes:
        cnt[x[0]:x[1], y[0]:y[1], z[0]:z[1]] += 1
    return bool(np.all(cnt == 1))


def is_rectilinear(boxes):
    """True iff the boxes are the full product of per-axis segments."""
    segs = [sorted({tuple(b[a]) for b in boxes}) for a in range(3)]
    want = {(x, y, z) for x in segs[0] for y in segs[1] for z in segs[2]}
    have = [tuple(tuple(s) for s in b) for b in boxes]
    return len(have) == len(want) and set(have) == want


def is_nested_zyx(n, boxes):
    """True iff the boxes are a z -> y -> x nested splitting of the grid."""
    if not is_partition(n, boxes):
        return False
    slabs = {}
    for b in boxes:
        slabs.setdefault(tuple(b[2]), []).append(b)
    zs = sorted(slabs)
    if zs[0][0] != 0 or zs[-1][1] != n[2] or any(
            zs[i][1] != zs[i + 1][0] for i in range(len(zs) - 1)):
        return False
    for bs in slabs.values():
        rows = {}
        for b in bs:
            rows.setdefault(tuple(b[1]), []).append(b)
        ys = sorted(rows)
        if ys[0][0] != 0 or ys[-1][1] != n[1] or any(
                ys[i][1] != ys[i + 1][0] for i in range(len(ys) - 1)):
            return False
        for r in rows.values():
            xs = sorted(tuple(b[0]) for b in r)
            if xs[0][0] != 0 or xs[-1][1] != n[0] or any(
                    xs[i][1] != xs[i + 1][0] for i in range(len(xs) - 1)):
                return False
    return True


# ---------------------------------------------------------------------------
# ground truth


def _g3(g):
    return [int(g)] * 3 if np.isscalar(g) else [int(v) for v in g]


_GRID = {}


def stored_field(spec, var, it, rl, restart):
    """Global stored array (interior + ghosts), axes (z, y, x), float64."""
    lev = spec["levels"][rl]
    g = _g3(lev["ghost"])
    nx, ny, nz = (lev["n"][a] + 2 * g[a] for a in range(3))
    assert max(nx, ny, nz) <= 32 and 0 <= it < 1024 and rl < 8
    vid = ALLVARS.index(var)
    key = (nx, ny, nz)
    if key not in _GRID:
        Z, Y, X = np.meshgrid(np.arange(nz), np.arange(ny), np.arange(nx),
                              indexing="ij")
        _GRID[key] = (X + 32 * Y + 1024 * Z).astype(np.float64)
    base = 32 ** 3 * (it + 1024 * (vid + 128 * (rl + 8 * restart)))
    return _GRID[key] + float(base)


def truth(spec, var, it, rl, restart):
    """What aurel must return for ET variable ``var``: interior grid, axes
    (x, y, z)."""
    lev = spec["levels"][rl]
    g = _g3(lev["ghost"])
    n = lev["n"]
    G = stored_field(spec, var, it, rl, restart)
    return np.ascontiguousarray(np.transpose(
        G[g[2]:g[2] + n[2], g[1]:g[1] + n[1], g[0]:g[0] + n[0]], (2, 1, 0)))


def decode(value):
    """Inverse of the encoding (for diagnostics): dict of the fields."""
    v = int(value)
    X, v = v % 32, v // 32
    Y, v = v % 32, v // 32
    Z, v = v % 32, v // 32
    it, v = v % 1024, v // 1024
    vid, v = v % 128, v // 128
    rl, r = v % 8, v // 8
    return dict(X=X, Y=Y, Z=Z, it=it,
                var=ALLVARS[vid] if vid < len(ALLVARS) else vid,
                rl=rl, restart=r)


def time_of(spec, it):
    return float(spec.get("t0", 1.0) + spec.get("dt", 0.03125) * it)


def restart_index(spec, r):
    return [i for i, rs in enumerate(spec["restarts"]) if rs["r"] == r][0]


def its_of(spec, r, rl):
    return list(spec["restarts"][restart_index(spec, r)]["its"][rl])


def restart_range(spec, r):
    """[itmin, itmax] over all levels, as the iterations catalogue reports."""
    allits = [i for l in spec["restarts"][restart_index(spec, r)]["its"]
              for i in l]
    return min(allits), max(allits)


def latest_restart(spec, it, rl):
    """Restart number aurel must take (it, rl) from with restart=-1: the
    latest restart that contains it.  Returns None if no restart has it."""
    for rs in reversed(spec["restarts"]):
        if it in rs["its"][rl]:
            return rs["r"]
    return None


def variables(spec):
    """ET variable names present in the simulation."""
    return [v for g in spec["groups"] for v in GROUPS[g][1]]


# ---------------------------------------------------------------------------
# writer


PAR = """# synthetic parameter file written by /verif/harness/etgen.py
ActiveThorns = "Time"
Cactus::cctk_initial_time = {t0}
Cactus::cctk_final_time   = 10
Cactus::terminate         = "time"

ActiveThorns = "CartGrid3D CoordBase Slab SymBase"
ActiveThorns = "Carpet CarpetLib CarpetInterp CarpetReduce CarpetSlab"
CoordBase::domainsize = "minmax"
CoordBase::xmin = 0.0
CoordBase::ymin = 0.0
CoordBase::zmin = 0.0
CoordBase::xmax = {xmax}
CoordBase::ymax = {ymax}
CoordBase::zmax = {zmax}
CoordBase::dx = 1.0
CoordBase::dy = 1.0
CoordBase::dz = 1.0
CoordBase::boundary_size_x_lower     = {gx}
CoordBase::boundary_size_y_lower     = {gy}
CoordBase::boundary_size_z_lower     = {gz}
CoordBase::boundary_size_x_upper     = {gx}
CoordBase::boundary_size_y_upper     = {gy}
CoordBase::boundary_size_z_upper     = {gz}
CoordBase::boundary_shiftout_x_lower = 1
CoordBase::boundary_shiftout_y_lower = 1
CoordBase::boundary_shiftout_z_lower = 1
CoordBase::boundary_shiftout_x_upper = 1
CoordBase::boundary_shiftout_y_upper = 1
CoordBase::boundary_shiftout_z_upper = 1
CartGrid3D::type = "coordbase"
driver::ghost_size               = {gx}
Carpet::max_refinement_levels = {nlev}
Time::dtfac = 0.5

ActiveThorns = "CarpetIOBasic CarpetIOHDF5"
IO::out_dir = $parfile
IO::out_mode = "{mode}"
IOHDF5::out_every          = {every}
IOHDF5::one_file_per_group = {grp}
IOHDF5::out_vars  = "{outvars}"
"""


def _file_base(spec, group, var):
    return group if spec["grouped"] else var


def file_names(spec, rs, group, var, ncomp_files):
    """File names (one per process, or one) holding (group, var)."""
    base = _file_base(spec, group, var) + rs.get("xyz", "")
    if rs["per_proc"]:
        return [f"{base}.file_{c}.h5" for c in range(ncomp_files)]
    return [f"{base}.h5"]


def boxes_at(rs, rl, it):
    """components of level rl at iteration it (regridding changes them)."""
    b = rs["boxes"][rl]
    for rg in rs.get("regrid", []) or []:
        if rg["rl"] == rl and it >= rg["from_it"]:
            b = rg["boxes"]
    return b


def write_sim(root, spec):
    """Write the whole simulation under ``root``; returns SIMLOC (root + '/')."""
    for rs in spec["restarts"]:
        write_restart(root, spec, rs)
    return root.rstrip("/") + "/"


def restart_dir(root, spec, r):
    return os.path.join(root, spec["sim"], f"output-{r:04d}", spec["sim"])


def write_restart(root, spec, rs):
    sim = spec["sim"]
    r = rs["r"]
    d = restart_dir(root, spec, r)
    os.makedirs(d, exist_ok=True)
    lev0 = spec["levels"][0]
    g0 = _g3(lev0["ghost"])
    if rs.get("par", True):
        its0 = rs["its"][0]
        every = (its0[1] - its0[0]) if len(its0) > 1 else 1
        outvars = " ".join(f"{GROUPS[g][0]}::{v}" for g in spec["groups"]
                           for v in GROUPS[g][1])
        with open(os.path.join(root, sim, f"output-{r:04d}", sim + ".par"),
                  "w") as f:
            f.write(PAR.format(
                t0=spec.get("t0", 1.0), xmax=float(lev0["n"][0]),
                ymax=float(lev0["n"][1]), zmax=float(lev0["n"][2]),
                gx=g0[0], gy=g0[1], gz=g0[2], nlev=len(spec["levels"]),
                mode="proc" if rs["per_proc"] else "onefile", every=every,
                grp="yes" if spec["grouped"] else "no", outvars=outvars))
    for cit in rs.get("checkpoints", []):
        open(os.path.join(d, f"checkpoint.chkpt.it_{cit}.h5"), "w").close()

    nfiles = max([len(b) for b in rs["boxes"]]
                 + [len(rg["boxes"]) for rg in rs.get("regrid", []) or []])
    handles = {}

    def fh(name):
        if name not in handles:
            h = h5py.File(os.path.join(d, name), "w")
            gga = h.create_group("Parameters and Global Attributes")
            gga.attrs["nioprocs"] = np.int32(nfiles if rs["per_proc"] else 1)
            gga.attrs["carpet_reflevels"] = np.int32(len(spec["levels"]))
            gga.create_dataset("Datasets", data=np.bytes_(b"synthetic"))
            handles[name] = h
        return handles[name]

    def close_all():
        for h in handles.values():
            h.close()
        handles.clear()

    ctag = rs.get("ctag", "auto")
    try:
        for group in spec["groups"]:
            thorn, vs = GROUPS[group]
            for var in vs:
                if not spec["grouped"]:
                    close_all()     # bounded number of open files
                names = file_names(spec, rs, group, var, nfiles)
                for rl, lev in enumerate(spec["levels"]):
                    g = _g3(lev["ghost"])
                    org = lev.get("origin", [0, 0, 0])
                    for it in rs["its"][rl]:
                        boxes = boxes_at(rs, rl, it)
                        tag = (ctag == "always"
                               or (ctag == "auto" and len(boxes) > 1))
                        G = stored_field(spec, var, it, rl, r)
                        for c, (bx, by, bz) in enumerate(boxes):
                            arr = G[bz[0]:bz[1] + 2 * g[2],
                                    by[0]:by[1] + 2 * g[1],
                                    bx[0]:bx[1] + 2 * g[0]]
                            key = f"{thorn}::{var} it={it} tl=0 rl={rl}"
                            if tag:
                                key += f" c={c}"
                            f = fh(names[c] if rs["per_proc"] else names[0])
                            ds = f.create_dataset(key, data=arr)
                            ds.attrs["cctk_nghostzones"] = np.array(
                                g, dtype=np.int32)
                            ds.attrs["iorigin"] = np.array(
                                [org[0] + bx[0], org[1] + by[0],
                                 org[2] + bz[0]], dtype=np.int32)
                            ds.attrs["time"] = np.float64(time_of(spec, it))
                            if not spec.get("full_attrs", False):
                                continue
                            ds.attrs["level"] = np.int32(rl)
                            ds.attrs["timestep"] = np.int32(it)
                            ds.attrs["group_timelevel"] = np.int32(0)
                            ds.attrs["name"] = np.bytes_(
                                f"{thorn}::{var}".encode())
                            n = lev["n"]
                            ds.attrs["cctk_bbox"] = np.array(
                                [bx[0] == 0, bx[1] == n[0], by[0] == 0,
                                 by[1] == n[1], bz[0] == 0, bz[1] == n[2]],
                                dtype=np.int32)
            close_all()
    finally:
        close_all()
    return d


def param_for(root, sim):
    """``aurel.parameters(sim)`` with SIMLOC pointing at ``root``."""
    import aurel.reading as rd
    simloc = root.rstrip("/") + "/"
    old = os.environ.get("SIMLOC")
    os.environ["SIMLOC"] = simloc
    try:
        return rd.parameters(sim)
    finally:
        if old is None:
            del os.environ["SIMLOC"]
        else:
            os.environ["SIMLOC"] = old


def manual_param(root, sim):
    """The three keys the readers need, without going through the .par parser
    (for checks that must not depend on it)."""
    return {"simname": sim, "simulation": "ET",
            "simpath": root.rstrip("/") + "/"}


def simple_spec(sim="etsim", n=(6, 5, 4), ghost=2, cuts=((), (), ()),
                groups=("admbase-lapse", "admbase-shift"),
                restarts=((0, 1, 2),), per_proc=False, grouped=False,
                nlevels=1, perm=None):
    """Convenience: same rectilinear decomposition on every level/restart.
    ``restarts`` = iterations of each restart (same on every level);
    ``perm`` = optional permutation of the component numbering."""
    levels = []
    for rl in range(nlevels):
        levels.append(dict(n=[int(v) + rl for v in n], ghost=_g3(ghost),
                           origin=[3 * rl] * 3))
    rss = []
    for r, its in enumerate(restarts):
        boxes = []
        for lev in levels:
            b = rect_boxes(lev["n"], [list(c) for c in cuts])
            if perm is not None:
                b = [b[i] for i in perm]
            boxes.append(b)
        ncomp = len(boxes[0])
        rss.append(dict(r=r, its=[list(its) for _ in levels],
                        per_proc=bool(per_proc and ncomp > 1), boxes=boxes,
                        ctag="auto", par=True, checkpoints=[], xyz=""))
    return dict(sim=sim, grouped=bool(grouped), groups=list(groups),
                levels=levels, t0=1.0, dt=0.03125, restarts=rss)
