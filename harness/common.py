"""Shared runner machinery: seeds, sub-checks, failure bucketing, known
findings, replay files, evidence writer, sharding.  See DESIGN.md section 2.

Contract of a check module (``checks/cXX_*.py``)::

    PROPERTY = "C07"
    RULE = "how cases are generated and what makes one non-trivial"
    def subchecks(tier) -> list[Sub]         # the named sub-checks
    ASSUMPTIONS = [...]

A ``Sub`` bundles a Hypothesis strategy producing a JSON-serialisable *case*
and a function ``test(case, note)`` that raises ``PropertyFailure`` when the
real aurel code disagrees with the oracle.  ``note`` is a ``Note`` object used
to report whether the case was non-trivial and which classes it belongs to.
"""
from __future__ import annotations

import hashlib
import json
import math
import multiprocessing as mp
import os
import shutil
import sys
import tempfile
import time
import traceback

VERIF = os.path.dirname(os.path.dirname(os.path.abspath(__file__)))
REPO = os.environ.get("VERIF_REPO", "/repo")


class PropertyFailure(Exception):
    """The code under test violated the property on this case."""

    def __init__(self, discriminator, observed=None, multi=None):
        super().__init__(f"{discriminator}: {observed}")
        self.discriminator = str(discriminator)
        self.observed = observed
        # several independent failures found on the same case
        self.multi = multi or [(self.discriminator, observed)]


class HarnessError(Exception):
    """Something is wrong with the harness / oracle itself (exit 2)."""


def derive_seed(*parts):
    h = hashlib.blake2b("|".join(str(p) for p in parts).encode(),
                        digest_size=8).digest()
    return int.from_bytes(h, "big") % (2**63)


def fingerprint(case):
    return hashlib.blake2b(
        json.dumps(case, sort_keys=True, default=_jsonable).encode(),
        digest_size=8).hexdigest()


def _jsonable(o):
    try:
        import numpy as np
        if isinstance(o, np.generic):
            return o.item()
        if isinstance(o, np.ndarray):
            return o.tolist()
    except Exception:
        pass
    if isinstance(o, (set, frozenset)):
        return sorted(o)
    if isinstance(o, tuple):
        return list(o)
    if isinstance(o, complex):
        return [o.real, o.imag]
    return repr(o)


def to_json(o):
    return json.loads(json.dumps(o, default=_jsonable))


class Note:
    """Per-case reporting handle handed to test functions."""

    def __init__(self, excluded=()):
        self.nontrivial = False
        self.classes = []
        self.extra = None
        self.excluded = set(excluded)
        self.excluded_hits = 0
        self.pending = []

    def fail(self, disc, observed=None):
        """Record a failure and keep going (collect-then-report); failures
        whose discriminator is already known/excluded are only counted."""
        disc = str(disc)
        if disc in self.excluded:
            self.excluded_hits += 1
            return
        if all(d != disc for d, _ in self.pending):
            self.pending.append((disc, observed))

    def nt(self, flag=True):
        self.nontrivial = bool(flag)

    def cls(self, *names):
        self.classes.extend(str(n) for n in names)


class Sub:
    """One named sub-check."""

    def __init__(self, name, strategy, test, examples, generic=None,
                 shards=1, kind="given", machine=None, steps=30,
                 max_rounds=4, budget_s=None, shrink_quick=True,
                 pregenerate=False):
        self.name = name
        self.strategy = strategy
        self.test = test
        self.examples = int(examples)
        self.generic = generic or []   # fixed fully-generic cases run first
        self.shards = int(shards)
        self.kind = kind
        self.machine = machine
        self.steps = steps
        self.max_rounds = max_rounds
        self.budget_s = budget_s
        # expensive sub-checks skip Hypothesis' shrink phase in the quick tier
        self.shrink_quick = shrink_quick
        # expensive sub-checks: the parent draws all cases with Hypothesis
        # (one seeded generate phase, so the distribution is not biased
        # towards each shard's minimal first example), workers only evaluate
        # them; failing cases are reported unshrunk.
        self.pregenerate = pregenerate


class Stats:
    def __init__(self):
        self.evaluations = 0
        self.nontrivial = set()
        self.classes = {}
        self.samples = []
        self.excluded = 0
        self.failures = []       # (subcheck, discriminator, case, observed)
        self.inconclusive = 0
        self.notes = []

    def merge(self, other):
        self.evaluations += other.evaluations
        self.nontrivial |= other.nontrivial
        for k, v in other.classes.items():
            self.classes[k] = self.classes.get(k, 0) + v
        for s in other.samples:
            if len(self.samples) < 6:
                self.samples.append(s)
        self.excluded += other.excluded
        self.failures.extend(other.failures)
        self.inconclusive += other.inconclusive
        self.notes.extend(other.notes)

    def as_dict(self):
        return dict(evaluations=self.evaluations,
                    distinct_nontrivial=len(self.nontrivial),
                    classes=dict(sorted(self.classes.items())),
                    excluded=self.excluded,
                    inconclusive=self.inconclusive)


def _call(sub, case, stats, excluded, sample=True):
    """Run one case through the oracle; book-keeping; raise on failure."""
    note = Note(excluded)
    stats.evaluations += 1
    try:
        sub.test(case, note)
        if note.pending:
            raise PropertyFailure(note.pending[0][0], note.pending[0][1],
                                  multi=list(note.pending))
    except PropertyFailure as e:
        e.multi = [(d, o) for d, o in e.multi if d not in excluded]
        if not e.multi:
            stats.excluded += 1
            _book(case, note, stats, sample)
            return
        e.discriminator, e.observed = e.multi[0]
        raise
    if note.excluded_hits:
        stats.excluded += 1
    _book(case, note, stats, sample)


def _book(case, note, stats, sample):
    for c in note.classes:
        stats.classes[c] = stats.classes.get(c, 0) + 1
    if note.nontrivial:
        stats.nontrivial.add(fingerprint(case))
    if sample and len(stats.samples) < 3 and note.nontrivial:
        stats.samples.append(to_json(case))


def run_given(prop, sub, seed, tier, shard=0, examples=None, t_end=None,
              nshards=1):
    """Run a sub-check under Hypothesis; return Stats (with failures)."""
    import hypothesis
    from hypothesis import HealthCheck, Phase, given, settings

    stats = Stats()
    excluded = set()
    examples = sub.examples if examples is None else examples

    # fixed generic cases and saved regression replays first (no Hypothesis)
    fixed = (list(sub.generic)
             + load_regressions(prop, sub.name))[shard::max(1, nshards)]
    for case in fixed:
        for _ in range(sub.max_rounds):
            try:
                _call(sub, case, stats, excluded)
                break
            except PropertyFailure as e:
                for d, o in e.multi:
                    stats.failures.append((sub.name, d, to_json(case),
                                           to_json(o)))
                    excluded.add(d)

    if sub.strategy is None or examples <= 0:
        return stats

    for rnd in range(sub.max_rounds):
        last = {}
        shrink_t0 = [None]

        def body(case):
            if t_end is not None and time.time() > t_end:
                stats.inconclusive += 1
                return
            if shrink_t0[0] is not None and \
                    time.time() - shrink_t0[0] > (60 if tier == "quick"
                                                  else 240):
                return  # stop shrinking: pretend pass, we keep `last`
            try:
                _call(sub, case, stats, excluded)
            except PropertyFailure as e:
                last["case"] = to_json(case)
                last["multi"] = [(d, to_json(o)) for d, o in e.multi]
                if shrink_t0[0] is None:
                    shrink_t0[0] = time.time()
                raise

        test = given(sub.strategy)(body)
        test = hypothesis.seed(derive_seed(seed, prop, sub.name, shard, rnd))(test)
        test = settings(
            max_examples=examples, deadline=None, database=None,
            derandomize=False, report_multiple_bugs=False,
            print_blob=False,
            suppress_health_check=list(HealthCheck),
            phases=([Phase.generate, Phase.shrink]
                    if (tier != "quick" or sub.shrink_quick)
                    else [Phase.generate]))(test)
        try:
            test()
            break
        except HarnessError:
            raise
        except BaseException as e:  # noqa: BLE001
            if isinstance(e, (KeyboardInterrupt, SystemExit)):
                raise
            if not last:
                # an exception that is not a PropertyFailure: harness bug or
                # an unexpected crash in the code under test that the check
                # did not classify -> harness error, never a violation
                raise HarnessError(
                    f"{prop}/{sub.name}: unexpected "
                    f"{type(e).__name__}: {e}\n{traceback.format_exc()}")
            for d, o in last["multi"]:
                stats.failures.append((sub.name, d, last["case"], o))
                excluded.add(d)
    return stats


def pregenerate_cases(prop, sub, seed, n):
    import hypothesis
    from hypothesis import HealthCheck, Phase, given, settings
    out = []
    seen = set()

    def body(case):
        c = to_json(case)
        fp = fingerprint(c)
        if fp not in seen:
            seen.add(fp)
            out.append(c)
    t = given(sub.strategy)(body)
    t = hypothesis.seed(derive_seed(seed, prop, sub.name, "pregen"))(t)
    t = settings(max_examples=n, deadline=None, database=None,
                 derandomize=False, suppress_health_check=list(HealthCheck),
                 phases=[Phase.generate])(t)
    t()
    return out


def run_cases(prop, sub, cases, t_end=None):
    """Evaluate explicit cases (no Hypothesis in the worker)."""
    stats = Stats()
    excluded = set()
    for case in cases:
        if t_end is not None and time.time() > t_end:
            stats.inconclusive += 1
            continue
        for _ in range(sub.max_rounds):
            try:
                _call(sub, case, stats, excluded)
                break
            except PropertyFailure as e:
                for d, o in e.multi:
                    stats.failures.append((sub.name, d, to_json(case),
                                           to_json(o)))
                    excluded.add(d)
    return stats


def _cases_entry(args):
    modname, subname, tier, cases, t_end = args
    try:
        import importlib
        mod = importlib.import_module(modname)
        sub = [s for s in mod.subchecks(tier) if s.name == subname][0]
        return ("ok", run_cases(mod.PROPERTY, sub, cases, t_end))
    except HarnessError as e:
        return ("harness", str(e))
    except BaseException as e:  # noqa: BLE001
        return ("harness", f"{type(e).__name__}: {e}\n{traceback.format_exc()}")


def _entry(job):
    return _cases_entry(job[1]) if job[0] == "cases" else _shard_entry(job[1])


def _shard_entry(args):
    modname, subname, seed, tier, shard, examples, t_end, nsh = args
    try:
        import importlib
        mod = importlib.import_module(modname)
        sub = [s for s in mod.subchecks(tier) if s.name == subname][0]
        if sub.kind == "machine":
            st = run_machine(mod.PROPERTY, sub, seed, tier, shard, examples,
                             t_end, nsh)
        else:
            st = run_given(mod.PROPERTY, sub, seed, tier, shard, examples,
                           t_end, nsh)
        return ("ok", st)
    except HarnessError as e:
        return ("harness", str(e))
    except BaseException as e:  # noqa: BLE001
        return ("harness", f"{type(e).__name__}: {e}\n{traceback.format_exc()}")


def run_machine(prop, sub, seed, tier, shard=0, examples=None, t_end=None,
                nshards=1):
    """Run a RuleBasedStateMachine sub-check.

    ``sub.machine`` is a factory ``(stats, excluded) -> MachineClass``.  The
    machine appends every operation to ``self.log`` (JSON) and raises
    PropertyFailure from rules/invariants; ``sub.test(case, note)`` replays a
    log without Hypothesis.
    """
    import hypothesis
    from hypothesis import HealthCheck, Phase, settings
    from hypothesis.stateful import run_state_machine_as_test

    stats = Stats()
    excluded = set()
    examples = sub.examples if examples is None else examples
    fixed = (list(sub.generic)
             + load_regressions(prop, sub.name))[shard::max(1, nshards)]
    for case in fixed:
        for _ in range(sub.max_rounds):
            try:
                _call(sub, case, stats, excluded)
                break
            except PropertyFailure as e:
                for d, o in e.multi:
                    stats.failures.append((sub.name, d, to_json(case),
                                           to_json(o)))
                    excluded.add(d)
    if examples <= 0:
        return stats
    for rnd in range(sub.max_rounds):
        last = {}
        ctl = dict(t_end=t_end, shrink_t0=None,
                   shrink_budget=(60 if tier == "quick" else 240))
        Machine = sub.machine(stats, excluded, last, ctl)
        Machine = hypothesis.seed(
            derive_seed(seed, prop, sub.name, shard, rnd))(Machine)
        st = settings(max_examples=examples, stateful_step_count=sub.steps,
                      deadline=None, database=None, derandomize=False,
                      report_multiple_bugs=False, print_blob=False,
                      suppress_health_check=list(HealthCheck),
                      phases=([Phase.generate, Phase.shrink]
                              if (tier != "quick" or sub.shrink_quick)
                              else [Phase.generate]))
        try:
            run_state_machine_as_test(Machine, settings=st)
            break
        except HarnessError:
            raise
        except BaseException as e:  # noqa: BLE001
            if isinstance(e, (KeyboardInterrupt, SystemExit)):
                raise
            if not last:
                raise HarnessError(
                    f"{prop}/{sub.name}: unexpected "
                    f"{type(e).__name__}: {e}\n{traceback.format_exc()}")
            for d, o in last["multi"]:
                stats.failures.append((sub.name, d, last["case"], o))
                excluded.add(d)
    return stats


# ---------------------------------------------------------------------------
# known findings / regressions / replay files


def load_findings():
    p = os.path.join(VERIF, "known_findings.json")
    if not os.path.exists(p):
        return []
    with open(p) as f:
        return json.load(f).get("findings", [])


def load_regressions(prop, subname):
    """Saved shrunk failures (committed) that are re-run on every run."""
    d = os.path.join(VERIF, "regressions", prop)
    out = []
    if os.path.isdir(d):
        for fn in sorted(os.listdir(d)):
            if fn.endswith(".json"):
                with open(os.path.join(d, fn)) as f:
                    r = json.load(f)
                if r.get("subcheck") == subname:
                    out.append(r["case"])
    return out


def signature(prop, subname, disc):
    return f"{prop}/{subname}/{disc}"


def write_replay(prop, subname, disc, case, observed, seed):
    d = os.path.join(VERIF, "replays", prop)
    os.makedirs(d, exist_ok=True)
    safe = "".join(c if c.isalnum() or c in "-_." else "_"
                   for c in f"{subname}-{disc}")[:120]
    path = os.path.join(d, safe + ".json")
    with open(path, "w") as f:
        json.dump(dict(property=prop, subcheck=subname, discriminator=disc,
                       case=case, observed=observed, seed=seed), f,
                  indent=1, default=_jsonable)
    return path


# ---------------------------------------------------------------------------
# top-level driver


def scratch_dir():
    base = os.environ.get("VERIF_SCRATCH")
    if base:
        os.makedirs(base, exist_ok=True)
    return tempfile.mkdtemp(prefix="aurelverif-", dir=base)


def main_run(mod, tier, seed, only=None, replay=None):
    t0 = time.time()
    prop = mod.PROPERTY
    findings = load_findings()
    known = {f["signature"]: f for f in findings
             if f.get("status") == "known" and f.get("property") == prop}

    if hasattr(mod, "selftest"):
        try:
            mod.selftest()
        except Exception as e:  # noqa: BLE001
            print(f"HARNESS-ERROR property={prop} oracle self-test failed: "
                  f"{type(e).__name__}: {e}")
            traceback.print_exc()
            return 2

    subs = mod.subchecks(tier)
    if only:
        subs = [s for s in subs if s.name in only]

    if replay:
        with open(replay) as f:
            r = json.load(f)
        sub = [s for s in mod.subchecks(tier) if s.name == r["subcheck"]]
        if not sub:
            print(f"HARNESS-ERROR unknown subcheck {r['subcheck']}")
            return 2
        note = Note()
        multi = []
        try:
            sub[0].test(r["case"], note)
            multi = list(note.pending)
        except PropertyFailure as e:
            multi = e.multi
        rc = 0
        for d, o in multi:
            sig = signature(prop, sub[0].name, d)
            print(f"replay reproduces: {sig}: {o}")
            if sig in known:
                print(f"KNOWN-FINDING: property={prop} {sig} "
                      f"{known[sig].get('what', '')}")
            else:
                print(f"VIOLATION property={prop} replay={replay}")
                rc = 1
        if not multi:
            print("replay passes (property holds on this case)")
        return rc

    total = Stats()
    per_sub = {}
    harness_errors = []
    budget = getattr(mod, "BUDGET_S", {}).get(tier)
    t_end = (t0 + budget) if budget else None

    jobs = []
    for s in subs:
        n = max(1, s.shards if tier == "thorough" else min(s.shards, 8))
        if s.pregenerate:
            allc = list(s.generic) + load_regressions(prop, s.name)
            if s.strategy is not None and s.examples > 0:
                allc += pregenerate_cases(prop, s, seed, s.examples)
            n = max(1, min(n * 2, len(allc)))
            for sh in range(n):
                jobs.append(("cases", (mod.__name__, s.name, tier,
                                       allc[sh::n], t_end)))
            continue
        per = max(1, math.ceil(s.examples / n)) if s.examples > 0 else 0
        for sh in range(n):
            jobs.append(("shard", (mod.__name__, s.name, seed, tier, sh, per,
                                   t_end, n)))
    nproc = int(os.environ.get("VERIF_NPROC", "16"))
    nproc = max(1, min(nproc, len(jobs)))
    if nproc == 1 or os.environ.get("VERIF_SERIAL"):
        results = [_entry(j) for j in jobs]
    else:
        ctx = mp.get_context("fork")
        with ctx.Pool(nproc, maxtasksperchild=1) as pool:
            results = pool.map(_entry, jobs, chunksize=1)
    for j, (status, payload) in zip(jobs, results):
        if status == "harness":
            harness_errors.append((j[1][1], payload))
            continue
        per_sub.setdefault(j[1][1], Stats()).merge(payload)
    for name, st in per_sub.items():
        total.merge(st)

    # classify failures
    seen = set()
    violations = []
    known_hits = []
    for (subname, disc, case, obs) in total.failures:
        sig = signature(prop, subname, disc)
        if sig in seen:
            continue
        seen.add(sig)
        if sig in known:
            known_hits.append((sig, known[sig]))
        else:
            path = write_replay(prop, subname, disc, case, obs, seed)
            violations.append((sig, path, obs))

    wall = time.time() - t0
    samples = total.samples[:6] or [s for st in per_sub.values()
                                    for s in st.samples][:3]
    ev = dict(
        property_id=prop, tier=tier, seed=int(seed), level="exploration",
        coverage=dict(
            evaluations=total.evaluations,
            distinct_nontrivial=len(total.nontrivial),
            rule=mod.RULE,
            samples=samples if samples else ["<no non-trivial sample>"],
            classes=dict(sorted(total.classes.items())),
            excluded_by_construction=total.excluded,
            inconclusive=total.inconclusive,
            subchecks={n: st.as_dict() for n, st in sorted(per_sub.items())},
            known_findings_hit=[s for s, _ in known_hits],
            violations=[dict(signature=s, replay=os.path.relpath(p, VERIF),
                             observed=o) for s, p, o in violations],
            harness_errors=[dict(subcheck=a, error=b[:2000])
                            for a, b in harness_errors],
            exhaustive=bool(getattr(mod, "EXHAUSTIVE", False)),
        ),
        assumptions=list(getattr(mod, "ASSUMPTIONS", [])),
        wall_s=round(wall, 2),
        violations=len(violations),
    )
    # VERIF_EVIDENCE_DIR: side runs (coverage measurement, seeded trees) keep
    # their evidence apart from that of the registered command
    evdir = os.environ.get("VERIF_EVIDENCE_DIR") or os.path.join(VERIF,
                                                                 "evidence")
    os.makedirs(evdir, exist_ok=True)
    # a run restricted with --only describes part of the check: it is kept
    # apart as well
    name = f"{prop}.json" if not only else f"{prop}.partial.json"
    with open(os.path.join(evdir, name), "w") as f:
        json.dump(ev, f, indent=1, default=_jsonable)

    print(f"[{prop}] tier={tier} seed={seed} evaluations={total.evaluations} "
          f"distinct_nontrivial={len(total.nontrivial)} "
          f"excluded={total.excluded} wall={wall:.1f}s")
    for name, st in sorted(per_sub.items()):
        print(f"   {name}: {st.as_dict()}")
    for sig, f in known_hits:
        print(f"KNOWN-FINDING: property={prop} {sig} {f.get('what', '')}")
    for a, b in harness_errors:
        print(f"HARNESS-ERROR property={prop} subcheck={a}\n{b}")
    for sig, path, obs in violations:
        print(f"   failing: {sig}: {json.dumps(obs, default=_jsonable)[:400]}")
        print(f"VIOLATION property={prop} replay={path}")
    if violations:
        return 1
    if harness_errors:
        return 2
    return 0
