"""Small synthetic Einstein-Toolkit *directory* writer for catalogue checks
(property C18).  Only what ``aurel.reading.parameters / iterations /
read_iterations / get_content`` look at is produced: directory and file names,
HDF5 dataset keys, tiny arrays, checkpoint stubs and a ``.par`` file.  The
full data-faithful writer (values, ghost zones, chunk geometry) is
``harness.etgen`` (property C11); this module is independent of it.

Layout written (identical to /repo/tests/fixtures, inspected with h5py)::

    <simloc>/<sim>/output-000r/<sim>.par
    <simloc>/<sim>/output-000r/<sim>/<file>.h5          3D output
    <simloc>/<sim>/output-000r/<sim>/checkpoint.chkpt.it_<it>[.file_<n>].h5

    dataset key   "THORN::var it=<it> tl=<tl>[ m=0][ rl=<rl>][ c=<c>]"
    extra group   "Parameters and Global Attributes"     (as Carpet writes it)

Name builders (the naming scheme that ``parse_hdf5_key`` / ``parse_h5file``
have to invert):

    dataset_key(thorn, var, it, tl=0, m=None, rl=None, c=None) -> str
    h5_filename(name, thorn=None, xyz_prefix=False, chunk=None,
                xyz_suffix=False)                              -> str
    checkpoint_filename(it, chunk=None)                        -> str

Directory writers:

    restart_path(simloc, sim, r)    -> "<simloc>/<sim>/output-000r/<sim>/"
    write_par(simloc, sim, r, text) -> path of the .par file written
    write_restart(simloc, sim, r, spec)  -> None   (see ``write_restart``)
    iteration_list(triple)          -> list of ints of an inclusive
                                       [start, stop, step] progression

Ground truth (pure functions of the *spec*, never of what was written):

    content_truth(spec)   -> {tuple(sorted vars): sorted [file names]}
    catalogue_truth(spec) -> {'var files': ..., 'its available': [lo, hi],
                              'levels': {rl: [its]}, 'checkpoints': [...]}

``simloc`` must end with '/' (aurel concatenates ``simloc + simname``).

Restart *spec* (JSON)::

    {"files": [ {"thorn": "ADMBASE",        # thorn written in dataset keys
                 "name": "alp" | "lapse",   # variable or group name (file)
                 "group": false | true,     # true: file "<thorn.lower()>-<name>"
                 "vars": ["alp"],           # variables stored in the file
                 "xyz": "" | "prefix" | "suffix"}, ... ],
     "nproc": 0 | n,       # 0: one file per variable/group; n: ".file_<k>"
     "ncomp": 1 | n,       # one-file layout only: components per level
                           # (c= is written iff more than one, as Carpet does)
     "levels": {"0": [start, stop, step] | [it], "1": ...},
     "level_comps": {"1": [1, 2, ...]},  # optional: components that hold a
                           # level (default: every component holds it)
     "m0": false | true,   # write " m=0" in the keys
     "checkpoints": [it, ...],
     "chk_nproc": 0 | n,   # checkpoint files ".file_<k>" per iteration
     "decoys": false|true} # other things Carpet/simfactory leave in the data
                           # directory: 1D/2D HDF5 output "<name>.x.h5",
                           # "<name>.xy.h5", ASCII output, logs (all stubs)
"""
import os

import h5py
import numpy as np

#: words that the text format of iterations.txt itself uses
FORMAT_WORDS = ["restart", "rl", "it", "arange", "Checkpoints", "3D",
                "output", "variables", "available", "Reading", "iterations",
                "checkpoint", "at", "its", "np", "file_0", "xyz", "h5"]


def dataset_key(thorn, var, it, tl=0, m=None, rl=None, c=None):
    k = f"{thorn}::{var} it={it} tl={tl}"
    if m is not None:
        k += f" m={m}"
    if rl is not None:
        k += f" rl={rl}"
    if c is not None:
        k += f" c={c}"
    return k


def h5_filename(name, thorn=None, xyz_prefix=False, chunk=None,
                xyz_suffix=False):
    fn = (thorn + "-" if thorn is not None else "") + name
    if xyz_prefix:
        fn += ".xyz"
    if chunk is not None:
        fn += f".file_{chunk}"
    if xyz_suffix:
        fn += ".xyz"
    return fn + ".h5"


def checkpoint_filename(it, chunk=None):
    return (f"checkpoint.chkpt.it_{it}"
            + (f".file_{chunk}" if chunk is not None else "") + ".h5")


def restart_path(simloc, sim, r):
    return f"{simloc}{sim}/output-{r:04d}/{sim}/"


def iteration_list(triple):
    t = [int(v) for v in triple]
    if len(t) == 1:
        return t
    a, b, d = t
    return list(range(a, b + 1, d))


def file_names(fspec, nproc):
    """Names of the file(s) that one file spec produces."""
    thorn = fspec["thorn"].lower() if fspec["group"] else None
    xp, xs = fspec.get("xyz") == "prefix", fspec.get("xyz") == "suffix"
    chunks = [None] if not nproc else list(range(nproc))
    return [h5_filename(fspec["name"], thorn, xp, c, xs) for c in chunks]


def write_par(simloc, sim, r, text):
    d = f"{simloc}{sim}/output-{r:04d}/"
    os.makedirs(d, exist_ok=True)
    p = d + sim + ".par"
    with open(p, "w") as f:
        f.write(text)
    return p


MINIMAL_PAR = """ActiveThorns = "Carpet CoordBase"
CoordBase::xmin = -10.0
CoordBase::xmax = 10.0
CoordBase::ymin = -10.0
CoordBase::ymax = 10.0
CoordBase::zmin = -10.0
CoordBase::zmax = 10.0
CoordBase::dx = 0.5
CoordBase::dy = 0.5
CoordBase::dz = 0.5
"""


def write_restart(simloc, sim, r, spec):
    """Write restart ``r`` of simulation ``sim`` below ``simloc``."""
    path = restart_path(simloc, sim, r)
    os.makedirs(path, exist_ok=True)
    nproc = int(spec.get("nproc", 0))
    ncomp = int(spec.get("ncomp", 1))
    m = 0 if spec.get("m0") else None
    levels = {int(k): iteration_list(v) for k, v in spec["levels"].items()}
    arr = np.zeros((2, 2, 2))
    for fspec in spec["files"]:
        for ifile, fn in enumerate(file_names(fspec, nproc)):
            with h5py.File(path + fn, "w") as h:
                h.create_group("Parameters and Global Attributes")
                if nproc:
                    comps = [ifile]
                elif ncomp > 1:
                    comps = list(range(ncomp))
                else:
                    comps = [None]
                for var in fspec["vars"]:
                    for rl, its in levels.items():
                        only = spec.get("level_comps", {}).get(str(rl))
                        for it in its:
                            for c in comps:
                                if only is not None and c not in only:
                                    continue   # level not on this component
                                h.create_dataset(
                                    dataset_key(fspec["thorn"], var, it, 0,
                                                m, rl, c), data=arr)
    if spec.get("decoys"):
        names = [f["name"] for f in spec["files"]][:1] or ["alp"]
        for n in names:
            for fn in (f"{n}.x.h5", f"{n}.xy.h5", f"{n}.xz.h5", f"{n}.d.h5",
                       f"{n}.x.asc", f"{n}.xyz.asc", f"{n}.maximum.asc"):
                with open(path + fn, "w") as f:
                    f.write("stub")
        for fn in ("carpet-timing-statistics.0000.txt", "formaline-jar.txt",
                   sim + ".out", "AllTimers.000000.txt"):
            with open(path + fn, "w") as f:
                f.write("stub")
    chk_nproc = int(spec.get("chk_nproc", 0))
    for it in spec.get("checkpoints", []):
        for c in ([None] if not chk_nproc else range(chk_nproc)):
            # the repository fixtures use non-HDF5 stubs for checkpoints
            with open(path + checkpoint_filename(it, c), "w") as f:
                f.write("stub")


def content_truth(spec, known_groups):
    """variable-group -> files mapping that get_content documents: variables
    that share exactly the same set of files are grouped (sorted tuple); a
    file of a group listed in ``known_groups`` holds that group's variables,
    any other group file holds the variables found in its dataset keys."""
    nproc = int(spec.get("nproc", 0))
    var_files = {}
    for fspec in spec["files"]:
        names = file_names(fspec, nproc)
        if fspec["group"]:
            base = fspec["thorn"].lower() + "-" + fspec["name"]
            vs = known_groups.get(base, fspec["vars"])
        else:
            vs = [fspec["name"]]
        for v in vs:
            var_files.setdefault(v, set()).update(names)
    groups = {}
    for v, fs in var_files.items():
        groups.setdefault(tuple(sorted(fs)), []).append(v)
    return {tuple(sorted(vs)): list(fs) for fs, vs in groups.items()}


def catalogue_truth(spec, known_groups):
    levels = {int(k): iteration_list(v) for k, v in spec["levels"].items()}
    allits = sorted({i for its in levels.values() for i in its})
    chk = sorted({int(i) for i in spec.get("checkpoints", [])})
    content = content_truth(spec, known_groups)
    out = dict(content=content, levels=levels, checkpoints=chk)
    if content:
        out["its available"] = [allits[0], allits[-1]]
    elif chk:
        out["its available"] = [chk[0], chk[-1]]
    return out
