"""Exact pointwise reference tensors from analytic g, dg, ddg (DESIGN 3.2).
Textbook formulas written independently of aurel. Index 0 = t."""
import itertools

import numpy as np

KAPPA = 8 * np.pi


def inv(g):
    n = g.shape[0]
    m = np.moveaxis(g, (0, 1), (-2, -1))
    return np.moveaxis(np.linalg.inv(m), (-2, -1), (0, 1))


def det(g):
    return np.linalg.det(np.moveaxis(g, (0, 1), (-2, -1)))


def curvature(g, dg, ddg):
    """Any dimension. dg[c,a,b] = d_c g_ab, ddg[c,d,a,b]."""
    n = g.shape[0]
    gi = inv(g)
    # Gamma_{abc} = 1/2 (d_b g_ac + d_c g_ab - d_a g_bc)
    Gd = 0.5 * (np.einsum('bac...->abc...', dg)
                + np.einsum('cab...->abc...', dg) - dg)
    Gu = np.einsum('ad...,dbc...->abc...', gi, Gd)
    R = 0.5 * (np.einsum('bcad...->abcd...', ddg)
               + np.einsum('adbc...->abcd...', ddg)
               - np.einsum('acbd...->abcd...', ddg)
               - np.einsum('bdac...->abcd...', ddg))
    R = R + (np.einsum('ebc...,ead...->abcd...', Gu, Gd)
             - np.einsum('ebd...,eac...->abcd...', Gu, Gd))
    Ric = np.einsum('ac...,abcd...->bd...', gi, R)
    RS = np.einsum('bd...,bd...->...', gi, Ric)
    Ein = Ric - 0.5 * RS * g
    Ruddd = np.einsum('ae...,ebcd...->abcd...', gi, R)
    Ruudd = np.einsum('bf...,afcd...->abcd...', gi, Ruddd)
    Kr = np.einsum('abcd...,cdab...->...', Ruudd, Ruudd)
    out = dict(g=g, gup=gi, Gd=Gd, Gu=Gu, R=R, Ruddd=Ruddd, Ruudd=Ruudd,
               Ric=Ric, RS=RS, Ein=Ein, Kr=Kr)
    if n >= 3:
        a, b = 1.0 / (n - 2), 1.0 / ((n - 1) * (n - 2))
        C = (R
             - a * (np.einsum('ac...,bd...->abcd...', g, Ric)
                    - np.einsum('ad...,bc...->abcd...', g, Ric)
                    - np.einsum('bc...,ad...->abcd...', g, Ric)
                    + np.einsum('bd...,ac...->abcd...', g, Ric))
             + b * RS * (np.einsum('ac...,bd...->abcd...', g, g)
                         - np.einsum('ad...,bc...->abcd...', g, g)))
        out["Weyl"] = C
    return out


def levi_civita_symbol(n):
    e = np.zeros((n,) * n)
    for p in itertools.permutations(range(n)):
        sign = 1
        q = list(p)
        for i in range(n):
            for j in range(i + 1, n):
                if q[i] > q[j]:
                    sign = -sign
        e[p] = sign
    return e


def split31(g, dg):
    """3+1 quantities aurel takes as input, from g and first derivatives."""
    gam = g[1:, 1:]
    bd = g[0, 1:]
    gamu = inv(gam)
    bu = np.einsum('ij...,j...->i...', gamu, bd)
    a2 = np.einsum('i...,i...->...', bu, bd) - g[0, 0]
    alpha = np.sqrt(a2)
    dtgam = dg[0, 1:, 1:]
    dgam = dg[1:, 1:, 1:]   # dgam[k,i,j]
    G3d = 0.5 * (np.einsum('jik...->ijk...', dgam)
                 + np.einsum('kij...->ijk...', dgam) - dgam)
    G3 = np.einsum('il...,ljk...->ijk...', gamu, G3d)
    dbd = dg[1:, 0, 1:]      # dbd[i,j] = d_i beta_j
    Dbd = dbd - np.einsum('kij...,k...->ij...', G3, bd)
    K = (Dbd + np.einsum('ij...->ji...', Dbd) - dtgam) / (2 * alpha)
    dtgamu = -np.einsum('ia...,jb...,ab...->ij...', gamu, gamu, dtgam)
    dtbd = dg[0, 0, 1:]
    dtbu = (np.einsum('ij...,j...->i...', dtgamu, bd)
            + np.einsum('ij...,j...->i...', gamu, dtbd))
    dta2 = (np.einsum('i...,i...->...', dtbu, bd)
            + np.einsum('i...,i...->...', bu, dtbd) - dg[0, 0, 0])
    dtalpha = dta2 / (2 * alpha)
    # spatial derivatives of lapse and shift (exact)
    dgamu = -np.einsum('ia...,jb...,kab...->kij...', gamu, gamu, dgam)
    dbu = (np.einsum('kij...,j...->ki...', dgamu, bd)
           + np.einsum('ij...,kj...->ki...', gamu, dbd))   # d_k beta^i
    da2 = (np.einsum('ki...,i...->k...', dbu, bd)
           + np.einsum('i...,ki...->k...', bu, dbd) - dg[1:, 0, 0])
    dalpha = da2 / (2 * alpha)
    nup = np.zeros((4,) + alpha.shape)
    nup[0] = 1 / alpha
    nup[1:] = -bu / alpha
    ndown = np.zeros((4,) + alpha.shape)
    ndown[0] = -alpha
    return dict(alpha=alpha, betaup=bu, betadown=bd, gamma=gam, gammaup=gamu,
                K=K, dtalpha=dtalpha, dtbetaup=dtbu, G3=G3, dtgamma=dtgam,
                dalpha=dalpha, dbetaup=dbu, nup=nup, ndown=ndown,
                Ktrace=np.einsum('ij...,ij...->...', gamu, K))


def exact(metric, T, X, Y, Z, Lambda=0.0, kappa=KAPPA):
    """Everything at once: 4D curvature, 3+1 split, 3D curvature, matter
    T := (G + Lambda g)/kappa, E/B parts w.r.t. the normal."""
    g, dg, ddg = metric(T, X, Y, Z)
    c4 = curvature(g, dg, ddg)
    s = split31(g, dg)
    c3 = curvature(g[1:, 1:], dg[1:, 1:, 1:], ddg[1:, 1:, 1:, 1:])
    out = dict(c4)
    out.update(s)
    out["dg"] = dg
    out["ddg"] = ddg
    out["gdet"] = det(g)
    out["gammadet"] = det(g[1:, 1:])
    out["s_R"] = c3["R"]
    out["s_Ruddd"] = c3["Ruddd"]
    out["s_Ric"] = c3["Ric"]
    out["s_RS"] = c3["RS"]
    out["Tdown"] = (c4["Ein"] + Lambda * g) / kappa
    n = s["nup"]
    C = c4["Weyl"]
    out["E_n"] = np.einsum('b...,d...,abcd...->ac...', n, n, C)
    eps = levi_civita_symbol(4).reshape((4,) * 4 + (1,) * (g.ndim - 2)) \
        * np.sqrt(-out["gdet"])
    eps_uudd = np.einsum('ac...,bd...,abef...->cdef...', c4["gup"],
                         c4["gup"], eps)
    Cn = np.einsum('b...,abcd...->acd...', n, C)
    en = np.einsum('f...,cdef...->cde...', n, eps_uudd)
    out["B_n"] = 0.5 * np.einsum('acd...,cde...->ae...', Cn, en)
    return out


# 8th-order central difference coefficients for the first derivative
_C8 = np.array([1 / 280, -4 / 105, 1 / 5, -4 / 5, 0, 4 / 5, -1 / 5, 4 / 105,
                -1 / 280])


def dt_exact(fun, t, h=2e-3):
    """d/dt of fun(t) (array-valued, exact fields) by 8th-order central
    differences; error O(h^8) ~ 1e-20 * scale, round-off ~ 1e-13 * scale."""
    acc = None
    for c, k in zip(_C8, range(-4, 5)):
        if c == 0:
            continue
        v = c * np.asarray(fun(t + k * h))
        acc = v if acc is None else acc + v
    return acc / h


def fd_check(metric, P, h=1e-3):
    """Self-test helper: compare analytic dg, ddg with 8th-order central
    differences of g, dg at the points P (4, npts). Returns max abs errors."""
    g, dg, ddg = metric(*P)
    e1 = e2 = 0.0
    for c in range(4):
        def gfun(s, c=c):
            Q = [np.array(p, float) for p in P]
            Q[c] = Q[c] + s
            return metric(*Q)[0]

        def dgfun(s, c=c):
            Q = [np.array(p, float) for p in P]
            Q[c] = Q[c] + s
            return metric(*Q)[1]
        e1 = max(e1, float(np.max(np.abs(dt_exact(gfun, 0.0, h) - dg[c]))))
        e2 = max(e2, float(np.max(np.abs(dt_exact(dgfun, 0.0, h) - ddg[c]))))
    return e1, e2


def bssn_exact(ex):
    """Exact conformal (BSSNOK) quantities from the exact spatial metric and
    its first/second derivatives (textbook formulas, Alcubierre 2.8)."""
    gam, gamu = ex["gamma"], ex["gammaup"]
    dgam = ex["dg"][1:, 1:, 1:]            # [k,i,j]
    ddgam = ex["ddg"][1:, 1:, 1:, 1:]      # [k,l,i,j]
    nd = gam.ndim - 2
    d3 = np.eye(3).reshape((3, 3) + (1,) * nd)
    phi = np.log(ex["gammadet"]) / 12
    dphi = np.einsum('ij...,kij...->k...', gamu, dgam) / 12
    dgamu = -np.einsum('ia...,jb...,lab...->lij...', gamu, gamu, dgam)
    ddphi = (np.einsum('lij...,kij...->kl...', dgamu, dgam)
             + np.einsum('ij...,klij...->kl...', gamu, ddgam)) / 12
    gt = np.exp(-4 * phi) * gam
    gtu = np.exp(4 * phi) * gamu
    Gt = ex["G3"] - 2 * (np.einsum('ki...,j...->kij...', d3, dphi)
                         + np.einsum('kj...,i...->kij...', d3, dphi)
                         - np.einsum('ij...,kl...,l...->kij...', gam, gamu,
                                     dphi))
    Gti = np.einsum('jk...,ijk...->i...', gtu, Gt)
    DDphi = ddphi - np.einsum('kij...,k...->ij...', Gt, dphi)
    Rphi = (-2 * DDphi
            - 2 * gt * np.einsum('kl...,kl...->...', gtu, DDphi)
            + 4 * np.einsum('i...,j...->ij...', dphi, dphi)
            - 4 * gt * np.einsum('kl...,k...,l...->...', gtu, dphi, dphi))
    Rt = ex["s_Ric"] - Rphi
    K = ex["K"]
    trK = ex["Ktrace"]
    Ad = K - gam * trK / 3
    return dict(phi=phi, psi=np.exp(phi), dphi=dphi, ddphi=ddphi,
                gammadown3_bssnok=gt, gammaup3_bssnok=gtu,
                s_Gamma_udd3_bssnok=Gt, s_Gamma_bssnok=Gti,
                s_Ricci_down3_phi=Rphi, s_Ricci_down3_bssnok=Rt,
                s_RicciS_bssnok=np.einsum('ij...,ij...->...', gtu, Rt),
                Adown3=Ad, Adown3_bssnok=np.exp(-4 * phi) * Ad)


def evolved_fields(metric, t, X, Y, Z):
    """The 3+1 / BSSNOK fields whose coordinate-time derivative aurel offers,
    evaluated exactly at time t (used with dt_exact)."""
    g, dg, _ = metric(t, X, Y, Z, order=1)
    s = split31(g, dg)
    gam, gamu = s["gamma"], s["gammaup"]
    dgam = dg[1:, 1:, 1:]
    nd = gam.ndim - 2
    d3 = np.eye(3).reshape((3, 3) + (1,) * nd)
    detg = det(gam)
    phi = np.log(detg) / 12
    dphi = np.einsum('ij...,kij...->k...', gamu, dgam) / 12
    Gt = s["G3"] - 2 * (np.einsum('ki...,j...->kij...', d3, dphi)
                        + np.einsum('kj...,i...->kij...', d3, dphi)
                        - np.einsum('ij...,kl...,l...->kij...', gam, gamu,
                                    dphi))
    gtu = np.exp(4 * phi) * gamu
    K = s["K"]
    trK = s["Ktrace"]
    Ad = K - gam * trK / 3
    return dict(Ktrace=trK, phi=phi, gammaup=gamu,
                gammadown3_bssnok=np.exp(-4 * phi) * gam,
                Adown3_bssnok=np.exp(-4 * phi) * Ad,
                s_Gamma_bssnok=np.einsum('jk...,ijk...->i...', gtu, Gt))


def dt_fields(metric, t, X, Y, Z, h=2e-3):
    keys = None
    acc = {}
    for c, k in zip(_C8, range(-4, 5)):
        if c == 0:
            continue
        fl = evolved_fields(metric, t + k * h, X, Y, Z)
        for kk, v in fl.items():
            acc[kk] = acc.get(kk, 0) + c * v
    return {kk: v / h for kk, v in acc.items()}
