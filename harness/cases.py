"""Shared case generators: (spacetime, time, grid, order, boundary)."""
import numpy as np
from hypothesis import strategies as st

from . import aurelside as A
from . import spacetimes

S = spacetimes.strategies()
f = S["f"]
dy = A.dyadic_strategies()

MASKS = {
    "generic": {},
    "zero_shift": dict(shift=False),
    "unit_lapse": dict(lapse=False),
    "diagonal": dict(offdiag=False),
    "one_shift": dict(shift_comps=(2,)),
    "lapse_only": dict(shift=False, diag=False, offdiag=False),
}


@st.composite
def spacetime_case(draw, kinds=("Wp", "Wp", "Wp", "Wn", "F", "KS", "PP"),
                   orders_p=(2, 4, 4, 6, 8), orders_n=(2, 4, 4),
                   np_range=(10, 13), extra_n=(3, 5), masks=True,
                   static=False, trim=3):
    kind = draw(st.sampled_from(list(kinds)))
    c = dict(kind=kind)
    if kind in ("Wp", "FLp", "Wt0"):
        order = draw(st.sampled_from(list(orders_p)))
        N = [draw(st.integers(*np_range)) for _ in range(3)]
        h = [draw(dy(0.25, 0.45)) for _ in range(3)]
        L = [n * x for n, x in zip(N, h)]
        mname = draw(st.sampled_from(["generic"] * 5 + list(MASKS))) \
            if masks else "generic"
        if kind == "Wp":
            spec = draw(S["wavy"](periodic_L=L, mask=MASKS[mname], kmax=1.0,
                                  static=static))
        elif kind == "Wt0":
            # shift vanishes on the slice t = 0, its t-derivative does not
            mname = "zero_shift"
            spec = draw(S["wavy"](periodic_L=L, mask=MASKS[mname], kmax=1.0,
                                  tshift=True))
        else:
            spec = draw(S["fl"]())
        c.update(boundary="periodic", N=N, h=h, mask=mname)
    else:
        order = draw(st.sampled_from(list(orders_n)))
        m = order // 2
        N = [2 * trim * m + draw(st.integers(*extra_n)) for _ in range(3)]
        h = [draw(dy(0.08, 0.14)) for _ in range(3)]
        L = [(n - 1) * x for n, x in zip(N, h)]
        c.update(boundary="no boundary", N=N, h=h, mask="generic")
        if kind == "Wn":
            mname = draw(st.sampled_from(["generic"] * 4 + list(MASKS))) \
                if masks else "generic"
            spec = draw(S["wavy"](mask=MASKS[mname], kmax=1.5,
                                  static=static))
            c["mask"] = mname
        elif kind == "F":
            spec = draw(S["flat"](kmax=1.5))
        elif kind == "KS":
            spec = draw(S["ks"]())
        elif kind == "KSin":
            # box inside the horizon: beta_k beta^k > alpha^2, g_tt > 0
            spec = draw(S["ks"](inside=True))
        elif kind == "PP":
            spec = draw(S["pp"]())
        elif kind == "FL":
            spec = draw(S["fl"]())
        else:
            raise ValueError(kind)
    x0 = [draw(dy(-1.0, 0.0, 64)) for _ in range(3)] \
        if kind not in ("KS", "KSin") else [-round(32 * l) / 64 for l in L]
    c.update(spec=spec, t=0.0 if kind == "Wt0" else draw(f(-1, 1)),
             order=order, x0=x0, L=L, trim=trim,
             omit_defaults=(kind == "Wt0" or draw(st.booleans())),
             kappa=draw(st.sampled_from([8 * np.pi] * 3 + [1.0, 2.5])),
             # cache settings never change a value (C01/C03): mostly none
             # given, sometimes a clean-up every other calculation or a
             # memory limit below the size of the inputs
             cache_kw=draw(st.sampled_from(
                 [{}] * 5 + [dict(clear_cache_every_nbr_calc=2),
                             dict(memory_threshold_inGB=1e-7)])))
    return c


def generic_W(order=4, t=0.3):
    Np, hp = [12, 10, 11], [0.34375, 0.359375, 0.40625]
    Lp = [n * x for n, x in zip(Np, hp)]
    k = lambda n: [2 * np.pi * a / b for a, b in zip(n, Lp)]  # noqa: E731
    W = dict(family="W", params=dict(modes=[
        dict(A=[[0.030, 0.020, -0.015, 0.018], [0.020, 0.025, 0.012, -0.016],
                [-0.015, 0.012, -0.028, 0.014], [0.018, -0.016, 0.014, 0.022]],
             k=[0.7] + k([1, -1, 1]), phi=0.4),
        dict(A=[[-0.020, 0.012, 0.010, -0.011], [0.012, 0.015, 0.020, 0.009],
                [0.010, 0.020, 0.018, -0.010], [-0.011, 0.009, -0.010, 0.03]],
             k=[-0.5] + k([0, 1, -1]), phi=2.0)]))
    return dict(spec=W, t=t, x0=[-0.375, -0.75, -0.25], h=hp, N=Np, L=Lp,
                boundary="periodic", mask="generic", kind="Wp", order=order)


def generic_Wt0(order=4):
    """alpha != 1, gamma generic, beta = 0 on the slice but d_t beta != 0;
    defaults (the zero shift) are omitted from the inputs."""
    c = generic_W(order, t=0.0)
    k = c["spec"]["params"]["modes"][0]["k"]
    modes = []
    for m in c["spec"]["params"]["modes"]:
        A = np.array(m["A"], float)
        A[0, 1:] = 0.0
        A[1:, 0] = 0.0
        modes.append(dict(m, A=A.tolist()))
    c["spec"] = dict(family="W", params=dict(
        modes=modes, tshift=[dict(b=[0.05, -0.04, 0.03], k=k[1:], phi=0.7,
                                  w=1.2)]))
    c.update(mask="zero_shift", kind="Wt0", omit_defaults=True)
    return c


def generic_KS(order=4, trim=3, t=0.2):
    ks = dict(family="KS", params=dict(M=0.2, boost=[0.2, -0.1, 0.15],
                                       rot=[0.3, -0.5, 0.2],
                                       offset=[0.0, 3.5, 0.4, -0.3]))
    m = order // 2
    N = [2 * trim * m + 4, 2 * trim * m + 3, 2 * trim * m + 5]
    h = [0.109375, 0.109375, 0.109375]
    return dict(spec=ks, t=t, x0=[-0.8125, -0.75, -0.875], h=h, N=N,
                L=[(n - 1) * x for n, x in zip(N, h)],
                boundary="no boundary", order=order, mask="generic",
                kind="KS", trim=trim)


def generic_PP(order=4, trim=3, t=0.1):
    pp = dict(family="PP", params=dict(f=[0.05, 1.1, 0.3],
                                       h=[0.04, 0.8, 1.2]))
    m = order // 2
    N = [2 * trim * m + 4, 2 * trim * m + 3, 2 * trim * m + 5]
    h = [0.109375, 0.125, 0.09375]
    return dict(spec=pp, t=t, x0=[-0.5, -0.75, -0.625], h=h, N=N,
                L=[(n - 1) * x for n, x in zip(N, h)],
                boundary="no boundary", order=order, mask="generic",
                kind="PP", trim=trim)


def generic_FL(order=4, t=0.4, periodic=True, trim=3):
    fl = dict(family="FL", params=dict(N=[0.3, 1.2, 0.5],
                                       a=[1.1, 0.2, 0.05, 1.3]))
    if periodic:
        N, h = [10, 11, 12], [0.34375, 0.359375, 0.40625]
        return dict(spec=fl, t=t, x0=[-0.375, -0.75, -0.25], h=h, N=N,
                    L=[n * x for n, x in zip(N, h)], boundary="periodic",
                    order=order, mask="generic", kind="FLp")
    m = order // 2
    N = [2 * trim * m + 4, 2 * trim * m + 3, 2 * trim * m + 5]
    h = [0.109375, 0.125, 0.09375]
    return dict(spec=fl, t=t, x0=[-0.5, -0.75, -0.625], h=h, N=N,
                L=[(n - 1) * x for n, x in zip(N, h)],
                boundary="no boundary", order=order, mask="generic",
                kind="FL", trim=trim)


def generic_FL_tiny(order=4, t=0.4):
    """Scale factor 2e-3: det gamma ~ 6e-17 (below machine epsilon),
    gamma^ij ~ 2.5e5."""
    c = generic_FL(order, t)
    c["spec"] = dict(family="FL", params=dict(N=[0.3, 1.2, 0.5],
                                              a=[0.002, 0.2, 0.05, 1.3]))
    return c


def generic_KSin(order=4, trim=3, t=0.2):
    """Box inside the horizon of a Kerr-Schild hole: beta_k beta^k > alpha^2
    everywhere on the grid, g_tt > 0."""
    c = generic_KS(order, trim, t)
    c["spec"] = dict(family="KS", params=dict(
        M=6.0, boost=[0.0, 0.0, 0.0], rot=[0.3, -0.5, 0.2],
        offset=[0.0, 4.9, 0.2, -0.3]))
    c["kind"] = "KSin"
    return c


def nontrivial_flags(ex):
    b = ex["betaup"]
    nshift = sum(float(np.max(np.abs(b[i]))) > 1e-3 for i in range(3))
    offd = max(float(np.max(np.abs(ex["gamma"][i, j])))
               for i, j in ((0, 1), (0, 2), (1, 2)))
    offk = max(float(np.max(np.abs(ex["K"][i, j])))
               for i, j in ((0, 1), (0, 2), (1, 2)))
    lapse = float(np.max(np.abs(ex["alpha"] - 1))) > 1e-3
    dtlapse = float(np.max(np.abs(ex["dtalpha"]))) > 1e-4
    return dict(nshift=nshift, offdiag_gamma=offd > 1e-3,
                offdiag_K=offk > 1e-4, lapse=lapse, dtlapse=dtlapse)
