"""Shared case generators and oracles for the Einstein-Toolkit reading checks
(C11, C12): decomposition descriptors -> boxes, the simulation-case strategy,
drawn parameters -> etgen spec, request resolution and the comparison of a
read_data / read_ET_variables result with etgen's ground truth."""
from __future__ import annotations

import contextlib
import io

import numpy as np
from hypothesis import strategies as st

from harness import etgen
from harness.common import HarnessError


def quiet(fn, *a, **k):
    with contextlib.redirect_stdout(io.StringIO()):
        return fn(*a, **k)


def pick(n, ks):
    """ks (drawn ints) -> sorted distinct cut positions in 1..n-1."""
    remaining = list(range(1, n))
    cuts = []
    for k in ks:
        if not remaining:
            break
        cuts.append(remaining.pop(k % len(remaining)))
    return sorted(cuts)


def resolve(n, dec):
    """decomposition descriptor -> list of boxes for interior size n."""
    kind = dec["kind"]
    if kind == "rect":
        return etgen.rect_boxes(n, [pick(n[a], dec["k"][a]) for a in range(3)])
    if kind == "nested":
        zc = pick(n[2], dec["z"])
        nsl = len(zc) + 1
        yc = [pick(n[1], dec["y"][i % len(dec["y"])]) for i in range(nsl)]
        xc = []
        for i in range(nsl):
            rows = dec["x"][i % len(dec["x"])]
            xc.append([pick(n[0], rows[j % len(rows)])
                       for j in range(len(yc[i]) + 1)])
        return etgen.nested_boxes(n, zc, yc, xc)
    if kind == "tree":
        def rec(box, t):
            if t is None:
                return [box]
            ax, k, lo, hi = t
            a, b = box[ax]
            if b - a < 2:
                return [box]
            pos = a + 1 + k % (b - a - 1)
            b1 = [list(s) for s in box]
            b2 = [list(s) for s in box]
            b1[ax] = [a, pos]
            b2[ax] = [pos, b]
            return rec(b1, lo) + rec(b2, hi)
        return rec([[0, n[0]], [0, n[1]], [0, n[2]]], dec["t"])
    raise HarnessError(f"unknown decomposition {kind}")


def permute(boxes, seed):
    if not seed or len(boxes) < 2:
        return boxes
    p = np.random.RandomState(seed).permutation(len(boxes))
    return [boxes[i] for i in p]


def nclass(k):
    return ("1" if k == 1 else "2" if k == 2 else "3" if k == 3 else
            "4-8" if k <= 8 else "9-27" if k <= 27 else ">27")


def cut_axes(boxes):
    ax = "".join("xyz"[a] for a in range(3)
                 if len({tuple(b[a]) for b in boxes}) > 1)
    return ax or "none"


def layout_kind(n, boxes):
    if not etgen.is_partition(n, boxes):
        return "missing"
    if etgen.is_rectilinear(boxes):
        return "rect"
    if etgen.is_nested_zyx(n, boxes):
        return "nested"
    return "general"


def describe_mismatch(got, want):
    """-> (kind, observed) for an array that should equal ``want``."""
    got = np.asarray(got)
    if got.shape != want.shape:
        return "shape", dict(got=list(got.shape), want=list(want.shape))
    if got.dtype != np.float64:
        return "dtype", dict(got=str(got.dtype))
    bad = np.argwhere(got != want)
    i = tuple(int(v) for v in bad[0])
    try:
        dg, dw = etgen.decode(got[i]), etgen.decode(want[i])
        fields = [f for f in ("var", "it", "rl", "restart") if dg[f] != dw[f]]
    except Exception:  # noqa: BLE001
        dg, dw, fields = float(got[i]), float(want[i]), ["garbage"]
    what = "+".join(fields) if fields else "position"
    return f"value:{what}", dict(index=list(i), nbad=int(len(bad)),
                                 got=dg, want=dw)


def subblock_ok(got, full):
    """True iff ``got`` is a contiguous block of ``full`` at the place its
    own values say (no misplacement inside an incomplete result)."""
    got = np.asarray(got)
    if got.ndim != 3 or got.size == 0:
        return False
    hit = np.argwhere(full == got[0, 0, 0])
    if len(hit) != 1:
        return False
    o = hit[0]
    sl = tuple(slice(int(o[a]), int(o[a]) + got.shape[a]) for a in range(3))
    blk = full[sl]
    return blk.shape == got.shape and np.array_equal(blk, got)


K = st.integers(0, 63)


def ks(m):
    return st.lists(K, min_size=m, max_size=m)


def seg_triples(lo, hi, maxseg=4):
    out = []
    for a in range(1, maxseg + 1):
        for b in range(1, maxseg + 1):
            for c in range(1, maxseg + 1):
                if lo <= a * b * c <= hi:
                    out.append((a, b, c))
    return out


CLASS_RANGES = {"1": (1, 1), "2": (2, 2), "3": (3, 3), "4-8": (4, 8),
                "9-27": (9, 27), ">27": (28, 64)}


@st.composite
def rect_dec(draw, classes):
    cl = draw(st.sampled_from(classes))
    a, b, c = draw(st.sampled_from(seg_triples(*CLASS_RANGES[cl])))
    return dict(kind="rect", k=[draw(ks(a - 1)), draw(ks(b - 1)),
                                draw(ks(c - 1))], need=[a, b, c])


# nested count structures: list (slabs) of list (rows) of boxes-per-row
def _nested_structs(total_lo, total_hi, maxz=3, maxy=3, maxx=3):
    rows_opts = []
    for ny in range(1, maxy + 1):
        def rec(prefix, left):
            if left == 0:
                rows_opts.append(list(prefix))
                return
            for nx in range(1, maxx + 1):
                rec(prefix + [nx], left - 1)
        rec([], ny)
    out = []

    def recz(prefix, left, tot):
        if tot > total_hi:
            return
        if left == 0:
            if total_lo <= tot:
                out.append([list(r) for r in prefix])
            return
        for r in rows_opts:
            recz(prefix + [r], left - 1, tot + sum(r))
    for nz in range(1, maxz + 1):
        recz([], nz, 0)
    return out


NESTED = {cl: _nested_structs(*CLASS_RANGES[cl])
          for cl in ("2", "3", "4-8", "9-27")}


@st.composite
def nested_dec(draw, classes):
    cl = draw(st.sampled_from([c for c in classes if c in NESTED]))
    struct = draw(st.sampled_from(NESTED[cl]))
    z = draw(ks(len(struct) - 1))
    y = [draw(ks(len(rows) - 1)) for rows in struct]
    x = [[draw(ks(nb - 1)) for nb in rows] for rows in struct]
    need = [max(nb for rows in struct for nb in rows),
            max(len(rows) for rows in struct), len(struct)]
    return dict(kind="nested", z=z, y=y, x=x, need=need)


def tree_strategy(depth):
    leaf = st.none()
    if depth == 0:
        return leaf
    sub = tree_strategy(depth - 1)
    node = st.tuples(st.integers(0, 2), K, sub, sub).map(list)
    return st.one_of(leaf, node, node)


@st.composite
def tree_dec(draw):
    sub = tree_strategy(2)
    t = [draw(st.integers(0, 2)), draw(K), draw(sub), draw(sub)]
    return dict(kind="tree", t=t, need=[2, 2, 2])


def supported_dec(classes):
    nest_ok = [c for c in classes if c in NESTED]
    if not nest_ok:
        return rect_dec(classes)
    return st.one_of(rect_dec(classes), nested_dec(classes))


@st.composite
def sizes_for(draw, need, nmax=12):
    return [draw(st.integers(max(3, need[a]), nmax)) for a in range(3)]


GROUP_KEYS = list(etgen.GROUPS)


SIMNAMES = ["etsim", "Sim_01", "x", "run2b", "BHB_lowres"]


def request_strategy(nlev, nres, max_vars=4, max_its=6):
    """A request, independent of the content: variables and iterations are
    indices resolved against the written simulation (resolve_request)."""
    return st.fixed_dictionaries(dict(
        varsel=st.one_of(st.just([]), st.lists(K, min_size=1,
                                               max_size=max_vars),
                         st.lists(K, min_size=1, max_size=max_vars)),
        rl=st.integers(0, nlev - 1),
        restart=st.sampled_from([-1, -1] + list(range(nres))),
        itsel=st.lists(st.integers(0, 63), min_size=1, max_size=max_its),
        extra=st.sampled_from([[], [], [1000], [999, 1001]])))


@st.composite
def sim_case(draw, classes, ghost_lo=1, unsupported=False, nlev_max=3,
             nmax=12, fixed_layout=True, group_pool=None, nres_max=3,
             with_request=True, regrid=False, nlev_choices=None):
    nlev = draw(st.sampled_from(nlev_choices
                                or [1, 1, 2, 2, 3][:2 * nlev_max - 1]))
    nres = draw(st.integers(1, nres_max))
    restarts = []
    need = [1, 1, 1]
    for r in range(nres):
        if unsupported:
            mode = draw(st.sampled_from(["tree", "missing", "ctag", "file0",
                                         "fewer"]))
        else:
            mode = "ok"
        if mode in ("tree", "missing"):
            dec = draw(tree_dec())
        elif mode in ("ctag", "file0"):
            dec = dict(kind="rect", k=[[], [], []], need=[1, 1, 1])
        elif mode == "fewer":
            dec = draw(rect_dec(["4-8"]))
        else:
            dec = draw(supported_dec(classes))
        need = [max(need[a], dec["need"][a]) for a in range(3)]
        length = draw(st.integers(0, 3))
        rs = dict(dec=dec, perm=draw(st.sampled_from([0, 0]) if unsupported
                                     else st.integers(0, 999)),
                  len=length, overlap=draw(st.integers(0, 3)), mode=mode,
                  missing=draw(K))
        if fixed_layout:
            rs["per_proc"] = draw(st.booleans())
        if regrid and mode == "ok":
            # regridding: from some iteration on, one level is split
            # differently (only written in one-file layouts). Not part of the
            # whole-directory cases: the iteration catalogue assumes that a
            # level keeps its components within a restart (DESIGN 7.2)
            rdec = draw(supported_dec(classes))
            need = [max(need[a], rdec["need"][a]) for a in range(3)]
            rs["regrid"] = dict(rl=draw(st.integers(0, 2)),
                                at=draw(st.integers(1, 6)), dec=rdec,
                                perm=draw(st.integers(0, 999)))
        restarts.append(rs)
    if unsupported:
        if any(r["mode"] in ("tree", "missing") for r in restarts):
            nlev = 1
        elif any(r["mode"] == "fewer" for r in restarts):
            nlev = 2
    n = [draw(sizes_for(need, nmax)) for _ in range(nlev)]
    gmax = 4
    ghost = [draw(st.integers(ghost_lo, gmax)) for _ in range(3)]
    if ghost_lo == 0:
        z = draw(st.integers(1, 7))          # which axes have ghost 0
        ghost = [0 if (z >> a) & 1 else ghost[a] for a in range(3)]
    groups = draw(st.lists(st.sampled_from(group_pool or GROUP_KEYS),
                           min_size=1, max_size=4, unique=True))
    stride = draw(st.integers(1, 4))
    subcycle = draw(st.booleans()) and nlev == 2
    case = dict(sim=draw(st.sampled_from(SIMNAMES)), n=n, ghost=ghost,
                groups=groups, restarts=restarts, stride=stride,
                subcycle=subcycle, first=draw(st.integers(0, 3)),
                origin1=draw(st.sampled_from([[0, 0, 0], [3, 3, 3],
                                              [2, 0, 5]])))
    if fixed_layout:
        case["grouped"] = draw(st.booleans())
    # the request (variables as indices into the pool of tensor and
    # component names of the groups actually written, see request_pool)
    if with_request:
        case["req"] = draw(request_strategy(nlev, nres))
    return case


MAX_VAR_COMP = 110    # bound on variables x components (cost of one case)


def request_pool(groups):
    tens, comps = [], []
    for g in groups:
        t, c = etgen.request_names(g)
        tens += t
        comps += c
    pool = tens + comps if not tens else tens + comps + tens
    # tensors whose components are written by different output groups
    # (Weyl_Psi = WeylScal4 Psi4r + Psi4i): appended, so that the indices of
    # the entries above do not depend on them
    have = {v for g in groups for v in etgen.GROUPS[g][1]}
    cross = [t for t, cs in etgen.AUREL_TENSORS.items()
             if t not in tens and all(c in have for c in cs)]
    return pool + cross * 2


def build_spec(case, per_proc=None, grouped=None):
    """drawn parameters -> etgen spec (pure)."""
    nlev = len(case["n"])
    levels = [dict(n=list(case["n"][rl]), ghost=list(case["ghost"]),
                   origin=[0, 0, 0] if rl == 0 else
                   [v * rl for v in case["origin1"]]) for rl in range(nlev)]
    s0 = case["stride"]
    if case["subcycle"]:
        strides = [s0 * 2 ** (nlev - 1 - rl) for rl in range(nlev)]
    else:
        strides = [s0] * nlev
    S = strides[0]
    rss = []
    a = case["first"]
    for r, rc in enumerate(case["restarts"]):
        b = a + (min(rc["len"], 2) if case["subcycle"] else rc["len"])
        its = [[i for i in range(a * S, b * S + 1) if i % strides[rl] == 0]
               for rl in range(nlev)]
        boxes = []
        for rl in range(nlev):
            bx = resolve(levels[rl]["n"], rc["dec"])
            if rc["mode"] == "missing" and len(bx) > 1:
                bx.pop(rc["missing"] % len(bx))
            if rc["mode"] == "fewer" and rl == nlev - 1 and nlev > 1:
                # finest level not split: one component, only in file_0
                bx = resolve(levels[rl]["n"],
                             dict(kind="rect", k=[[], [], []]))
            boxes.append(permute(bx, rc["perm"]))
        ncomp = max(len(bx) for bx in boxes)
        pp = rc.get("per_proc") if per_proc is None else per_proc
        if rc["mode"] == "file0":
            pp = True
        elif rc["mode"] == "fewer":
            pp = True
        elif ncomp == 1:
            pp = False       # Carpet: no .file_ suffix with one process
        rss.append(dict(r=r, its=its, per_proc=bool(pp), boxes=boxes,
                        ctag="always" if rc["mode"] == "ctag" else "auto",
                        par=(r == 0 or rc["perm"] % 2 == 0),
                        checkpoints=[], xyz=""))
        rg = rc.get("regrid")
        if rg and not pp:
            # finest levels are the ones Carpet regrids
            grl = (nlev - 1 - rg["rl"]) % nlev
            if len(its[grl]) > 1:
                fi = its[grl][1 + (rg["at"] - 1) % (len(its[grl]) - 1)]
                rss[-1]["regrid"] = [dict(
                    rl=grl, from_it=fi,
                    boxes=permute(resolve(levels[grl]["n"], rg["dec"]),
                                  rg["perm"]))]
        # next restart starts `overlap` coarse steps before this one's end
        a = max(0, b + 1 - min(rc["overlap"], b - a + 1))
    # cost bound: keep the leading groups with nvars * ncomp <= MAX_VAR_COMP
    maxcomp = max([len(bx) for rs in rss for bx in rs["boxes"]]
                  + [len(g["boxes"]) for rs in rss
                     for g in rs.get("regrid", [])])
    groups, nv = [], 0
    for g in case["groups"]:
        k = len(etgen.GROUPS[g][1])
        if groups and (nv + k) * maxcomp > MAX_VAR_COMP:
            break
        groups.append(g)
        nv += k
    return dict(sim=case["sim"],
                grouped=bool(case.get("grouped") if grouped is None
                             else grouped),
                groups=groups, levels=levels, t0=1.0,
                dt=0.03125, restarts=rss)


def resolve_request(case, spec, rq=None):
    """-> kwargs for read_data and the expected iteration list."""
    rq = rq or case["req"]
    rl, restart = rq["rl"], rq["restart"]
    if restart >= 0:
        pool = etgen.its_of(spec, restart, rl)
        lo, hi = etgen.restart_range(spec, restart)
        ranges = [(lo, hi)]
    else:
        pool = sorted({i for rs in spec["restarts"] for i in rs["its"][rl]})
        ranges = [etgen.restart_range(spec, rs["r"])
                  for rs in spec["restarts"]]
    chosen = [pool[k % len(pool)] for k in rq["itsel"]]
    its = chosen + list(rq["extra"])
    vpool = request_pool(spec["groups"])
    vars_ = []
    for k in rq["varsel"]:
        v = vpool[k % len(vpool)]
        if v not in vars_:
            vars_.append(v)
    # unsorted with duplicates, as drawn
    expected = sorted({i for i in its
                       if any(lo <= i <= hi for lo, hi in ranges)})
    return dict(it=its, vars=vars_, rl=rl, restart=restart), expected


def source_restart(spec, it, rl, restart):
    return restart if restart >= 0 else etgen.latest_restart(spec, it, rl)


def expected_keys(spec, vars_):
    if vars_:
        return etgen.expand_request(vars_)
    return [(etgen.aurel_name(v), v) for v in etgen.variables(spec)]


def check_result(out, spec, kw, expected_its, tag, fail, strict_keys=True):
    """Compare one read_data / read_ET_variables result with ground truth.
    ``fail(disc, observed)``; returns number of arrays compared."""
    rl, restart = kw["rl"], kw["restart"]
    if not isinstance(out, dict) or "it" not in out or "t" not in out:
        fail(f"{tag}result-structure", dict(type=str(type(out))))
        return 0
    got_it = [int(i) for i in out["it"]]
    if got_it != expected_its:
        fail(f"{tag}it-order", dict(got=got_it, want=expected_its,
                                    requested=kw["it"]))
        return 0
    want_t = [etgen.time_of(spec, i) for i in expected_its]
    got_t = [None if v is None else float(v) for v in out["t"]]
    if got_t != want_t:
        fail(f"{tag}t", dict(got=got_t, want=want_t, its=expected_its))
    a2e = {etgen.aurel_name(v): v for v in etgen.ALLVARS}
    present = set(etgen.variables(spec))
    ncmp = 0
    todo = list(expected_keys(spec, kw["vars"]))
    seen = {k for k, _ in todo}
    for k in out:
        if k in ("it", "t") or k in seen:
            continue
        if k in a2e and a2e[k] in present:
            todo.append((k, a2e[k]))      # extra group members: also checked
        else:
            fail(f"{tag}keys:unknown", dict(key=k))
    for akey, et in todo:
        if akey not in out:
            if strict_keys:
                fail(f"{tag}keys:missing", dict(key=akey, et=et,
                                                got=sorted(out.keys())))
            continue
        col = out[akey]
        if len(col) != len(expected_its):
            fail(f"{tag}length", dict(key=akey, got=len(col),
                                      want=len(expected_its)))
            continue
        for i, it in enumerate(expected_its):
            src = source_restart(spec, it, rl, restart)
            want = etgen.truth(spec, et, it, rl, src)
            g = col[i]
            if g is None:
                fail(f"{tag}none", dict(key=akey, it=it))
                continue
            ncmp += 1
            if np.shape(g) == want.shape and np.array_equal(g, want) \
                    and np.asarray(g).dtype == np.float64:
                continue
            kind, obs = describe_mismatch(g, want)
            obs.update(key=akey, it=it, rl=rl, source_restart=src)
            fail(f"{tag}{kind}", obs)
            break
    return ncmp
