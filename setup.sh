#!/bin/sh
# Offline setup: make sure /venv has what the checks import. Nothing is built.
set -e
/venv/bin/python -c "import hypothesis" 2>/dev/null || \
  /venv/bin/pip install --no-index --find-links /opt/veriftools/wheels hypothesis
/venv/bin/python -c "import hypothesis, numpy, scipy, sympy, h5py, yaml; print('setup ok: hypothesis', hypothesis.__version__)"
chmod +x /verif/vcheck /verif/tools/*.py 2>/dev/null || true
